import JxlModel.Driver.Common
import JxlModel.Model.Container
/-! Line protocol for C10 (same as `harness/src/bin/c10.rs`):
`new` → `ok`; `feed <hex>` → `consumed=<n> kind=<k> <event>*` (or `dead` after an error);
`push <hex>` = `feed (leftover ++ chunk)` keeping the unconsumed tail (one step of `feedChunks`);
`finish` → `kind=<k> pending=<n>`. -/
namespace Jxl.Driver.C10
open Jxl.Container

def hexDigit (n : Nat) : Char :=
  if n < 10 then Char.ofNat (48 + n) else Char.ofNat (87 + n)

def hex (b : Bytes) : String :=
  if b.isEmpty then "-"
  else String.ofList (b.flatMap fun x => [hexDigit (x.toNat / 16), hexDigit (x.toNat % 16)])

def unhexDigit (c : Char) : Option Nat :=
  if '0' ≤ c ∧ c ≤ '9' then some (c.toNat - 48)
  else if 'a' ≤ c ∧ c ≤ 'f' then some (c.toNat - 87)
  else if 'A' ≤ c ∧ c ≤ 'F' then some (c.toNat - 55)
  else none

def unhexAux : List Char → Bytes → Option Bytes
  | [], acc => some acc.reverse
  | [_], _ => none
  | a :: b :: r, acc =>
    match unhexDigit a, unhexDigit b with
    | some x, some y => unhexAux r (UInt8.ofNat (16 * x + y) :: acc)
    | _, _ => none

def unhex (s : String) : Option Bytes :=
  if s = "-" then some [] else unhexAux s.toList []

def showKind : Kind → String
  | .unknown => "unknown" | .bare => "bare" | .container => "container" | .invalid => "invalid"

def b01 (b : Bool) : String := if b then "1" else "0"

def showEvent : Event → String
  | .kind k => s!"K:{showKind k}"
  | .codestream d => s!"CS:{hex d}"
  | .noMoreAux => "NOMORE"
  | .auxStart ty br l => s!"START:{hex ty}:{b01 br}:{b01 l}"
  | .auxData ty d => s!"DATA:{hex ty}:{hex d}"
  | .auxEnd ty => s!"END:{hex ty}"

def showErr : Err → String
  | .invalidBox => "ERR:invalid-box"
  | .validationFailed => "ERR:validation"
  | .panicUnreachable => "panic-unreachable"
  | .panicUnderflow => "panic-underflow"

structure St where
  s : PState
  dead : Bool
  pending : Bytes

def showResult (buf : Bytes) (r : FeedResult) : String :=
  let evs := r.events.map showEvent ++ (match r.error with | some e => [showErr e] | none => [])
  let head := s!"consumed={consumed buf r} kind={showKind r.state.kind}"
  " ".intercalate (head :: evs)

def step (st : St) (ws : List String) : St × String :=
  match ws with
  | ["new"] => (⟨init, false, []⟩, "ok")
  | ["feed", h] =>
    if st.dead then (st, "dead")
    else
      match unhex h with
      | none => (st, "bad-op")
      | some buf =>
        let r := feed st.s buf
        (⟨r.state, r.error.isSome, st.pending⟩, showResult buf r)
  | ["push", h] =>
    if st.dead then (st, "dead")
    else
      match unhex h with
      | none => (st, "bad-op")
      | some chunk =>
        let buf := st.pending ++ chunk
        let r := feed st.s buf
        (⟨r.state, r.error.isSome, r.rest⟩, showResult buf r)
  | ["finish"] => (st, s!"kind={showKind st.s.kind} pending={st.pending.length}")
  | _ => (st, "bad-op")

def main : IO Unit := runLoop (⟨init, false, []⟩ : St) step

end Jxl.Driver.C10
