import JxlModel.Driver.Common
import JxlModel.Model.Region
/-! Line protocol for the region arithmetic (C06 / geometric part of C05).
One op per line, all arguments decimal integers; the answer is `ok …` with the ideal result when
the model's `…Fits` predicate holds, `unfit` when the Rust computation would leave its machine
types (the harness then answers with a panic site or a wrapped value), `bad-op` otherwise. -/
namespace Jxl.Driver.C06
open Jxl.Region

def showR (r : Region) : String := s!"{r.left} {r.top} {r.width} {r.height}"
def showB (b : Bool) : String := if b then "1" else "0"

def mkR : List Int → Option (Region × List Int)
  | l :: t :: w :: h :: rest => if w < 0 ∨ h < 0 then none else some (⟨l, t, w.toNat, h.toNat⟩, rest)
  | _ => none

def res (fits : Bool) (s : String) : String := if fits then "ok " ++ s else "unfit"

def mkCfg : List Int → Option Cfg
  | imgW :: imgH :: o :: x0 :: y0 :: fw :: fh :: ft :: lf :: up :: epf :: gab :: ycbcr :: gss :: nec :: rest =>
    if imgW < 0 ∨ imgH < 0 ∨ o < 0 ∨ fw < 0 ∨ fh < 0 ∨ lf < 0 ∨ up < 0 ∨ epf < 0 ∨ gss < 0 ∨ nec < 0 then none
    else if rest.length ≠ 2 * nec.toNat then none
    else
      let rec pairs : List Int → List (Nat × Nat)
        | a :: b :: r => (a.toNat, b.toNat) :: pairs r
        | _ => []
      some { imgW := imgW.toNat, imgH := imgH.toNat, orientation := o.toNat, x0, y0,
             fw := fw.toNat, fh := fh.toNat, refOnly := ft == 2, normal := ft == 0 || ft == 3,
             lfLevel := lf.toNat, upsampling := up.toNat, ec := pairs rest, epfIters := epf.toNat,
             gab := gab != 0, ycbcr := ycbcr != 0, groupSizeShift := gss.toNat }
  | _ => none

def selectedGroups (c : Cfg) (mr : Region) : String :=
  if c.numGroups > 4096 then "toomany"
  else joinNat ((List.range c.numGroups).filter fun g => groupSelected c mr g)

def selectedLfGroups (c : Cfg) (lr : Region) : String :=
  if c.numLfGroups > 4096 then "toomany"
  else joinNat ((List.range c.numLfGroups).filter fun g => lfGroupSelected c lr g)

def step (c : Cfg) (ws : List String) : Cfg × String :=
  match ws with
  | [] => (c, "bad-op")
  | op :: args =>
    match intList args with
    | none => (c, "bad-op")
    | some a =>
      let out : Option (Cfg × String) :=
        match op with
        | "hdr" => do
          let c' ← mkCfg a
          pure (c', s!"ok v={showB c'.valid}")
        | "translate" => do
          let (r, rest) ← mkR a
          match rest with
          | [x, y] => pure (c, res (r.translateFits x y) (showR (r.translate x y)))
          | _ => none
        | "intersection" => do
          let (r, rest) ← mkR a
          let (s, _) ← mkR rest
          pure (c, res (r.intersectionFits s) (showR (r.intersection s)))
        | "merge" => do
          let (r, rest) ← mkR a
          let (s, _) ← mkR rest
          pure (c, res (r.mergeFits s) (showR (r.merge s)))
        | "contains" => do
          let (r, rest) ← mkR a
          let (s, _) ← mkR rest
          pure (c, res (r.containsFits s) (showB (r.contains s)))
        | "isempty" => do
          let (r, _) ← mkR a
          pure (c, res true (showB r.isEmpty))
        | "pad" => do
          let (r, rest) ← mkR a
          match rest with
          | [n] => if n < 0 then none else pure (c, res (r.padFits n.toNat) (showR (r.pad n.toNat)))
          | _ => none
        | "down" => do
          let (r, rest) ← mkR a
          match rest with
          | [k] => if k < 0 then none else pure (c, res (r.downsampleFits k.toNat) (showR (r.downsample k.toNat)))
          | _ => none
        | "downsep" => do
          let (r, rest) ← mkR a
          match rest with
          | [kx, ky] =>
            if kx < 0 ∨ ky < 0 then none
            else pure (c, res (r.downsampleSeparateFits kx.toNat ky.toNat) (showR (r.downsampleSeparate kx.toNat ky.toNat)))
          | _ => none
        | "up" => do
          let (r, rest) ← mkR a
          match rest with
          | [k] => if k < 0 then none else pure (c, res (r.upsampleFits k.toNat) (showR (r.upsample k.toNat)))
          | _ => none
        | "align" => do
          let (r, rest) ← mkR a
          match rest with
          | [g] => if g < 0 then none else pure (c, res (r.containerAlignedFits g.toNat) (showR (r.containerAligned g.toNat)))
          | _ => none
        | "orient" => do
          let (r, rest) ← mkR a
          match rest with
          | [w, h, o] =>
            if w < 0 ∨ h < 0 ∨ o < 1 ∨ o > 8 then none
            else pure (c, res (r.applyOrientationFits w.toNat h.toNat o.toNat) (showR (r.applyOrientation w.toNat h.toNat o.toNat)))
          | _ => none
        | "i2f" => do
          let (r, rest) ← mkR a
          match rest with
          | [ign] => pure (c, res (imageRegionToFrameFits c r (ign != 0)) (showR (imageRegionToFrame c r (ign != 0))))
          | _ => none
        | "padlf" => do
          let (r, _) ← mkR a
          pure (c, res (padLfRegionFits c r) (showR (padLfRegion c r)))
        | "padup" => do
          let (r, _) ← mkR a
          pure (c, res (padUpsamplingFits c r) (showR (padUpsampling c r)))
        | "padcolor" => do
          let (r, _) ← mkR a
          pure (c, res (padColorRegionFits c r) (showR (padColorRegion c r)))
        | "modreg" => do
          let (r, rest) ← mkR a
          match rest with
          | [force, isLf] =>
            pure (c, res (computeModularRegionFits c (force != 0) r (isLf != 0))
                         (showR (computeModularRegion c (force != 0) r (isLf != 0))))
          | _ => none
        | "groupcol" =>
          match a with
          | [g, x, y, w, h] =>
            if g < 0 ∨ x < 0 ∨ y < 0 ∨ w < 0 ∨ h < 0 then none
            else
              let r := (x.toNat, y.toNat, w.toNat, h.toNat)
              pure (c, res (groupCollidesFits c g.toNat r) (showB (groupCollides c g.toNat r)))
          | _ => none
        | "lfgroupcol" =>
          match a with
          | [g, x, y, w, h] =>
            if g < 0 ∨ x < 0 ∨ y < 0 ∨ w < 0 ∨ h < 0 then none
            else
              let r := (x.toNat, y.toNat, w.toNat, h.toNat)
              pure (c, res (lfGroupCollidesFits c g.toNat r) (showB (lfGroupCollides c g.toNat r)))
          | _ => none
        | "dims" =>
          pure (c, res c.dimsFit
            (joinNat [c.sampleWidth 1, c.sampleHeight 1, c.colorSampleWidth, c.colorSampleHeight,
                      c.groupDim, c.groupsPerRow, c.numGroups, c.lfGroupsPerRow, c.numLfGroups]))
        | "plumb" => do
          let (r, rest) ← mkR a
          match rest with
          | [force] =>
            let p := plumb c (force != 0) r
            pure (c, res (plumbFits c (force != 0) r)
              (" | ".intercalate [showR p.frameRegion, showR p.lfPadded, showR p.upValid,
                                  showR p.colorPadded, showR p.modularRegion, showR p.lfRegion]))
          | _ => none
        | "groups" => do
          let (r, rest) ← mkR a
          match rest with
          | [force] =>
            let p := plumb c (force != 0) r
            pure (c, res (plumbFits c (force != 0) r)
              (selectedGroups c p.modularRegion ++ " | " ++ selectedLfGroups c p.lfRegion))
          | _ => none
        | "compositeo" => do
          let (r, _) ← mkR a
          pure (c, res (compositeRegionFits c r) (showR (compositeRegion c r)))
        | "composite" => do
          let (r, _) ← mkR a
          let o := r.applyOrientation c.imgW c.imgH c.orientation
          pure (c, res (r.applyOrientationFits c.imgW c.imgH c.orientation && compositeRegionFits c o)
                       (showR (compositeRegion c o)))
        | "blend" =>
          match a with
          | x0 :: y0 :: fw :: fh :: rest => do
            if fw < 0 ∨ fh < 0 then none
            let (ng, rest) ← mkR rest
            let (out, rest) ← mkR rest
            match rest with
            | hb :: bx0 :: by0 :: rest => do
              let (bg, _) ← mkR rest
              let base := if hb != 0 then some (bx0, by0, bg) else none
              let g := blendGeom x0 y0 fw.toNat fh.toNat ng out base
              let hasBase := hb != 0 && !bg.isEmpty
              pure (c, res (blendGeomFits x0 y0 fw.toNat fh.toNat ng out base)
                (showR g.target ++ " | " ++ joinInt (blendCells ng g hasBase)))
            | _ => none
          | _ => none
        | "patch" => do
          let (bg, rest) ← mkR a
          let (rg, rest) ← mkR rest
          match rest with
          | [px0, py0, pw, ph, tx, ty] =>
            if px0 < 0 ∨ py0 < 0 ∨ pw < 0 ∨ ph < 0 then none
            else
              let g := patchGeom bg rg px0.toNat py0.toNat pw.toNat ph.toNat tx ty
              pure (c, res (patchGeomFits bg rg px0.toNat py0.toNat pw.toNat ph.toNat tx ty)
                (showR bg ++ " | " ++ joinInt (patchCells bg rg g)))
          | _ => none
        | _ => none
      match out with
      | some r => r
      | none => (c, "bad-op")

def main : IO Unit := runLoop (default : Cfg) step

end Jxl.Driver.C06
