import JxlModel.Driver.Common
import JxlModel.Model.Output
import JxlModel.Gen.Orientation
/-!
# Driver `c15`: what every output form of a keyframe must contain

```
spec O W H
    -> ok W' H' {ox oy}*(W*H)        where stored pixel (x, y), row-major, is displayed (specOrient)
conv BITS LO HI
    -> ok {f32bits u16 u8 ideal16 ideal8}*(HI-LO+1)     conversions of the integer samples LO..HI
predict O IW IH region full|L,T,W,H cmyk 0|1 spot 0|1 ncolor N chans K
        { i|f BITS TY [R G B S] W H data*(W*H) }*K  chunks M {W|R|a,b,c}*M
    -> the `K <orientation> IL .. PL .. ST ..` part of the harness answer (harness/src/bin/c15.rs)
```
`predict` uses the GENERATED maps (`from_grids` for the buffers, `to_original_coord` for the
streams, `apply_orientation` for the region), the cursor machine `writeToBuffer` and the
`Float32` conversions of `Model/Output.lean`; `spec` uses the hand-written `specOrient`.
-/
namespace Jxl.Driver.C15
open Jxl.Output Jxl.Gen.Orientation

structure Chan where
  isFloat : Bool
  bits : Nat
  ty : Nat            -- 100 = colour, otherwise the extra channel type code
  spot : Array Nat    -- r g b solidity (f32 bits) for ty = 2
  w : Nat
  h : Nat
  data : Array Int    -- integer samples, or f32 bit patterns when `isFloat`
  deriving Inhabited

inductive Spec where
  | whole
  | rows
  | list (l : List Nat)

abbrev P := StateT (List String) Option

def tok : P String := do
  match (← get) with
  | [] => failure
  | t :: r => set r; pure t

def nat : P Nat := do
  match (← tok).toNat? with
  | some n => pure n
  | none => failure

def int : P Int := do
  match (← tok).toInt? with
  | some n => pure n
  | none => failure

def kw (s : String) : P Unit := do
  if (← tok) == s then pure () else failure

def rep {α} (n : Nat) (p : P α) : P (List α) :=
  match n with
  | 0 => pure []
  | n + 1 => do
    let a ← p
    let r ← rep n p
    pure (a :: r)

def chan : P Chan := do
  let k ← tok
  let bits ← nat
  let t ← tok
  let ty := if t == "c" then 100 else t.toNat?.getD 99
  let spot ← if ty == 2 then rep 4 nat else pure []
  let w ← nat
  let h ← nat
  let d ← rep (w * h) int
  pure { isFloat := k == "f", bits, ty, spot := spot.toArray, w, h, data := d.toArray }

def spec : P Spec := do
  let t ← tok
  if t == "W" then pure .whole
  else if t == "R" then pure .rows
  else
    match (t.splitOn ",").mapM String.toNat? with
    | some l => if l.isEmpty || l.all (· == 0) then failure else pure (.list l)
    | none => failure

def region : P (Option Region) := do
  let t ← tok
  if t == "full" then pure none
  else
    match (t.splitOn ",").mapM String.toNat? with
    | some [l, t, w, h] => pure (some { left := l, top := t, width := w, height := h })
    | _ => failure

/-! ### sample access -/

/-- `grid.try_get_ref(x, y)` -/
def Chan.get? (c : Chan) (x y : Nat) : Option Int :=
  if x < c.w && y < c.h then c.data[x + y * c.w]? else none

def f32OfBits (b : Int) : Float32 := Float32.ofBits b.toNat.toUInt32
def f32OfBitsN (b : Nat) : Float32 := Float32.ofBits b.toUInt32

/-- `f32::copy_from_grid` (a missing sample reads as 0 / 0.0) -/
def Chan.f32At (c : Chan) (p : Option (Nat × Nat)) : Float32 :=
  let v := (p.bind fun (x, y) => c.get? x y).getD 0
  if c.isFloat then f32OfBits v else parseIntegerSample c.bits v

def Chan.u16At (c : Chan) (p : Option (Nat × Nat)) : Nat :=
  let v := (p.bind fun (x, y) => c.get? x y).getD 0
  if c.isFloat then f32ToU16 (f32OfBits v) else intToU16 c.bits v

def Chan.u8At (c : Chan) (p : Option (Nat × Nat)) : Nat :=
  let v := (p.bind fun (x, y) => c.get? x y).getD 0
  if c.isFloat then f32ToU8 (f32OfBits v) else intToU8 c.bits v

def bitsOf (f : Float32) : Nat := f.toBits.toNat

/-! ### buffers (`FrameBuffer::from_grids`) -/

/-- interleaved buffer of the given channels over the unoriented copy region `u`; every grid
covers the whole image (`gridRegion`) -/
def fromGrids (o : Nat) (u : Region) (chans : Array Chan) : Nat × Nat × Array Nat := Id.run do
  let n := chans.size
  let (outw, outh) := fromGridsDims o u.width u.height
  let mut buf : Array Nat := Array.replicate (outw * outh * n) 0
  for y in [0:u.height] do
    for x in [0:u.width] do
      for c in [0:n] do
        let ch := chans[c]!
        let (ox, oy) := fromGridsMap o u.width u.height x y
        let idx := interleavedIdx outw n ox oy c
        let g : Region := { left := 0, top := 0, width := ch.w, height := ch.h }
        let v := match gridPos u.left u.top g x y with
          | none => 0
          | some p => bitsOf (ch.f32At (some p))
        buf := buf.setIfInBounds idx v
  return (outw, outh, buf)

/-! ### streams (`ImageStream`) -/

structure StreamOut where
  w : Nat
  h : Nat
  ch : Nat
  counts : List Nat
  data : Array Nat

/-- sizes of the calls the harness makes for a chunk spec, decided call by call -/
def nextSize (sp : Spec) (W C total k : Nat) : Nat :=
  match sp with
  | .whole => total + 5
  | .rows => max (W * C) 1
  | .list l => l.getD (k % l.length) 0

/-- run the cursor machine under the harness' calling protocol: call until a non-empty buffer is
not filled, then once more with 2 slots -/
partial def runCalls (sp : Spec) (W H C : Nat) (k : Nat) (cur : Cursor) (counts : List Nat)
    (acc : Array (Nat × Nat × Nat)) : List Nat × Array (Nat × Nat × Nat) :=
  let total := W * H * C
  let size := nextSize sp W C total k
  let (l, cur') := writeToBuffer W H C size cur
  let n := l.length
  let counts := counts ++ [n]
  let acc := acc ++ l.toArray
  if (size > 0 && n < size) || (counts.filter (· > 0)).length ≥ total + 24 || counts.length ≥ 8 * total + 64 then
    let (l2, _) := writeToBuffer W H C 2 cur'
    (counts ++ [l2.length], acc ++ l2.toArray)
  else runCalls sp W H C (k + 1) cur' counts acc

def stream (o : Nat) (u : Region) (all : Array Chan) (nColor : Nat) (cmyk spot skipAlpha : Bool)
    (ty : Char) (sp : Spec) : StreamOut :=
  let ecTypes := (all.toList.drop nColor).map (·.ty)
  let idxs := streamChannels nColor ecTypes cmyk skipAlpha
  let chans := idxs.toArray.map fun i => all[i]!
  let (W, H) := if streamSwapsDims o then (u.height, u.width) else (u.width, u.height)
  let C := chans.size
  let spots : Array Chan :=
    if spot && nColor == 3 then (all.toList.drop nColor).toArray.filter (·.ty == 2) else #[]
  let (counts, coords) := runCalls sp W H C 0 ⟨0, 0, 0⟩ [] #[]
  let pos (ch : Chan) (ox oy : Nat) : Option (Nat × Nat) :=
    -- start_offset = (left - region.left, top - region.top) with every grid at (0, 0)
    match checkedAddSigned ox u.left, checkedAddSigned oy u.top with
    | some x, some y => some (x, y)
    | _, _ => none
  let data := coords.map fun (y, x, c) =>
    let ch := chans[c]!
    let (ox, oy) := toOriginalCoord o W H x y
    let p := pos ch ox oy
    -- `checked_add_signed` failing writes `Sample::default()`
    if p.isNone then 0
    else if c ≥ 3 || spots.isEmpty then
      match ty with
      | 'f' => bitsOf (ch.f32At p)
      | 'h' => ch.u16At p
      | _ => ch.u8At p
    else
      let base := ch.f32At p
      let mixed := mixSpot base (spots.toList.map fun s =>
        (f32OfBitsN (s.spot[c]!),
         (if (pos s ox oy).isSome then s.f32At (pos s ox oy) * f32OfBitsN (s.spot[3]!) else 0.0)))
      match ty with
      | 'f' => bitsOf mixed
      | 'h' => f32ToU16 mixed
      | _ => f32ToU8 mixed
  { w := W, h := H, ch := C, counts, data }

/-! ### operations -/

def joinN (a : Array Nat) : String := " ".intercalate (a.toList.map toString)

def predict : P String := do
  let o ← nat
  let iw ← nat
  let ih ← nat
  kw "region"
  let req ← region
  kw "cmyk"
  let cmyk ← nat
  kw "spot"
  let spot ← nat
  kw "ncolor"
  let nColor ← nat
  kw "chans"
  let k ← nat
  let chans ← rep k chan
  kw "chunks"
  let m ← nat
  let specs ← rep m spec
  if !(1 ≤ o && o ≤ 8) || nColor > k then failure
  let chans := chans.toArray
  -- `Region::with_size(width_with_orientation, height_with_orientation)` unless a crop was set
  let (W', H') := applyOrientationDims o iw ih
  let r : Region := req.getD { left := 0, top := 0, width := W', height := H' }
  -- `image_region.apply_orientation(&image_header)`, frame at (0, 0)
  let u := regionApplyOrientation (fun l t => applyOrientationPt o W' H' l t true) (applyOrientationDims o) r
  let mut out : Array String := #[s!"K {o}"]
  let (w, h, buf) := fromGrids o u chans
  out := out.push s!"IL {w} {h} {chans.size} {joinN buf}"
  out := out.push s!"PL {chans.size}"
  for c in chans do
    let (w, h, buf) := fromGrids o u #[c]
    out := out.push s!"{w} {h} 1 {joinN buf}"
  for alpha in [true, false] do
    for ty in ['f', 'h', 'b'] do
      let mut si := 0
      for sp in specs do
        let s := stream o u chans nColor (cmyk != 0) (spot != 0) (!alpha) ty sp
        out := out.push (s!"ST {if alpha then 1 else 0} {ty} {si} {s.w} {s.h} {s.ch} {s.counts.length} " ++
          " ".intercalate (s.counts.map toString) ++ s!" 0 {s.data.size} {joinN s.data}")
        si := si + 1
  -- records with an empty payload end in a space: normalise
  pure (" ".intercalate ((" ".intercalate out.toList).splitOn " " |>.filter (· ≠ "")))

def run (ws : List String) : String :=
  match ws with
  | ["spec", o, w, h] =>
    match o.toNat?, w.toNat?, h.toNat? with
    | some o, some w, some h =>
      if !(1 ≤ o && o ≤ 8) then "bad-op" else
      let (W', H') := specDims o w h
      let pts := (List.range (w * h)).map fun k =>
        let p := specOrient o w h (k % w, k / w)
        s!"{p.1} {p.2}"
      s!"ok {W'} {H'} " ++ " ".intercalate pts
    | _, _, _ => "bad-op"
  | ["conv", b, lo, hi] =>
    match b.toNat?, lo.toInt?, hi.toInt? with
    | some b, some lo, some hi =>
      let n := (hi - lo + 1).toNat
      let vals := (List.range n).map fun (k : Nat) =>
        let s : Int := lo + (k : Int)
        s!"{bitsOf (parseIntegerSample b s)} {intToU16 b s} {intToU8 b s} {idealRound b 65535 s} {idealRound b 255 s}"
      "ok " ++ " ".intercalate vals
    | _, _, _ => "bad-op"
  | "predict" :: rest =>
    match predict.run rest with
    | some (s, []) => "ok " ++ s
    | _ => "bad-op"
  | _ => "bad-op"

def main : IO Unit := runLoop () fun _ ws => ((), run ws)

end Jxl.Driver.C15
