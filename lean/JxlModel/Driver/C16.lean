import JxlModel.Driver.Common
import JxlModel.Model.Dct
import JxlModel.Model.DctSmall
/-!
C16 driver. Same lines as `harness/src/bin/c16.rs`. Two modes:
* `jxlmodel c16`      — the **definition** in binary64 (cosine sums; LLF by the forward cosine sum)
* `jxlmodel c16 alg`  — the **algorithm model** (`Jxl.Dct.idct`/`dct2d`/`llfFromLf`, the object of the
  theorems) executed at binary64; DCT family only, `na` otherwise.
Floats in: f32 bit patterns (8 hex digits). Floats out: f64 bit patterns (16 hex digits).
-/
namespace Jxl.Driver.C16
open Jxl.Dct

/-- id ↦ (name, kind, bw, bh); kind 0 = DCT family, 1 = Dct2, 2 = Dct4, 3 = Hornuss,
4 = Dct4x8, 5 = Dct8x4, 6+n = AFVn. `(bw, bh)` as `TransformType::dct_select_size`. -/
def types : Array (String × Nat × Nat × Nat) := #[
  ("Dct8", 0, 1, 1), ("Hornuss", 3, 1, 1), ("Dct2", 1, 1, 1), ("Dct4", 2, 1, 1),
  ("Dct16", 0, 2, 2), ("Dct32", 0, 4, 4), ("Dct16x8", 0, 1, 2), ("Dct8x16", 0, 2, 1),
  ("Dct32x8", 0, 1, 4), ("Dct8x32", 0, 4, 1), ("Dct32x16", 0, 2, 4), ("Dct16x32", 0, 4, 2),
  ("Dct4x8", 4, 1, 1), ("Dct8x4", 5, 1, 1), ("Afv0", 6, 1, 1), ("Afv1", 7, 1, 1),
  ("Afv2", 8, 1, 1), ("Afv3", 9, 1, 1), ("Dct64", 0, 8, 8), ("Dct64x32", 0, 4, 8),
  ("Dct32x64", 0, 8, 4), ("Dct128", 0, 16, 16), ("Dct128x64", 0, 8, 16),
  ("Dct64x128", 0, 16, 8), ("Dct256", 0, 32, 32), ("Dct256x128", 0, 16, 32),
  ("Dct128x256", 0, 32, 16)]

def nib (c : UInt8) : Option UInt32 :=
  if 48 ≤ c ∧ c ≤ 57 then some (c - 48).toUInt32
  else if 97 ≤ c ∧ c ≤ 102 then some (c - 87).toUInt32
  else none

def f32At (b : ByteArray) (pos : Nat) : Option Float := do
  let mut v : UInt32 := 0
  for k in [0:8] do
    let d ← nib (b.get! (pos + k))
    v := v * 16 + d
  return (Float32.ofBits v).toFloat

def hexWord (s : String) : Option Float :=
  let b := s.toUTF8
  if b.size = 0 ∨ b.size > 8 then none
  else do
    let mut v : UInt32 := 0
    for k in [0:b.size] do
      let d ← nib (b.get! k)
      v := v * 16 + d
    return (Float32.ofBits v).toFloat

/-- dense hex or sparse `sIDX=BITS,…` -/
def parseBlock (s : String) (n : Nat) : Option (Array Float) :=
  if s.startsWith "s" then
    let rest := (s.drop 1).toString
    if rest.isEmpty then some (Array.replicate n 0.0)
    else
      (rest.splitOn ",").foldlM (init := Array.replicate n 0.0) fun acc kv =>
        match kv.splitOn "=" with
        | [k, b] => do
          let k ← k.toNat?
          let v ← hexWord b
          if k < n then some (acc.set! k v) else none
        | _ => none
  else
    let b := s.toUTF8
    if b.size ≠ n * 8 then none
    else (List.range n).foldlM (init := Array.mkEmpty n) fun acc i => do
      let v ← f32At b (i * 8)
      return acc.push v

def hexDigit (n : UInt64) : Char :=
  let n := n.toNat
  if n < 10 then Char.ofNat (48 + n) else Char.ofNat (87 + n)

def hex64 (s : String) (x : Float) : String := Id.run do
  let b := x.toBits
  let mut s := s
  for k in [0:16] do
    s := s.push (hexDigit ((b >>> (60 - 4 * k).toUInt64) &&& 15))
  return s

def showArr (a : Array Float) : String := a.foldl hex64 "ok "

/-! ### The 1-D definition with zero terms skipped (identical value: a zero coefficient adds `±0`) -/

def idctDefFast (N : Nat) (v : Array Float) : Array Float :=
  let nz : Array (Nat × Float) := (Array.range N).filterMap fun n =>
    let c := v.getD n 0.0
    if n ≥ 1 ∧ c != 0.0 then some (n, c) else none
  let c0 := v.getD 0 0.0
  Array.ofFn (n := N) fun j =>
    c0 + Scalar.sqrt2 * nz.foldl
      (fun acc (n, c) => acc + c * Scalar.cosPi (n * (2 * j.val + 1)) (2 * N)) 0.0

def allZero (v : Array Float) : Bool := v.all (· == 0.0)

/-- `idct2dDef` (rows, then columns) with all-zero rows/columns and zero terms skipped -/
def idct2dDefFast (g : Grid Float) : Grid Float :=
  let rows : Array (Array Float) := Array.ofFn (n := g.h) fun y =>
    let r := g.row y.val
    if allZero r then r else idctDefFast g.w r
  let cols : Array (Array Float) := Array.ofFn (n := g.w) fun x =>
    let c : Array Float := Array.ofFn (n := g.h) fun y => (rows.getD y.val #[]).getD x.val 0.0
    if allZero c then c else idctDefFast g.h c
  Grid.tab g.w g.h fun x y => (cols.getD x #[]).getD y 0.0

/-- definition of a DCT-family varblock: LLF by definition, then the 2-D inverse by definition -/
def vbDefDct (lf coeff : Grid Float) : Grid Float :=
  let llf := if lf.w * lf.h = 1 then lf else llfDef lf
  idct2dDefFast (Grid.tab coeff.w coeff.h fun x y =>
    if x < lf.w ∧ y < lf.h then llf.rd x y else coeff.rd x y)

def vbDef (kind : Nat) (lf coeff : Grid Float) : Grid Float :=
  let g : Grid Float := Grid.tab 8 8 fun x y => if x = 0 ∧ y = 0 then lf.rd 0 0 else coeff.rd x y
  match kind with
  | 0 => vbDefDct lf coeff
  | 1 => Small.dct2 g
  | 2 => Small.dct4 g
  | 3 => Small.hornuss g
  | 4 => Small.dct4x8 false g
  | 5 => Small.dct4x8 true g
  | k => Small.afv (k - 6) g

def trDef (kind : Nat) (coeff : Grid Float) : Grid Float :=
  match kind with
  | 0 => idct2dDefFast coeff
  | 1 => Small.dct2 coeff
  | 2 => Small.dct4 coeff
  | 3 => Small.hornuss coeff
  | 4 => Small.dct4x8 false coeff
  | 5 => Small.dct4x8 true coeff
  | k => Small.afv (k - 6) coeff

def isPow2 (n : Nat) : Bool := n ≥ 1 ∧ 2 ^ Nat.log2 n = n

def step (alg : Bool) (_ : Unit) (ws : List String) : Unit × String :=
  let r : Option String :=
    match ws with
    | ["info"] => some "ok model"
    | ["types"] =>
      some ("ok " ++ " ".intercalate (types.toList.map fun (n, _, bw, bh) => s!"{n}:{bw}:{bh}"))
    | ["vb", ty, _, _, _, lf, coeff] => do
      let (_, kind, bw, bh) ← types[(← ty.toNat?)]?
      let lf ← parseBlock lf (bw * bh)
      let coeff ← parseBlock coeff (64 * bw * bh)
      let lf : Grid Float := ⟨bw, bh, lf⟩
      let coeff : Grid Float := ⟨8 * bw, 8 * bh, coeff⟩
      if alg then
        if kind = 0 then some (showArr (varblockDct lf coeff).d) else some "na"
      else some (showArr (vbDef kind lf coeff).d)
    | ["tr", ty, _, _, _, coeff] => do
      let (_, kind, bw, bh) ← types[(← ty.toNat?)]?
      let coeff ← parseBlock coeff (64 * bw * bh)
      let coeff : Grid Float := ⟨8 * bw, 8 * bh, coeff⟩
      if alg then
        if kind = 0 then some (showArr (dct2d .inverse coeff).d) else some "na"
      else some (showArr (trDef kind coeff).d)
    | ["dct", w, h, dir, _, _, _, data] => do
      let w ← w.toNat?
      let h ← h.toNat?
      if ¬ (isPow2 w ∧ isPow2 h ∧ w ≤ 256 ∧ h ≤ 256) then none
      else
        let data ← parseBlock data (w * h)
        let g : Grid Float := ⟨w, h, data⟩
        match dir with
        | "i" => some (showArr (if alg then dct2d .inverse g else idct2dDefFast g).d)
        | "f" => some (showArr (if alg then dct2d .forward g else fdct2dDef g).d)
        | _ => none
    | ["sec", n] => do
      let n ← n.toNat?
      if ¬ (isPow2 n ∧ 4 ≤ n ∧ n ≤ 256) then none
      else some (showArr (Dct.tab (n / 2) fun i => secHalf (α := Float) n i))
    | ["scalef", c, logb] => do
      let c ← c.toNat?
      let logb ← logb.toNat?
      if logb > 5 ∨ c * 2 ^ logb ≥ 32 then none
      else some (showArr #[scaleF (α := Float) (c * 2 ^ logb) 256])
    | ["afv"] => some (showArr (Small.afvBasis.foldl (· ++ ·) #[]))
    /- self-test of the driver's shortcuts: the skipping evaluators against the plain polymorphic
       definition, exact equality (`==`, so `-0 = +0`) -/
    | ["selftest", w, h, data] => do
      let w ← w.toNat?
      let h ← h.toNat?
      let data ← parseBlock data (w * h)
      let g : Grid Float := ⟨w, h, data⟩
      let a := (idct2dDefFast g).d
      let b := (idct2dDef g).d
      some (if a.size = b.size ∧ (a.zip b).all (fun (x, y) => x == y) then "ok same" else "ok differ")
    | _ => none
  ((), r.getD "bad-op")

def main (alg : Bool) : IO Unit := runLoop () (step alg)

end Jxl.Driver.C16
