import JxlModel.Gen.TransformType
import JxlModel.Driver.Common
import JxlModel.Model.Subgrid
import JxlModel.Model.Unchecked
/-! Line protocol for C02: predicts, for every operation of `harness/src/bin/c02.rs`, the result
word (incl. the panic site), the live sub-grids, and the complete ownership map of the buffer after
a unique tag has been written through every live sub-grid. -/
namespace Jxl.Driver.C02
open Jxl.Subgrid

def siteName : Site → String
  | .newWidthStride => "new-width-stride"
  | .fromBufWidthStride => "frombuf-width-stride"
  | .fromBufEmptyLen => "frombuf-empty-len"
  | .fromBufLen => "frombuf-len"
  | .arith => "arith"
  | .subgridLeftRight => "subgrid-left-right"
  | .subgridTopBottom => "subgrid-top-bottom"
  | .subgridRight => "subgrid-right"
  | .subgridBottom => "subgrid-bottom"
  | .splitX => "split-x"
  | .splitY => "split-y"
  | .mergeNoBase => "merge-no-base"
  | .mergeBase => "merge-base"
  | .mergeStride => "merge-stride"
  | .mergeHeight => "merge-height"
  | .mergeWidth => "merge-width"
  | .mergeStrideSum => "merge-stride-sum"
  | .mergeAdjacent => "merge-adjacent"
  | .groupsZero => "groups-zero"
  | .coord => "coord"
  | .row => "row"

structure St where
  mode : Mode
  buf : Array Nat
  cursor : Nat
  live : Array (Option SubGrid)
  step : Nat
  bs : Option Jxl.Unchecked.Bs
  /-- set when the model itself would touch an element outside the buffer (never expected) -/
  oob : Bool

def init (m : Mode) : St := ⟨m, #[], 0, #[], 0, none, false⟩

def rle (a : Array Nat) : String :=
  if a.size = 0 then "-" else
    let (acc, cur, n) := a.foldl (init := (([] : List String), 0, 0)) fun (acc, cur, n) x =>
      if n = 0 then (acc, x, 1)
      else if x = cur then (acc, cur, n + 1)
      else (s!"{cur}*{n}" :: acc, x, 1)
    ",".intercalate ((s!"{cur}*{n}" :: acc).reverse)

def tagOf (step k : Nat) : Nat := (step * 4096 + k) % 2 ^ 32

/-- write `tag` to every cell; second component: some cell was outside the buffer -/
def paint (buf : Array Nat) (g : SubGrid) (tag : Nat) : Array Nat × Bool :=
  (cells g).foldl (init := (buf, false)) fun (b, bad) i =>
    if i < b.size then (b.set! i tag, bad) else (b, true)

/-- first cell (row-major) not holding `tag`: `(x, y, value)` -/
def verify (buf : Array Nat) (g : SubGrid) (tag : Nat) : Option (Nat × Nat × Nat) :=
  (List.range g.h).findSome? fun y => (List.range g.w).findSome? fun x =>
    let v := buf.getD (index g x y) 0
    if v ≠ tag then some (x, y, v) else none

def pN (s : String) : Option Nat := s.toNat?.filter (· < W)

def pBound (s : String) : Option Bound :=
  if s = "u" then some .unb
  else
    match s.toList with
    | 'i' :: r => (pN (String.ofList r)).map .incl
    | 'e' :: r => (pN (String.ofList r)).map .excl
    | _ => none

def liveGet (st : St) (id : Nat) : Option SubGrid := (st.live.getD id none)

def liveSet (st : St) (id : Nat) (g : Option SubGrid) : St :=
  { st with live := st.live.setIfInBounds id g }

def dims (st : St) : String :=
  let l := (st.live.toList.zipIdx).filterMap fun (g, id) =>
    g.map fun g => s!"{id}:{g.w}x{g.h}"
  if l.isEmpty then "-" else ",".intercalate l

/-- tag every live grid in id order, re-read every live grid, append dims and snapshot -/
def finish (st : St) (res : String) : St × String :=
  let (buf, oob) := (st.live.toList.zipIdx).foldl (init := (st.buf, st.oob)) fun (b, bad) (g, id) =>
    match g with
    | some g => let (b', bad') := paint b g (tagOf st.step (id + 1)); (b', bad || bad')
    | none => (b, bad)
  let overlap := (st.live.toList.zipIdx).findSome? fun (g, id) =>
    match g with
    | some g => (verify buf g (tagOf st.step (id + 1))).map fun (x, y, v) =>
        s!" OVERLAP id={id} x={x} y={y} holds={v}"
    | none => none
  let st := { st with buf := buf, oob := oob }
  (st, s!"{res}{overlap.getD ""}{if oob then " MODEL-OOB" else ""} | {dims st} | {rle buf}")

def showOutcome {α} (o : Outcome α) (f : α → String) : String :=
  match o with
  | .ok a => f a
  | .panic s => s!"panic {siteName s}"

def pushAll (st : St) (gs : List SubGrid) : St :=
  { st with live := st.live ++ (gs.map some).toArray }

def gridOp (st0 : St) (ws : List String) : Option (St × String) :=
  let st := { st0 with step := st0.step + 1 }
  let step := st.step
  match ws with
  | ["from", gap, len, w, h, stride] => do
    let gap ← pN gap; let len ← pN len; let w ← pN w; let h ← pN h; let stride ← pN stride
    let start := st.cursor + gap
    if start + len > st.buf.size then none else
    let st := { st with cursor := start + len }
    match fromBuf st.mode start len w h stride with
    | .ok g => some (finish (pushAll st [g]) s!"ok new={st.live.size}")
    | .panic s => some (finish st s!"panic {siteName s}")
  | ["fromprobe", len, w, h, stride] => do
    let len ← pN len; let w ← pN w; let h ← pN h; let stride ← pN stride
    if len > st.buf.size then none else
    some (finish st (showOutcome (fromBuf st.mode 0 len w h stride)
      fun g => s!"ok accepted {g.w}x{g.h}"))
  | ["sub", id, xs, xe, ys, ye] => do
    let id ← pN id; let xs ← pBound xs; let xe ← pBound xe; let ys ← pBound ys; let ye ← pBound ye
    let g ← liveGet st id
    let st := liveSet st id none
    match subgrid st.mode g xs xe ys ye with
    | .ok g => some (finish (pushAll st [g]) s!"ok new={st.live.size}")
    | .panic s => some (finish st s!"panic {siteName s}")
  | [op, id, at_] =>
    if op = "splith" ∨ op = "splitv" then do
      let id ← pN id; let at_ ← pN at_
      let g ← liveGet st id
      match (if op = "splith" then splitHInPlace g at_ else splitVInPlace g at_) with
      | .ok (g', r) => some (finish (pushAll (liveSet st id (some g')) [r]) s!"ok new={st.live.size}")
      | .panic s => some (finish st s!"panic {siteName s}")
    else if op = "ssplith" ∨ op = "ssplitv" then do
      let id ← pN id; let at_ ← pN at_
      let g ← liveGet st id
      let horizontal := op = "ssplith"
      match (if horizontal then splitH g at_ else splitV g at_) with
      | .panic s => some (finish st s!"panic {siteName s}")
      | .ok (a, b) =>
        let (buf, o1) := paint st.buf a (tagOf step 4001)
        let (buf, o2) := paint buf b (tagOf step 4002)
        let bad := (verify buf a (tagOf step 4001)).isSome || (verify buf b (tagOf step 4002)).isSome
        let st := { st with buf := buf, oob := st.oob || o1 || o2 }
        match (if horizontal then mergeH a b else mergeV a b) with
        | .panic s => some (finish st s!"panic {siteName s}")
        | .ok m =>
          some (finish st (s!"ok a={a.w}x{a.h} b={b.w}x{b.h} m={m.w}x{m.h}" ++
            (if bad then " OVERLAP children" else "") ++ s!" in-scope={rle buf}"))
    else if op = "mergeh" ∨ op = "mergev" then do
      let a ← pN id; let b ← pN at_
      if a = b then none else
      let ga ← liveGet st a
      let gb ← liveGet st b
      let st := liveSet st b none
      match (if op = "mergeh" then mergeH ga gb else mergeV ga gb) with
      | .ok m => some (finish (liveSet st a (some m)) "ok")
      | .panic s => some (finish st s!"panic {siteName s}")
    else if op = "row" then do
      let id ← pN id; let y ← pN at_
      let g ← liveGet st id
      match getRow g y with
      | .panic s => some (finish st s!"panic {siteName s}")
      | .ok (start, len) =>
        let (buf, o) := (List.range len).foldl (init := (st.buf, false)) fun (b, bad) k =>
          if start + k < b.size then (b.set! (start + k) (tagOf step 4005), bad) else (b, true)
        let st := { st with buf := buf, oob := st.oob || o }
        some (finish st s!"ok len={len} in-scope={rle buf}")
    else none
  | ["groups", id, gw, gh] => do
    let id ← pN id; let gw ← pN gw; let gh ← pN gh
    let g ← liveGet st id
    let st := liveSet st id none
    match intoGroups st.mode g gw gh with
    | .ok gs => some (finish (pushAll st gs) s!"ok new={st.live.size}+{gs.length}")
    | .panic s => some (finish st s!"panic {siteName s}")
  | ["groupsf", id, gw, gh, nc, nr] => do
    let id ← pN id; let gw ← pN gw; let gh ← pN gh; let nc ← pN nc; let nr ← pN nr
    if nc * nr > 4096 then none else
    let g ← liveGet st id
    let st := liveSet st id none
    match intoGroupsFixed st.mode g gw gh nc nr with
    | .ok gs => some (finish (pushAll st gs) s!"ok new={st.live.size}+{gs.length}")
    | .panic s => some (finish st s!"panic {siteName s}")
  | ["borrow", id] => do
    let id ← pN id
    let g ← liveGet st id
    match borrowMut g with
    | .panic s => some (finish st s!"panic {siteName s}")
    | .ok b =>
      let (buf, o) := paint st.buf b (tagOf step 4003)
      let bad := (verify buf (asShared b) (tagOf step 4003)).isSome
      let st := { st with buf := buf, oob := st.oob || o }
      some (finish st (s!"ok b={b.w}x{b.h}" ++ (if bad then " OVERLAP borrow" else "") ++
        s!" in-scope={rle buf}"))
  | ["get", id, x, y] => do
    let id ← pN id; let x ← pN x; let y ← pN y
    let g ← liveGet st id
    match get g x y with
    | .panic s => some (finish st s!"panic {siteName s}")
    | .ok i =>
      if i < st.buf.size then some (finish st s!"ok {st.buf.getD i 0}")
      else some (finish { st with oob := true } "ok ?")
  | ["set", id, x, y] => do
    let id ← pN id; let x ← pN x; let y ← pN y
    let g ← liveGet st id
    match get g x y with
    | .panic s => some (finish st s!"panic {siteName s}")
    | .ok i =>
      if i < st.buf.size then
        let buf := st.buf.set! i (tagOf step 4004)
        some (finish { st with buf := buf } s!"ok in-scope={rle buf}")
      else some (finish { st with oob := true } "ok ?")
  | ["swap", id, ax, ay, bx, by_] => do
    let id ← pN id; let ax ← pN ax; let ay ← pN ay; let bx ← pN bx; let by_ ← pN by_
    let g ← liveGet st id
    match get g ax ay, get g bx by_ with
    | .panic s, _ => some (finish st s!"panic {siteName s}")
    | _, .panic s => some (finish st s!"panic {siteName s}")
    | .ok i, .ok j =>
      if i < st.buf.size ∧ j < st.buf.size then
        let vi := st.buf.getD i 0
        let vj := st.buf.getD j 0
        let buf := (st.buf.set! i vj).set! j vi
        some (finish { st with buf := buf } s!"ok in-scope={rle buf}")
      else some (finish { st with oob := true } "ok ?")
  | ["drop", id] => do
    let id ← pN id
    let _ ← liveGet st id
    some (finish (liveSet st id none) "ok")
  | _ => none

open Jxl.Unchecked in
def bsShow (r : String) (b : Bs) : String := s!"{r} left={b.len} rem={b.rem} read={b.nread}"

open Jxl.Unchecked in
def bsOp (st : St) (ws : List String) : Option (St × String) :=
  match ws with
  | ["new", hex] =>
    let n := if hex = "-" then 0 else hex.length / 2
    some ({ st with bs := some (bsNew n) }, bsShow "ok" (bsNew n))
  | ["pad"] => do
    let b ← st.bs
    let (b', e, _) := Jxl.Unchecked.step b .pad
    some ({ st with bs := some b' }, bsShow (if e then "eof" else "ok") b')
  | [op, n] => do
    let n ← pN n
    let b ← st.bs
    let o : Option BsOp :=
      if op = "read" ∧ n ≤ 32 then some (.read n)
      else if op = "peek" ∧ n ≤ 32 then some (.peek n)
      else if op = "consume" then some (.consume n)
      else if op = "skip" then some (.skip n)
      else none
    let o ← o
    let (b', e, _) := Jxl.Unchecked.step b o
    some ({ st with bs := some b' }, bsShow (if e then "eof" else "ok") b')
  | _ => none

open Jxl.Unchecked in
def planOp (ws : List String) : Option String :=
  match ws with
  | [k, w, h] => do
    let k ← (if k = "avx2" then some Kernel.avx2 else if k = "sse41" then some Kernel.sse41 else none)
    let w ← pN w; let h ← pN h
    let p := plan k w h
    let mx := p.foldl (fun m a => max m (a.offset + a.lanes)) 0
    let rows := p.foldl (fun m a => max m (a.row + 1)) 0
    let sc := if w ≤ k.minWidth then true else scratchOk w (scratchPlan k w) []
    some s!"n={p.length} max-extent={mx} rows={rows} scratch={if sc then "ok" else "bad"}"
  | _ => none

def step (st : St) (ws : List String) : St × String :=
  let r : Option (St × String) :=
    match ws with
    | ["buf", n] =>
      match pN n with
      | some n =>
        if n ≤ 2 ^ 20 then
          let st := { st with buf := Array.replicate n 0, cursor := 0, live := #[], step := 0 }
          some (st, s!"ok | - | {rle st.buf}")
        else none
      | none => none
    | "bs" :: rest => bsOp st rest
    | "plan" :: rest => (planOp rest).map fun s => (st, s)
    | ["ttype"] =>
      let acc := (List.range 256).filter fun v => Jxl.Gen.TransformType.accepts v
      some (st, s!"ttype variants={Jxl.Gen.TransformType.numVariants} accepted=" ++ ",".intercalate (acc.map toString))
    | _ =>
      -- the harness counts the step even for a malformed grid op
      match gridOp st ws with
      | some r => some r
      | none => some ({ st with step := st.step + 1 }, "bad-op")
  match r with
  | some r => r
  | none => (st, "bad-op")

def main (m : Mode) : IO Unit := runLoop (init m) step

end Jxl.Driver.C02
