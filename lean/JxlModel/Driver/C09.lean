import JxlModel.Driver.C10
import JxlModel.Model.Feed
import JxlModel.Gen.EofChain
/-! Line protocol for C09 / C11 (same as `harness/src/bin/c09.rs`).

`script lay:<layout> <op> ...` → answers joined with ` | `:
* `lay:<head>/<hdr>:<last>:<kf>:<s1>,<s2>../..`  the structure of the codestream for the
  layout-driven parsers (`Layout.parsers`): bytes before the first frame, then per frame the bytes
  of header + TOC, `is_last`, `is_keyframe`, section sizes in bitstream order (answers `ok`)
* `push:<hex>`  one round of the calling protocol (`Sess.push`):
  `consumed=<n> st=<uninit|ready|dead> [frames= kf= offs= done=]`
* `loading`     not modelled at this level: `-`
* `finish`      `fin st=.. frames= kf= offs= done= left=<bytes to re-offer> cleft=<codestream bytes
  left over> secs=<bytes received per section, frame by frame>`
* `read:<hex>`  `readAll`: the same report, plus `unread=<n> eof=<0|1>`

`c11` component: `eof <dotted path>` → `true` / `false` / `unknown`: the generated
`unexpected_eof` chain on the error value named by the path. -/
namespace Jxl.Driver.C09
open Jxl.Feed Jxl.Container
open Jxl.Driver.C10 (hex unhex)

def parseFrame (s : String) : Option FrameLayout :=
  match s.splitOn ":" with
  | [h, l, k, sz] =>
    match h.toNat?, l.toNat?, k.toNat? with
    | some h, some l, some k =>
      let sizes := if sz = "" || sz = "-" then some [] else (sz.splitOn ",").mapM String.toNat?
      sizes.map fun sizes => ⟨h, ⟨sizes, l != 0, k != 0, 0⟩⟩
    | _, _, _ => none
  | _ => none

def parseLayout (s : String) : Option Layout :=
  match s.splitOn "/" with
  | [] => none
  | h :: fs =>
    match h.toNat?, fs.mapM parseFrame with
    | some h, some fs => some ⟨h, none, fs⟩
    | _, _ => none

structure St where
  lay : Layout
  sess : Sess Unit

def showState (S : Sess Unit) : String :=
  match S.dec with
  | .dead => "st=dead"
  | .uninit _ => "st=uninit"
  | .ready i =>
    let offs := if i.frameOffsets.isEmpty then "-" else ",".intercalate (i.frameOffsets.map toString)
    s!"st=ready frames={i.frames.length} kf={i.numKeyframes} offs={offs} done={if i.endOfImage then 1 else 0}"

def showSecs (i : Inner Unit) : String :=
  let fs := i.frames.map (·.sections) ++ (match i.loading with | some f => [f.sections] | none => [])
  if fs.isEmpty then "-"
  else ",".intercalate (fs.map fun ss => "+".intercalate (ss.map fun b => toString b.length))

def showFinish (S : Sess Unit) : String :=
  match S.dec with
  | .dead => "fin st=dead"
  | .uninit u => s!"fin st=uninit left={S.pending.length} buffered={u.length}"
  | .ready i => s!"fin {showState S} left={S.pending.length} cleft={i.buffer.length} secs={showSecs i}"

/-- `name:arg` split at the first colon -/
def splitOp (o : String) : List String :=
  match o.splitOn ":" with
  | [] => []
  | [n] => [n]
  | n :: rest => [n, ":".intercalate rest]

def op (st : St) (o : String) : St × String :=
  match splitOp o with
  | ["lay", l] =>
    match parseLayout l with
    | some lay => (⟨lay, Sess.init⟩, "ok")
    | none => (st, "bad-op")
  | ["push", h] =>
    match unhex h with
    | none => (st, "bad-op")
    | some chunk =>
      let before := st.sess
      let after := before.push st.lay.parsers chunk
      let consumed :=
        match after.dec with
        | .dead => "?"
        | _ => toString (before.pending.length + chunk.length - after.pending.length)
      (⟨st.lay, after⟩, s!"consumed={consumed} {showState after}")
  | ["loading"] => (st, "-")
  | ["finish"] => (st, showFinish st.sess)
  | ["read", h] =>
    match unhex h with
    | none => (st, "bad-op")
    | some stream =>
      let r := readAll st.lay.parsers stream
      (⟨st.lay, r.sess⟩, s!"{showFinish r.sess} unread={r.rest.length} eof={if r.eofBeforeInit then 1 else 0}")
  | _ => (st, "bad-op")

def step (st : St) (ws : List String) : St × String :=
  match ws with
  | "script" :: ops =>
    let init : St := ⟨⟨0, none, []⟩, Sess.init⟩
    let (st', outs) := ops.foldl (fun (acc : St × List String) o =>
      let (s', r) := op acc.1 o
      (s', r :: acc.2)) (init, [])
    (st', " | ".intercalate outs.reverse)
  | [o] => op st o
  | _ => (st, "bad-op")

def main : IO Unit := runLoop (⟨⟨0, none, []⟩, Sess.init⟩ : St) step

def stepC11 (_ : Unit) (ws : List String) : Unit × String :=
  match ws with
  | ["eof", p] =>
    match Jxl.EofChain.evalPath (p.splitOn ".") with
    | some b => ((), toString b)
    | none => ((), "unknown")
  | _ => ((), "bad-op")

def mainC11 : IO Unit := runLoop () stepC11

end Jxl.Driver.C09
