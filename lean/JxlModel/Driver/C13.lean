import JxlModel.Driver.Common
import JxlModel.Model.Alloc
namespace Jxl.Driver.C13
open Jxl.Alloc

def showOut : Out → String
  | .ok => "ok"
  | .oom b => s!"oom {b}"
  | .panicMul => "panic-mul"
  | .badOp => "bad-op"

def step (s : State) (ws : List String) : State × String :=
  let op : Option Op :=
    match ws with
    | ["alloc", c, sz] => do pure (.alloc (← c.toNat?) (← sz.toNat?))
    | ["drop", i] => do pure (.drop (← i.toNat?))
    | ["expand", n] => do pure (.expand (← n.toNat?))
    | ["shrink", n] => do pure (.shrink (← n.toNat?))
    | _ => none
  match ws, op with
  | ["init", l], _ =>
    match l.toNat? with
    | some l => (init l, s!"ok left={l} live=0")
    | none => (s, "bad-op")
  | _, some op =>
    let (s', o) := Alloc.step s op
    (s', s!"{showOut o} left={s'.left} live={s'.handles.length}")
  | _, none => (s, "bad-op")

def main : IO Unit := runLoop (init 0) step

end Jxl.Driver.C13
