import JxlModel.Driver.Common
import JxlModel.Model.Alloc
namespace Jxl.Driver.C13
open Jxl.Alloc

def showOut : Out → String
  | .ok => "ok"
  | .oom b => s!"oom {b}"
  | .panicMul => "panic-mul"
  | .badOp => "bad-op"

def step (sd : State × Dec) (ws : List String) : (State × Dec) × String :=
  let (s, d) := sd
  let op : Option Op :=
    match ws with
    | ["alloc", c, sz] => do pure (.alloc (← c.toNat?) (← sz.toNat?))
    | ["drop", i] => do pure (.drop (← i.toNat?))
    | ["expand", n] => do pure (.expand (← n.toNat?))
    | ["shrink", n] => do pure (.shrink (← n.toNat?))
    | _ => none
  let showDec := fun (d : Dec) => s!"total={d.tr.limit} out={outstanding d.tr} cur={d.current}"
  match ws, op with
  | ["init", l], _ =>
    match l.toNat? with
    | some l => ((init l, d), s!"ok left={l} live=0")
    | none => (sd, "bad-op")
  -- `JxlDecoder::new` with `out` bytes held by the freshly read image
  | ["dnew", out], _ =>
    match out.toNat? with
    | some out =>
      let d' := decStep Dec.init (.tracker (.alloc out 1))
      ((s, d'), s!"new {showDec d'}")
    | none => (sd, "bad-op")
  | ["dset", n], _ =>
    match (if n == "none" then some (W - 1) else n.toNat?) with
    | some n =>
      let (d', ok) := setLimits d n
      ((s, d'), s!"{if ok then "ok" else "refused"} {showDec d'}")
    | none => (sd, "bad-op")
  | _, some op =>
    let (s', o) := Alloc.step s op
    ((s', d), s!"{showOut o} left={s'.left} live={s'.handles.length}")
  | _, none => (sd, "bad-op")

def main : IO Unit := runLoop (init 0, Dec.init) step

end Jxl.Driver.C13
