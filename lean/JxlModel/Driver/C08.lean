import JxlModel.Driver.Common
import JxlModel.Model.RenderState
/-!
Line protocol for C08/C20 (`jxlmodel c08`, `jxlmodel c20` share it).

  config var=<fixed|old> inline=<0|1> kf=<list> | <frame> | <frame> ...
      frame = spawn=<list> oprefs=<list> pre=<list> chans=<r[!]|-,...> reset=<r|-> skip=<0|1> complete=<0|1> ro=<0|1>
  render <kf> <ok|err:kind> <guide>     guided replay of one render_keyframe (sequential semantics);
                                        the guide is the implementation's H4 trace, used only to
                                        resolve the adversary's choices (which step fails)
  region                                request_image_region -> reset_cache
  states
  sched <progs> <failkind> <log>        guided replay of a controlled schedule (interleaving semantics)
-/
namespace Jxl.Driver.C08
open Jxl.RenderState

structure St where
  cfg : Config := { frames := [] }
  var : Variant := .fixed
  hs : List HState := []
  dec : List Nat := []
  comp : List Nat := []
  deriving Inhabited

def theCodec : Codec :=
  { dec := fun i ws => 1000003 * (i + 1) + ws.foldl (fun a w => (a * 31 + w) % 1000000007) 7,
    pre := fun i v => (v * 13 + i + 1) % 1000000007,
    comp := fun i v ws => ws.foldl (fun a w => (a * 37 + w) % 1000000007) (v * 17 + i) }

def evName : EvK → String
  | .sr => "sr" | .ss => "ss" | .wl => "wl" | .wb => "wb" | .dl => "dl" | .dn => "dn" | .rs => "rs"
  | .tt => "tt" | .oe => "oe" | .oxd => "oxd" | .oxi => "oxi" | .oxe => "oxe" | .pe => "pe"
  | .pxo => "pxo" | .pxs => "pxs" | .pxe => "pxe" | .ce => "ce" | .cxo => "cxo" | .cxe => "cxe"

def allEv : List EvK :=
  [.sr, .ss, .wl, .wb, .dl, .dn, .rs, .tt, .oe, .oxd, .oxi, .oxe, .pe, .pxo, .pxs, .pxe, .ce, .cxo, .cxe]

def showEv (e : EvK × Nat) : String := evName e.1 ++ toString e.2

def showEvs (l : List (EvK × Nat)) : String :=
  if l.isEmpty then "-" else ",".intercalate (l.map showEv)

/-- "sr12" → (sr, 12) -/
def parseEv (s : String) : Option (EvK × Nat) :=
  let cs := s.toList
  let name := String.ofList (cs.takeWhile (fun c => !c.isDigit))
  let num := String.ofList (cs.dropWhile (fun c => !c.isDigit))
  match allEv.find? (fun k => evName k == name), num.toNat? with
  | some k, some n => some (k, n)
  | _, _ => none

def parseList (s : String) : Option (List Nat) :=
  if s == "-" then some [] else (s.splitOn ",").mapM String.toNat?

def parseGuide (s : String) : Option (List (EvK × Nat)) :=
  if s == "-" then some [] else (s.splitOn ",").mapM parseEv

def showH : HState → String
  | .none => "None" | .rendering => "Rendering" | .inProgress _ => "InProgress" | .done _ => "Done"
  | .blended _ => "Blended" | .err _ => "Err" | .errTaken => "ErrTaken"

def showStates (hs : List HState) : String :=
  if hs.isEmpty then "-" else ",".intercalate (hs.map showH)

def showErr : ErrK → String
  | .oom => "oom" | .incomplete => "incomplete" | .failedRef => "failed-ref" | .other => "other"

def parseErr (s : String) : ErrK :=
  if s == "oom" then .oom else if s == "incomplete" then .incomplete
  else if s == "failed-ref" then .failedRef else .other

def kv (w : String) : Option (String × String) :=
  match w.splitOn "=" with
  | [k, v] => some (k, v)
  | _ => none

def parseChan (s : String) : Option (Option Nat × Bool) :=
  if s == "-" then some (none, false)
  else
    let take := s.endsWith "!"
    let body := if take then String.ofList (s.toList.dropLast) else s
    body.toNat?.map fun r => (some r, take)

def parseFrame (ws : List String) : Option Frame :=
  ws.foldlM (init := ({} : Frame)) fun f w => do
    let (k, v) ← kv w
    match k with
    | "spawn" => pure { f with spawn := ← parseList v }
    | "oprefs" => pure { f with opRefs := ← parseList v }
    | "pre" => pure { f with pre := ← parseList v }
    | "chans" => pure { f with chans := ← (if v == "-" then some [] else (v.splitOn ",").mapM parseChan) }
    | "reset" => pure { f with reset := if v == "-" then none else v.toNat? }
    | "skip" => pure { f with skip := v == "1" }
    | "complete" => pure { f with complete := v == "1" }
    | "ro" => pure { f with refOnly := v == "1" }
    | _ => none

/-- split a word list at "|" -/
def splitBars (ws : List String) : List (List String) :=
  ws.foldr (fun w acc =>
    if w == "|" then [] :: acc
    else match acc with
      | [] => [[w]]
      | g :: gs => (w :: g) :: gs) [[]]

def parseConfig (ws : List String) : Option (Config × Variant) := do
  match splitBars ws with
  | [] => none
  | head :: frames =>
    let fs ← frames.mapM parseFrame
    let mut cfg : Config := { frames := fs }
    let mut var := Variant.fixed
    for w in head do
      let (k, v) ← kv w
      match k with
      | "var" => var := if v == "old" then .old else .fixed
      | "inline" => cfg := { cfg with inline := v == "1" }
      | "kf" => cfg := { cfg with keyframes := ← parseList v }
      | _ => none
    pure (cfg, var)

/-- error-exit event of a handler -/
def errExit : Handler → Option (EvK × Nat)
  | .op i _ _ => some (.oxe, i)
  | .comp i _ _ => some (.cxe, i)
  | _ => none

/-- The adversary's choice for the next step of `th`, read off the implementation's trace:
`next` are the events this thread still has to produce, `expectErr` the final result class. -/
def guidedChoice (hs : List HState) (th : Thread) (next : List (EvK × Nat))
    (expectErr : Option ErrK) : Choice :=
  let e : ErrK := expectErr.getD .oom
  match th.acts with
  | [] => {}
  | a :: _ =>
    match a.body with
    | [] =>
      match a.h with
      | .op i _ _ => if th.err.isNone && next.head? == some (.oxe, i) then { fail := some e } else {}
      | _ => {}
    | .mayFail :: _ =>
      match errExit a.h with
      | some x => if next.head? == some x then { fail := some e } else {}
      | none =>
        -- postprocess_keyframe: fails iff the call failed and produced no further event
        if a.h == .top && next.isEmpty && expectErr.isSome then { fail := some e } else {}
    | .blend i _ :: _ =>
      match getH hs i with
      | .done _ => if next[2]? == some (.pxe, i) then { fail := some e } else {}
      | _ => {}
    | _ => {}

structure Replay where
  hs : List HState
  th : Thread
  ev : List (EvK × Nat) := []
  hang : Option Nat := none

def replay (cfg : Config) (var : Variant) (guide : List (EvK × Nat)) (expectErr : Option ErrK) :
    Nat → Replay → Replay
  | 0, r => r
  | fuel + 1, r =>
    if r.th.acts.isEmpty then r
    else match r.th.asleep with
      | some i => { r with hang := some i }
      | none =>
        let ch := guidedChoice r.hs r.th (guide.drop r.ev.length) expectErr
        let o := stepThread cfg theCodec var ch r.hs r.th
        replay cfg var guide expectErr fuel { hs := o.hs, th := o.th, ev := r.ev ++ o.ev }

def bump (l : List Nat) (i : Nat) : List Nat := l.set i (l.getD i 0 + 1)

def showCounters (st : St) : String :=
  if st.hs.isEmpty then "-"
  else ",".intercalate ((List.range st.hs.length).map fun i =>
    s!"{st.dec.getD i 0}/{st.comp.getD i 0}")

def countEv (st : St) (evs : List (EvK × Nat)) : St :=
  evs.foldl (fun st e =>
    match e.1 with
    | .oe => { st with dec := bump st.dec e.2 }
    | .ce => { st with comp := bump st.comp e.2 }
    | _ => st) st

def step (st : St) (ws : List String) : St × String :=
  match ws with
  | "config" :: rest =>
    match parseConfig rest with
    | some (cfg, var) =>
      let n := cfg.frames.length
      ({ cfg := cfg, var := var, hs := List.replicate n .none, dec := List.replicate n 0,
         comp := List.replicate n 0 },
       s!"ok frames={n} wf={if cfg.wf then 1 else 0}")
    | none => (st, "bad-op")
  | ["render", kf, expect, guide] =>
    match kf.toNat?, parseGuide guide with
    | some kf, some g =>
      let expectErr : Option ErrK :=
        match expect.splitOn ":" with
        | ["err", k] => some (parseErr k)
        | _ => none
      let th := startThread st.cfg (.renderKeyframe kf)
      let fuel := opFuel st.cfg (.renderKeyframe kf) + 1
      let r := replay st.cfg st.var g expectErr fuel { hs := st.hs, th := th }
      let st' := countEv { st with hs := r.hs } r.ev
      let res :=
        match r.hang with
        | some i => s!"HANG {i}"
        | none =>
          if !r.th.acts.isEmpty then "FUEL"
          else match r.th.result with
            | some (.ok v) =>
              let idx := st.cfg.keyframes.getD kf 0
              s!"ok clean={if v == cleanBlended st.cfg theCodec idx then 1 else 0}"
            | some (.err e) => s!"err {showErr e}"
            | none => "none"
      (st', s!"{res} st={showStates r.hs} ev={showEvs r.ev} ex={showCounters st'}")
    | _, _ => (st, "bad-op")
  | ["region"] =>
    let hs := resetCache st.cfg st.hs
    let n := hs.length
    let keep (l : List Nat) : List Nat := (List.range n).map fun i =>
      if (frameOf st.cfg i).refOnly then l.getD i 0 else 0
    ({ st with hs := hs, dec := keep st.dec, comp := keep st.comp }, s!"ok st={showStates hs}")
  | ["states"] => (st, s!"st={showStates st.hs}")
  | _ => (st, "bad-op")

/-! ### Guided replay of a controlled schedule on the interleaving model -/

structure TEv where
  tid : Nat
  ev : EvK × Nat
  /-- `wait_until_render:after_wait` -/
  wake : Bool := false

def parseTEv (s : String) : Option TEv :=
  match s.splitOn ":" with
  | [t, e] =>
    match t.toNat? with
    | some t =>
      if e.startsWith "wa" then
        (String.ofList (e.toList.drop 2)).toNat?.map fun i => { tid := t, ev := (.wl, i), wake := true }
      else (parseEv e).map fun ev => { tid := t, ev := ev }
    | none => none
  | _ => none

def parseProg (s : String) : Option Prog :=
  match s.toList with
  | 'k' :: r => (String.ofList r).toNat?.map Prog.keyframe
  | 'b' :: r => (String.ofList r).toNat?.map Prog.background
  | _ => none

structure SchedSt where
  σ : Sys
  pending : List (List (EvK × Nat))
  /-- the handler step whose first event (`ox*`/`cx*`) was seen; it is applied at its `dl` -/
  pre : List (Option Choice)
  pos : Nat := 0
  err : Option String := none

def isLockEv : EvK → Bool
  | .sr | .ss | .wl | .dl | .rs | .tt => true
  | _ => false

/-- events thread `t` still has to produce, from position `pos` on -/
def future (log : Array TEv) (pos t : Nat) : List (EvK × Nat) :=
  ((log.toList.drop pos).filter fun e => e.tid == t && !e.wake).map (·.ev)

def applyStep (cfg : Config) (var : Variant) (σ : Sys) (t : Nat) (ch : Choice) : Sys :=
  (sysStep cfg theCodec var t ch σ).getD σ

/-- run the steps of thread `t` that produce no event -/
def silentSteps (cfg : Config) (var : Variant) (expect : Option ErrK) (next : List (EvK × Nat)) :
    Nat → Sys → Nat → Sys
  | 0, σ, _ => σ
  | fuel + 1, σ, t =>
    match σ.ths[t]? with
    | none => σ
    | some th =>
      if th.acts.isEmpty || th.asleep.isSome then σ
      else
        let ch := guidedChoice σ.hs th next expect
        let o := stepThread cfg theCodec var ch σ.hs th
        if o.ev.isEmpty then silentSteps cfg var expect next fuel (applyStep cfg var σ t ch) t
        else σ

def schedStep (cfg : Config) (var : Variant) (expects : List (Option ErrK)) (log : Array TEv)
    (s : SchedSt) (e : TEv) : SchedSt :=
  if s.err.isSome then s
  else
    let t := e.tid
    let s := { s with pos := s.pos + 1 }
    let pos := s.pos - 1
    if e.wake then
      -- returned from `Condvar::wait`: the re-check of `wait_until_render`'s loop follows at once
      -- (its lock event is this `wa` instead of a `wl`)
      -- (`notify_all` has already woken the model's thread; a spurious wake-up has not)
      match some ((sysWake t s.σ).getD s.σ) with
      | none => s
      | some σ =>
        match σ.ths[t]? with
        | none => { s with err := some s!"no thread {t}" }
        | some th =>
          let ch := guidedChoice σ.hs th (e.ev :: future log (pos + 1) t) (expects.getD t none)
          let o := stepThread cfg theCodec var ch σ.hs th
          match o.ev with
          | x :: rest =>
            if x.1 == EvK.wl then
              { s with σ := applyStep cfg var σ t ch, pending := s.pending.set t rest }
            else { s with err := some s!"thread {t}: woke up at {pos} but its next step is {showEv x}" }
          | [] => { s with err := some s!"thread {t}: woke up at {pos} into a silent step" }
    else
      match s.pending.getD t [] with
      | x :: rest =>
        if x == e.ev then { s with pending := s.pending.set t rest }
        else { s with err := some s!"thread {t}: expected {showEv x} got {showEv e.ev} at {pos}" }
      | [] =>
        let expect := (expects.getD t none)
        let next := future log pos t
        match s.pre.getD t none with
        | some ch =>
          -- second event of a handler step: the lock acquisition of done_render
          match s.σ.ths[t]? with
          | none => { s with err := some s!"no thread {t}" }
          | some th =>
            let o := stepThread cfg theCodec var ch s.σ.hs th
            match o.ev with
            | _ :: y :: rest =>
              if y == e.ev then
                { s with σ := applyStep cfg var s.σ t ch, pending := s.pending.set t rest,
                         pre := s.pre.set t none }
              else { s with err := some s!"thread {t}: expected {showEv y} got {showEv e.ev} at {pos}" }
            | _ => { s with err := some s!"thread {t}: handler step changed shape at {pos}" }
        | none =>
          let σ := silentSteps cfg var expect next 64 s.σ t
          match σ.ths[t]? with
          | none => { s with err := some s!"no thread {t}" }
          | some th =>
            if th.acts.isEmpty then
              { s with σ := σ, err := some s!"thread {t} has returned in the model but produced {showEv e.ev} at {pos}" }
            else if th.asleep.isSome then
              { s with σ := σ, err := some s!"thread {t} sleeps in the model but produced {showEv e.ev} at {pos}" }
            else
              let ch := guidedChoice σ.hs th next expect
              let o := stepThread cfg theCodec var ch σ.hs th
              match o.ev with
              | [] => { s with σ := σ, err := some "silent step not consumed" }
              | x :: rest =>
                if x != e.ev then
                  { s with σ := σ, err := some s!"thread {t}: expected {showEv x} got {showEv e.ev} at {pos}" }
                else if !isLockEv x.1 && (rest.head?.map (fun y => y.1 == EvK.dl)).getD false then
                  -- `ox*`/`cx*` precede the lock of done_render: apply at the `dl` event
                  { s with σ := σ, pre := s.pre.set t (some ch) }
                else
                  { s with σ := applyStep cfg var σ t ch, pending := s.pending.set t rest }

def showRes : Option Res → String
  | some (.ok _) => "ok"
  | some (.err e) => s!"err:{showErr e}"
  | none => "none"

def schedReplay (st : St) (progs : List Prog) (expects : List (Option ErrK)) (log : Array TEv) :
    String :=
  let n := progs.length
  let s0 : SchedSt :=
    { σ := { (initSys st.cfg progs) with hs := st.hs }, pending := List.replicate n [],
      pre := List.replicate n none }
  let s := log.foldl (schedStep st.cfg st.var expects log) s0
  match s.err with
  | some e => s!"MISMATCH {e}"
  | none =>
    -- what is left are steps without events (post-processing, returning)
    let σ := (List.range n).foldl (fun σ t =>
      silentSteps st.cfg st.var (expects.getD t none) [] 64 σ t) s.σ
    let res := ",".intercalate (σ.ths.map fun th =>
      if th.acts.isEmpty then showRes th.result
      else if th.asleep.isSome then "asleep" else "running")
    let clean := σ.ths.zip progs |>.all fun (th, p) =>
      match th.result, p with
      | some (.ok v), .keyframe k => v == cleanBlended st.cfg theCodec (st.cfg.keyframes.getD k 0)
      | _, _ => true
    s!"ok res={res} st={showStates σ.hs} clob={if σ.clobbered then 1 else 0} clean={if clean then 1 else 0}"

def step2 (st : St) (ws : List String) : St × String :=
  match ws with
  | ["sched", progs, expects, log] =>
    let ps := (progs.splitOn ",").mapM parseProg
    let es : List (Option ErrK) := (expects.splitOn ",").map fun w =>
      if w == "-" then none else some (parseErr w)
    let lg := if log == "-" then some [] else (log.splitOn ",").mapM parseTEv
    match ps, lg with
    | some ps, some lg => (st, schedReplay st ps es lg.toArray)
    | _, _ => (st, "bad-op")
  | _ => step st ws

def main : IO Unit := runLoop ({} : St) step2

end Jxl.Driver.C08
