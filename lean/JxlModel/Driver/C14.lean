import JxlModel.Driver.Common
import JxlModel.Model.Headers
/-!
Line protocol of C14.

`jxlmodel c14` (the model parsers; the harness `c14` answers the same requests with the real
crates):
* `img <hex>`                         → `ok <bits read> | <dumpImage>`
* `frame <imghex> <hex>`              → `ok <bits read> | <dumpFrame>`      (`imgerr …` if the image header fails)
* `ftoc <imghex> <hex>`               → `ok <bits read by frame header> <bits read in total> | <dumpFrame> | <dumpToc>`
* `sub <Name> <hex>`                  → `ok <bits read> | <dump of that bundle>`
* `desc`                              → JSON description of every bundle (for the generators)
errors: `err eof`, `err invalid <kind>`, `err stuck <why>` (model cannot follow: un-modelled layer).

`jxlmodel hdrenc` (the model writers), see the header of `Model/Headers.lean`:
* `img <seed> <raw value>`                         → `ok <nbits> <hex> | <dumpImage>`
* `imgspec <seed> <raw value>`                     → same, with the preview header as the format defines it
* `frame <seed> <raw image> | <raw frame>`          → `ok <imgbits> <imghex> <nbits> <hex> | <dumpFrame>`
* `ftoc <seed> <raw image> | <raw frame> | <perm> | <size pool…>`
      → `ok <imgbits> <imghex> <fhbits> <nbits> <hex> | <dumpFrame> | <dumpToc>`
  `<perm>` = `-` or `<count> <sym,sym,..> <digit,digit,…>` (trivial code: alphabet size, the
  1/2/4 symbols of the simple prefix code, a pool of Lehmer digits; the first digit is `end`)
* `sub <Name> <seed> <raw value>`                   → `ok <nbits> <hex> | <dump>`
* `toc <seed> <startbit> <size> …`                  → `ok <nbits> <hex>` (unpermuted, bits from `startbit`)
-/
namespace Jxl.Driver.C14
open Jxl Jxl.Bundle Jxl.Headers

def showErr : Err → String
  | .eof => "err eof"
  | .invalid k => s!"err invalid {k}"
  | .stuck w => s!"err stuck {w.replace " " "_"}"

def bitsOfHex (h : String) : Option Bits := (bytesOfHex h).map bytesToBits

/-- `bitsToBytes` without re-measuring the list at every byte -/
def bytesOfBits : Bits → List Nat → List Nat
  | b0 :: b1 :: b2 :: b3 :: b4 :: b5 :: b6 :: b7 :: r, acc =>
    bytesOfBits r (ofBits [b0, b1, b2, b3, b4, b5, b6, b7] :: acc)
  | [], acc => acc.reverse
  | r, acc => (ofBits r :: acc).reverse

def hexOfBits (b : Bits) : String := hexOrDash (bytesOfBits b [])

/-! ### dumps of stand-alone bundles (same text as the harness) -/
def dumpSub (name : String) (e : Env) : String :=
  let v := Val.record e
  match name with
  | "SizeHeader" | "PreviewHeader" => s!"{(v.get "width").nat!}x{(v.get "height").nat!}"
  | "AnimationHeader" =>
    s!"{(v.get "tps_numerator").nat!}/{(v.get "tps_denominator").nat!}/{(v.get "num_loops").nat!}/{b01 (v.get "have_timecodes").bool!}"
  | "BitDepth" => dumpBitDepth v
  | "ExtraChannelInfo" => dumpEc v
  | "ColourEncoding" => dumpColourEncoding v
  | "ToneMapping" =>
    s!"{fbits (v.get "intensity_target")},{fbits (v.get "min_nits")},{b01 (v.get "relative_to_max_display").bool!},{fbits (v.get "linear_below")}"
  | "OpsinInverseMatrix" =>
    s!"{joinWith "," ((v.get "inv_mat").list!.map dumpFloats)};{dumpFloats (v.get "opsin_bias")};{dumpFloats (v.get "quant_bias")};{fbits (v.get "quant_bias_numerator")}"
  | "Customxy" => dumpXy v
  | "Passes" =>
    s!"{(v.get "num_passes").nat!};{(v.get "num_ds").nat!};{dumpNats (v.get "shift")};{dumpNats (v.get "downsample")};{dumpNats (v.get "last_pass")}"
  | "Name" => dumpName v
  | "Extensions" => dumpExtensions v
  | "RestorationFilterVarDct" | "RestorationFilterModular" =>
    s!"gab={dumpGabor (v.get "gab")} epf={dumpEpf (v.get "epf")} rfext={dumpExtensions (v.get "extensions")}"
  | _ => "?"

def findSub (name : String) : Option (Bundle × Env) :=
  (standalone.find? fun (n, _, _) => n == name).map fun (_, b, c) => (b, c)

/-! ### JSON of descriptions -/
def jstr (s : String) : String := "\"" ++ s ++ "\""
def jdist : Dist → String
  | .const c => s!"[\"c\",{c}]"
  | .bits off n => s!"[\"b\",{off},{n}]"

mutual
def tyJson : FieldTy → String
  | .const c => s!"\{\"k\":\"const\",\"c\":{c}}"
  | .u n => s!"\{\"k\":\"u\",\"n\":{n}}"
  | .cu c n => s!"\{\"k\":\"cu\",\"c\":{c},\"n\":{n}}"
  | .u32 a b c d => s!"\{\"k\":\"u32\",\"d\":[{jdist a},{jdist b},{jdist c},{jdist d}]}"
  | .u64 => "{\"k\":\"u64\"}"
  | .f16 => "{\"k\":\"f16\"}"
  | .bool => "{\"k\":\"bool\"}"
  | .enumOf t valid => s!"\{\"k\":\"enum\",\"t\":{tyJson t},\"valid\":[{",".intercalate (valid.map toString)}]}"
  | .signed t => s!"\{\"k\":\"signed\",\"t\":{tyJson t}}"
  | .signed64 t => s!"\{\"k\":\"signed\",\"t\":{tyJson t}}"
  | .bundle _ fs => s!"\{\"k\":\"bundle\",\"f\":[{fieldsJson fs}]}"
  | .vec t _ => s!"\{\"k\":\"vec\",\"t\":{tyJson t}}"
  | .arr t n => s!"\{\"k\":\"arr\",\"t\":{tyJson t},\"n\":{n}}"
  | .zeroPad => "{\"k\":\"unit\"}"
  | .assert _ _ => "{\"k\":\"unit\"}"
  | .skip _ => "{\"k\":\"unit\"}"
  | .ext n => s!"\{\"k\":\"ext\",\"name\":{jstr n}}"
def fieldsJson : List Field → String
  | [] => ""
  | [.mk n t _ _] => s!"[{jstr n},{tyJson t}]"
  | .mk n t _ _ :: r => s!"[{jstr n},{tyJson t}]," ++ fieldsJson r
end

def descJson : String :=
  let named : List (String × Bundle) :=
    [("ImageHeader", imageHeaderDesc), ("FrameHeader", Pinned.FrameHeader)] ++
    (standalone.map fun (n, b, _) => (n, b))
  "{" ++ ",".intercalate (named.map fun (n, b) => s!"{jstr n}:[{fieldsJson b}]") ++ "}"

/-! ### parser side -/

def parseImg (h : String) : Except String (Env × Nat) :=
  match bitsOfHex h with
  | none => .error "bad-op"
  | some s =>
    match parseImageHeader s with
    | .ok (e, r) => .ok (e, s.length - r.length)
    | .error e => .error (showErr e)

def stepParse (_ : Unit) (ws : List String) : Unit × String :=
  let out : String :=
    match ws with
    | ["desc"] => descJson
    | ["img", h] =>
      match parseImg h with
      | .ok (e, n) => s!"ok {n} | {dumpImage e}"
      | .error m => m
    | ["imgspec", h] =>
      match bitsOfHex h with
      | none => "bad-op"
      | some s =>
        match parse imageHeaderSpecDesc [] s with
        | .ok (e, r) => s!"ok {s.length - r.length} | {dumpImage e}"
        | .error e => showErr e
    | ["frame", ih, h] =>
      match parseImg ih, bitsOfHex h with
      | .error m, _ => "img" ++ m
      | _, none => "bad-op"
      | .ok (img, _), some s =>
        match parseFrameHeader img s with
        | .ok (e, r) => s!"ok {s.length - r.length} | {dumpFrame e}"
        | .error e => showErr e
    | ["ftoc", ih, h] =>
      match parseImg ih, bitsOfHex h with
      | .error m, _ => "img" ++ m
      | _, none => "bad-op"
      | .ok (img, _), some s =>
        match parseFrameHeader img s with
        | .error e => showErr e
        | .ok (fh, r) =>
          let f := Val.record fh
          let d := frameDerived f
          match d.numGroups, d.numLfGroups, tocEntryCount f with
          | some g, some l, some n =>
            match parseToc trivialPermDecoder s.length g l n r with
            | .ok (t, r') =>
              s!"ok {s.length - r.length} {s.length - r'.length} | {dumpFrame fh} | {dumpToc t}"
            | .error e => "toc" ++ showErr e
          | _, _, _ => "tocpanic"
    | ["sub", name, h] =>
      match findSub name, bitsOfHex h with
      | some (b, c), some s =>
        match parse b c s with
        | .ok (e, r) => s!"ok {s.length - r.length} | {dumpSub name e}"
        | .error e => showErr e
      | _, _ => "bad-op"
    | _ => "bad-op"
  ((), out)

def main : IO Unit := runLoop () stepParse

/-! ### writer side -/

/-- split a token list at "|" -/
def splitBar (ws : List String) : List (List String) :=
  ws.foldr (fun w acc => if w == "|" then [] :: acc else
    match acc with
    | a :: r => (w :: a) :: r
    | [] => [[w]]) [[]]

def rawEnv (ws : List String) : Option Env :=
  match Val.ofText ws with
  | some (.record e) => some e
  | _ => none

def natsOfCsv (s : String) : Option (List Nat) :=
  if s == "-" || s == "" then some [] else (s.splitOn ",").mapM String.toNat?

/-- Lehmer code for the trivial permutation code: `end` = first pool digit (clamped to the
largest allowed symbol ≤ size), digits cycle through the pool and fall back to the smallest symbol -/
def pickLehmer (size : Nat) (syms pool : List Nat) : Option (List Nat) :=
  let sorted := sortNat syms
  let small := sorted.headD 0
  let endWish := pool.headD small
  let endV := if endWish ≤ size && syms.contains endWish then endWish
    else (sorted.filter (· ≤ size)).getLast?.getD small
  if endV > size then none else
  let digits := (List.range endV).map fun i =>
    let d := pool.getD ((i + 1) % (max pool.length 1)) small
    if syms.contains d && d < size - i then d else small
  if (digits.zipIdx.all fun (d, i) => d < size - i) then some digits else none

def stepEnc (_ : Unit) (ws : List String) : Unit × String :=
  let out : String :=
    match ws with
    | "img" :: seed :: rest =>
      match seed.toNat?, rawEnv rest with
      | some sd, some raw =>
        match mkImageHeader raw with
        | none => "unwritable canon"
        | some img =>
          match writeImageHeader (choiceOf sd) img with
          | some b => s!"ok {b.length} {hexOfBits b} | {dumpImage img}"
          | none => "unwritable write"
      | _, _ => "bad-op"
    | "imgspec" :: seed :: rest =>
      match seed.toNat?, rawEnv rest with
      | some sd, some raw =>
        match canon imageHeaderSpecDesc [] (("signature", .nat 0xaff) :: raw) with
        | none => "unwritable canon"
        | some img =>
          match write imageHeaderSpecDesc (choiceOf sd) [] img with
          | some b => s!"ok {b.length} {hexOfBits b} | {dumpImage img}"
          | none => "unwritable write"
      | _, _ => "bad-op"
    | "frame" :: seed :: rest =>
      match seed.toNat?, splitBar rest with
      | some sd, [iw, fw] =>
        match rawEnv iw, rawEnv fw with
        | some iraw, some fraw =>
          match mkImageHeader iraw with
          | none => "unwritable canon-img"
          | some img =>
            match writeImageHeader (choiceOf sd) img, mkFrameHeader img fraw with
            | some ib, some fh =>
              match writeFrameHeader (choiceOf (sd + 1)) img fh with
              | some b => s!"ok {ib.length} {hexOfBits ib} {b.length} {hexOfBits b} | {dumpFrame fh}"
              | none => "unwritable write"
            | none, _ => "unwritable write-img"
            | _, none => "unwritable canon"
        | _, _ => "bad-op"
      | _, _ => "bad-op"
    | "ftoc" :: seed :: rest =>
      match seed.toNat?, splitBar rest with
      | some sd, [iw, fw, pw, sw] =>
        match rawEnv iw, rawEnv fw, natList sw with
        | some iraw, some fraw, some pool =>
          match mkImageHeader iraw with
          | none => "unwritable canon-img"
          | some img =>
            match writeImageHeader (choiceOf sd) img, mkFrameHeader img fraw with
            | some ib, some fh =>
              match writeFrameHeader (choiceOf (sd + 1)) img fh with
              | none => "unwritable write"
              | some fb =>
                let f := Val.record fh
                let d := frameDerived f
                match d.numGroups, d.numLfGroups, tocEntryCount f with
                | some g, some l, some n =>
                  if n > 70000 then "unwritable toc-too-large" else
                  let sizes := (cycleTo (pool.map .nat) (.nat 0) n).map Val.nat!
                  let prelude : Option (Option (Bits × List Nat)) :=
                    match pw with
                    | ["-"] => some none
                    | [c, sy, dg] =>
                      match c.toNat?, natsOfCsv sy, natsOfCsv dg with
                      | some count, some syms, some digits =>
                        match pickLehmer n syms digits with
                        | some lehmer =>
                          (trivialPermWrite count syms lehmer).map fun b => some (b, lehmer)
                        | none => none
                      | _, _, _ => none
                    | _ => none
                  match prelude with
                  | none => "unwritable perm"
                  | some pre =>
                    match writeToc (choiceOf (sd + 2)) fb.length sizes (pre.map (·.1)) with
                    | none => "unwritable toc"
                    | some tb =>
                      let all := fb ++ tb
                      let perm : List Nat := match pre with
                        | some (_, lehmer) => lehmerToPerm n lehmer
                        | none => []
                      let t : TocVal := TocVal.mk n l g pre.isSome perm sizes (all.length / 8)
                      s!"ok {ib.length} {hexOfBits ib} {fb.length} {all.length} {hexOfBits all} | {dumpFrame fh} | {dumpToc t}"
                | _, _, _ => "unwritable toc-panic"
            | none, _ => "unwritable write-img"
            | _, none => "unwritable canon"
        | _, _, _ => "bad-op"
      | _, _ => "bad-op"
    | "sub" :: name :: seed :: rest =>
      match findSub name, seed.toNat?, rawEnv rest with
      | some (b, c), some sd, some raw =>
        match canon b c raw with
        | none => "unwritable canon"
        | some e =>
          match write b (choiceOf sd) c e with
          | some bits => s!"ok {bits.length} {hexOfBits bits} | {dumpSub name e}"
          | none => "unwritable write"
      | _, _, _ => "bad-op"
    | "toc" :: seed :: start :: sizes =>
      match seed.toNat?, start.toNat?, natList sizes with
      | some sd, some st, some sz =>
        match writeToc (choiceOf sd) st sz none with
        | some b => s!"ok {b.length} {hexOfBits b}"
        | none => "unwritable toc"
      | _, _, _ => "bad-op"
    | _ => "bad-op"
  ((), out)

def mainEnc : IO Unit := runLoop () stepEnc

end Jxl.Driver.C14
