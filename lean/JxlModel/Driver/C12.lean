import JxlModel.Driver.Enc
import JxlModel.Model.Enc.Narrow
/-!
# Driver `c12`: narrow (i16) versus wide (i32) Modular arithmetic

One op per line:

* `sq h|v W H v…` — inverse squeeze of a merged `W×H` grid (`h`: every row is averages then
  residuals; `v`: average rows then residual rows), model at `sb = 16` and `sb = 32`.
  Answer `ok fits=F num=MIN..MAX vals=MIN..MAX n <W*H values> w same|<W*H values>`:
  `F` = every value of `unsqueezeChanTrace` (numerators of `tendency`, `diff`, reconstructed
  samples) is an `i16`, i.e. the hypothesis of `C12_unsqueezeChan_narrow_eq_wide`.
* `rct TY PERM W H a… b… c…` — inverse RCT of three `W×H` channels.
  Answer `ok fits=F vals=MIN..MAX n <3*W*H> w same|<3*W*H>` (hypothesis of
  `C12_rctInverse_narrow_eq_wide`).
* `tend a b c` — `ok <tendency 16> <tendency 32> <numerator>`.
* `range <plan>` — plan grammar of driver `enc`; per frame the wide run of the decoder model on
  the encoder's tokens: `ok N { frame fits=F decsame=D samples=a..b tokens=a..b transforms=a..b
  stored=a..b K {W H data}*K }` (`K` channels of the wide result) or `invalid <why>`.
-/
namespace Jxl.Driver.C12
open Jxl.Modular Jxl.Enc

def b01 (b : Bool) : String := if b then "1" else "0"
def rng (r : Int × Int) : String := s!"{r.1}..{r.2}"

def gridOf (w h : Nat) (vals : List Int) : Chan := { w, h, data := vals.toArray }

/-- split a merged grid into the average and the residual channel -/
def splitMerged (horizontal : Bool) (w h : Nat) (m : Chan) : Chan × Chan :=
  if horizontal then
    let aw := (w + 1) / 2
    (Chan.ofFn aw h fun x y => m.get x y, Chan.ofFn (w - aw) h fun x y => m.get (aw + x) y)
  else
    let ah := (h + 1) / 2
    (Chan.ofFn w ah fun x y => m.get x y, Chan.ofFn w (h - ah) fun x y => m.get x (ah + y))

def chanVals (c : Chan) : List Int := (List.range (c.w * c.h)).map fun i => c.get (i % c.w) (i / c.w)

def sqOp (dir : String) (ws : List String) : String :=
  match ws with
  | sw :: sh :: rest =>
    match sw.toNat?, sh.toNat?, intList rest with
    | some w, some h, some vals =>
      if w == 0 ∨ h == 0 ∨ vals.length != w * h ∨ (dir != "h" ∧ dir != "v") then "bad-op"
      else
        let horizontal := dir == "h"
        let (avg, res) := splitMerged horizontal w h (gridOf w h vals)
        let n := unsqueezeChan 16 horizontal avg res
        let wd := unsqueezeChan 32 horizontal avg res
        let tr := unsqueezeChanTrace horizontal avg res
        -- numerators of `tendency` sit at positions 0 mod 6 of the per-step trace
        let nums := (List.range (tr.length / 6)).map fun i => tr.getD (6 * i) 0
        let nv := chanVals n
        let wv := chanVals wd
        s!"ok fits={b01 (allI16 tr)} num={rng (rangeOf nums)} vals={rng (rangeOf tr)} n {joinInt nv} w " ++
          (if nv == wv then "same" else joinInt wv)
    | _, _, _ => "bad-op"
  | _ => "bad-op"

def rctOp (ws : List String) : String :=
  match ws with
  | sty :: sperm :: sw :: sh :: rest =>
    match sty.toNat?, sperm.toNat?, sw.toNat?, sh.toNat?, intList rest with
    | some ty, some perm, some w, some h, some vals =>
      if w == 0 ∨ h == 0 ∨ vals.length != 3 * w * h ∨ ty > 6 ∨ perm > 5 then "bad-op"
      else
        let n := w * h
        let a := gridOf w h (vals.take n)
        let b := gridOf w h ((vals.drop n).take n)
        let c := gridOf w h (vals.drop (2 * n))
        let t := perm * 7 + ty
        let (x, y, z) := rctInverse 16 t a b c
        let (x', y', z') := rctInverse 32 t a b c
        let tr := rctChanTrace t a b c
        let nv := x.data.toList ++ y.data.toList ++ z.data.toList
        let wv := x'.data.toList ++ y'.data.toList ++ z'.data.toList
        s!"ok fits={b01 (allI16 tr)} vals={rng (rangeOf tr)} n {joinInt nv} w " ++
          (if nv == wv then "same" else joinInt wv)
    | _, _, _, _, _ => "bad-op"
  | _ => "bad-op"

def tendOp (ws : List String) : String :=
  match intList ws with
  | some [a, b, c] => s!"ok {tendency 16 a b c} {tendency 32 a b c} {tendencyNum a b c}"
  | _ => "bad-op"

def rangeOp (ws : List String) : String :=
  match (Enc.plan.run ws) with
  | none => "invalid plan-syntax"
  | some ((img, fs), rest) =>
    if !rest.isEmpty then "invalid trailing-tokens"
    else
      let outs := fs.map (frameWide img)
      if outs.any Option.isNone then "invalid not-encodable"
      else
        let frames := outs.map fun o =>
          let r := o.getD { decodeSame := false, samples := (0, 0), tokenLevel := (0, 0), transforms := (0, 0),
                            stored := (0, 0), fits := false, wide := [] }
          s!"frame fits={b01 r.fits} decsame={b01 r.decodeSame} samples={rng r.samples} " ++
          s!"tokens={rng r.tokenLevel} transforms={rng r.transforms} stored={rng r.stored} {r.wide.length} " ++
          " ".intercalate (r.wide.map Enc.showChan)
        s!"ok {outs.length} " ++ " ".intercalate frames

def step (ws : List String) : String :=
  match ws with
  | "sq" :: dir :: rest => sqOp dir rest
  | "rct" :: rest => rctOp rest
  | "tend" :: rest => tendOp rest
  | "range" :: rest => rangeOp rest
  | ["sop", op, a, b, c] =>
    -- arguments reach the operation through `from_i32` (truncation to the sample width)
    match a.toInt?, b.toInt?, c.toInt? with
    | some a, some b, some c =>
      let f := fun (sb : Nat) =>
        let s := fun (v : Int) => Jxl.Modular.sFromI32 sb (Jxl.Modular.wrap 32 v)
        match op with
        | "unpack" => some (Jxl.Modular.sUnpack sb (a % 2 ^ 32).toNat)
        | "add" => some (Jxl.Modular.sAdd sb (s a) (s b))
        | "muladd" => some (Jxl.Modular.sMulAdd sb (s a) (Jxl.Modular.wrap 32 b) (Jxl.Modular.wrap 32 c))
        | "grad" => some (Jxl.Modular.wrap sb (Jxl.Modular.gradClamped (s a) (s b) (s c)))
        | "from" => some (s a)
        | _ => none
      match f 16, f 32 with
      | some n, some w => s!"ok {n} {w}"
      | _, _ => "bad-op"
    | _, _, _ => "bad-op"
  | _ => "bad-op"

def main : IO Unit := runLoop () fun _ ws => ((), step ws)

end Jxl.Driver.C12
