import JxlModel.Model.NaturalOrder
import JxlModel.Driver.Common
import JxlModel.Model.TaskStages
/-! Line protocol for C07.
* `groups w h gw gh` — ownership map of `into_groups(gw, gh)` on a `w×h` buffer (stride `w`),
  run-length encoded exactly like `harness/src/bin/c07.rs groups`: every group adds `k+1` to its
  cells (an overlap would show up as a sum, a gap as `0`).
* `sched w h gh seed` — model-side test: the in-place row jobs on the `gh`-row bands of a `w×h`
  grid (a row update that mixes each sample with its right neighbour), run in every order of the
  jobs and in every row-level interleaving (capped), all compared with the `none()` order.
  Answer: `confluent <orders> <interleavings>` or `differs`. -/
namespace Jxl.Driver.C07
open Jxl.Subgrid Jxl.Tasks

def rle (a : Array Nat) : String :=
  let (acc, cur, n) := a.foldl (init := (([] : List String), 0, 0)) fun (acc, cur, n) x =>
    if n = 0 then (acc, x, 1)
    else if x = cur then (acc, cur, n + 1)
    else (s!"{cur}*{n}" :: acc, x, 1)
  if n = 0 then "" else " ".intercalate ((s!"{cur}*{n}" :: acc).reverse)

def groups (w h gw gh : Nat) : String :=
  let g : SubGrid := ⟨0, w, h, w, none⟩
  match intoGroups .checked g gw gh with
  | .panic _ => "panic"
  | .ok gs =>
    let buf := (List.range gs.length).zip gs |>.foldl (init := Array.replicate (w * h) 0)
      fun b (k, sg) => (cells sg).foldl (init := b) fun b i =>
        if i < b.size then b.set! i (b[i]! + k + 1) else b
    "own " ++ rle buf

def rowMix : Store Int → Cell → Int := fun s c => 3 * s c - s (c + 1) + 1

def sched (w h gh seed : Nat) : String :=
  let g : SubGrid := ⟨0, w, h, w, none⟩
  match intoGroups .checked g w gh with
  | .panic _ => "panic"
  | .ok gs =>
    let jobs : List (Tasks.Task Int) := gs.map (inPlaceRowTask rowMix)
    let s0 : Store Int := fun c => ((c * 7919 + seed) % 251 : Nat)
    let dump := fun (s : Store Int) => (List.range (w * h)).map s
    let ref := dump (runTasks jobs s0)
    let orders := perms jobs
    let ils := (interleavings (w * h + 1) (jobs.map Task.steps)).take 2000
    if orders.all (fun o => dump (runTasks o s0) == ref) && ils.all (fun o => dump (runSteps o s0) == ref)
    then s!"confluent {orders.length} {ils.length}"
    else "differs"

def run (ws : List String) : String :=
  match ws with
  | ["groups", w, h, gw, gh] =>
    match w.toNat?, h.toNat?, gw.toNat?, gh.toNat? with
    | some w, some h, some gw, some gh => groups w h gw gh
    | _, _, _, _ => "bad-op"
  | ["sched", w, h, gh, seed] =>
    match w.toNat?, h.toNat?, gh.toNat?, seed.toNat? with
    | some w, some h, some gh, some seed => sched w h gh seed
    | _, _, _, _ => "bad-op"
  -- natorder IDX.. : length and hash of the natural-order table of every index, in the order asked
  | "natorder" :: idxs =>
    match idxs.mapM String.toNat? with
    | some is =>
      "ok " ++ " ".intercalate (is.map fun i =>
        let t := Jxl.NaturalOrder.table i
        s!"{i}={t.length}:{(Jxl.NaturalOrder.fnv t).toNat}")
    | none => "bad-op"
  | _ => "bad-op"

def main : IO Unit := runLoop () fun _ ws => ((), run ws)

end Jxl.Driver.C07
