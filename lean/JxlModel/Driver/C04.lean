import JxlModel.Driver.Common
import JxlModel.Model.Entropy.Decoder
import JxlModel.Model.Entropy.PrefixTable
import JxlModel.Model.Enc.EntropyEnc
/-!
Line protocol for C04.

`jxlmodel c04enc` (encoder):
  `enc <mult> <plan> <items>`  →  `ok <nbits> <hex> <headerBits> exp <n> <v>…` | `invalid …`
  `encperm <plan> <size> <skip> <perm…>` → `ok <nbits> <hex> <headerBits>`
`jxlmodel c04` (decoder model):
  `dec <numDist> <mult> <hex> <n> <ctx>…`
  `rle <numDist> <hex> <n> <ctx>…`
  `perm <numDist> <size> <skip> <hex>`
  `clusters <numDist> <hex>`
  `ptab <n> <len_0> … <len_{n-1}>` (model only) → `ok agree=32768 tb=<toplevelBits> second=<n>` |
      `both-err:<word>` | `impl-spec-mismatch <detail>`
`dec`/`rle`/`perm` also run the Impl table reader (`PrefixTable.lean`) next to the Spec reader at
every token read position; a disagreement appends ` impl-spec-mismatch` to the line.

plan  := P numDist lz cmLen cm… nbits inner coder ncfg (se msb lsb)… ncodes code…
lz    := N | L minSymbol minLength se msb lsb
inner := S | C mtf plan
coder := H | A logAlpha
code  := Lh count pform n len… | D aform n d… | U pform aform
pform := pa | ps | pc rle hskip          aform := aa | a1 | a2 | af | ag shift rle
items := n (l ctx v | c ctx len distCode)…
-/
namespace Jxl.Driver.C04
open Jxl Jxl.Entropy Jxl.Enc

abbrev P (α : Type) := List String → Option (α × List String)

def pNat : P Nat
  | w :: r => w.toNat?.map (·, r)
  | [] => none

def pMany {α : Type} (p : P α) : Nat → P (List α)
  | 0, ws => some ([], ws)
  | n+1, ws => do
    let (a, r) ← p ws
    let (as, r') ← pMany p n r
    pure (a :: as, r')

def pNatList : P (List Nat) := fun ws => do
  let (n, r) ← pNat ws
  pMany pNat n r

def pBool : P Bool := fun ws => do
  let (n, r) ← pNat ws
  pure (n != 0, r)

def pConfig : P IntegerConfig := fun ws => do
  let (a, r) ← pNat ws
  let (b, r) ← pNat r
  let (c, r) ← pNat r
  pure (⟨a, b, c⟩, r)

def pPForm : P PrefixForm
  | "pa" :: r => some (.auto, r)
  | "ps" :: r => some (.simple, r)
  | "pc" :: r => do
    let (rle, r) ← pBool r
    let (h, r) ← pNat r
    pure (.complex rle h, r)
  | _ => none

def pAForm : P AnsForm
  | "aa" :: r => some (.auto, r)
  | "a1" :: r => some (.single, r)
  | "a2" :: r => some (.binary, r)
  | "af" :: r => some (.flat, r)
  | "ag" :: r => do
    let (s, r) ← pNat r
    let (rle, r) ← pBool r
    pure (.general s rle, r)
  | _ => none

def pCode : P CodeSpec
  | "Lh" :: r => do
    let (count, r) ← pNat r
    let (f, r) ← pPForm r
    let (lens, r) ← pNatList r
    pure (.lengths count lens f, r)
  | "D" :: r => do
    let (f, r) ← pAForm r
    let (d, r) ← pNatList r
    pure (.dist d f, r)
  | "U" :: r => do
    let (pf, r) ← pPForm r
    let (af, r) ← pAForm r
    pure (.auto pf af, r)
  | _ => none

def pLz : P (Option Lz77Params)
  | "N" :: r => some (none, r)
  | "L" :: r => do
    let (ms, r) ← pNat r
    let (ml, r) ← pNat r
    let (c, r) ← pConfig r
    pure (some ⟨ms, ml, c⟩, r)
  | _ => none

def pPlan : Nat → P EntropyPlan
  | 0, _ => none
  | fuel+1, "P" :: r => do
    let (nd, r) ← pNat r
    let (lz, r) ← pLz r
    let (cm, r) ← pNatList r
    let (nbits, r) ← pNat r
    let (inner, r) ← (match r with
      | "S" :: r => some (none, r)
      | "C" :: r => do
        let (mtf, r) ← pBool r
        let (ip, r) ← pPlan fuel r
        pure (some (mtf, ip), r)
      | _ => none : Option (Option (Bool × EntropyPlan) × List String))
    let (coder, r) ← (match r with
      | "H" :: r => some (CoderKind.prefix, r)
      | "A" :: r => do
        let (la, r) ← pNat r
        pure (CoderKind.ans la, r)
      | _ => none : Option (CoderKind × List String))
    let (ncfg, r) ← pNat r
    let (cfgs, r) ← pMany pConfig ncfg r
    let (ncodes, r) ← pNat r
    let (codes, r) ← pMany pCode ncodes r
    pure ({ numDist := nd, lz77 := lz, clusterMap := cm, clusterNbits := nbits,
            clusterInner := inner, coder := coder, configs := cfgs, codes := codes }, r)
  | _, _ => none

def pItem : P Item
  | "l" :: r => do
    let (c, r) ← pNat r
    let (v, r) ← pNat r
    pure (.lit c v, r)
  | "c" :: r => do
    let (c, r) ← pNat r
    let (l, r) ← pNat r
    let (d, r) ← pNat r
    pure (.copy c l d, r)
  | _ => none

def pItems : P (List Item) := fun ws => do
  let (n, r) ← pNat ws
  pMany pItem n r

def hexBits (b : Bits) : String := hexOrDash (bitsToBytes b)

/-- effective header form of a resolved code (for the evidence's input distribution) -/
def describeCode : CodeSpec → String
  | .lengths count lens form =>
    if count ≤ 1 then "p-count1"
    else
      let used := (lens.filter (· ≠ 0)).length
      let cx (rle : Bool) := if rle then "p-complex-rle" else "p-complex"
      match form, simpleShape lens with
      | .complex _ _, some ([_], _) => "p-simple1"
      | .complex rle _, _ => cx rle
      | _, some (_, some true) => "p-simple4-tree"
      | _, some (_, some false) => "p-simple4-flat"
      | _, some _ => s!"p-simple{used}"
      | _, none => cx true
  | .dist d form =>
    match effectiveForm d form with
    | .single => "a-single" | .binary => "a-binary" | .flat => "a-flat"
    | .general shift rle => s!"a-general-s{shift}" ++ (if rle then "-rle" else "")
    | .auto => "a-?"
  | .auto _ _ => "unresolved"

partial def describePlan (p : EntropyPlan) : List String :=
  (p.codes.take p.numClusters).map describeCode ++
    (match p.clusterInner with | some (_, ip) => describePlan ip | none => [])

def encStep (ws : List String) : String :=
  match ws with
  | "enc" :: r =>
    (do
      let (mult, r) ← pNat r
      let (plan, r) ← pPlan 4 r
      let (items, _) ← pItems r
      let rp := plan.resolve items
      if !rp.check items then pure "invalid check"
      else
        let hdr := encodeHeader rp
        let body := encodeItems rp items
        let bits := hdr ++ body
        let exp := expandItems mult items
        pure s!"ok {bits.length} {hexBits bits} {hdr.length} exp {exp.length} {joinNat exp} forms {" ".intercalate (describePlan rp)}"
      : Option String).getD "bad-op"
  | "encnx" :: r =>       -- like `enc`, without the expansion (for parses with huge copies)
    (do
      let (_, r) ← pNat r
      let (plan, r) ← pPlan 4 r
      let (items, _) ← pItems r
      let rp := plan.resolve items
      if !rp.check items then pure "invalid check"
      else
        let hdr := encodeHeader rp
        let bits := hdr ++ encodeItems rp items
        pure s!"ok {bits.length} {hexBits bits} {hdr.length}"
      : Option String).getD "bad-op"
  | "encperm" :: r =>
    (do
      let (plan, r) ← pPlan 4 r
      let (size, r) ← pNat r
      let (skip, r) ← pNat r
      let (perm, _) ← pMany pNat size r
      let items := permItems size skip perm
      let rp := plan.resolve items
      if !rp.check items then pure "invalid check"
      else
        let hdr := encodeHeader rp
        let bits := hdr ++ encodeItems rp items
        pure s!"ok {bits.length} {hexBits bits} {hdr.length}"
      : Option String).getD "bad-op"
  | "encclusters" :: r =>
    (do
      let (plan, _) ← pPlan 4 r
      let rp := plan.resolve []
      let bits := encodeClusterMap rp
      pure s!"ok {bits.length} {hexBits bits}"
      : Option String).getD "bad-op"
  | _ => "bad-op"

def mainEnc : IO Unit := runLoop () fun _ ws => ((), encStep ws)

/-! ## decoder model -/

def showSingle (d : Decoder) : String :=
  ",".intercalate ((List.range d.configs.length).map fun c =>
    match d.singleToken c with | some t => toString t | none => "-")

/-- Impl tables (`with_code_lengths`) of the cluster codes: `none` = single-symbol code (no table);
the flag is false when some table failed to build. -/
def buildTables : List PrefixCode → List (Option TableHist) × Bool
  | [] => ([], true)
  | .single _ :: r => let (ts, ok) := buildTables r; (none :: ts, ok)
  | .table es :: r =>
    let (ts, ok) := buildTables r
    match withCodeLengths (lensOfEntries es) with
    | .ok t => (some t :: ts, ok)
    | .error _ => (none :: ts, false)

/-- Impl-vs-Spec comparison context of one parsed decoder -/
structure TabCk where
  codes : List PrefixCode := []
  tabs : List (Option TableHist) := []
  built : Bool := true

def TabCk.ofDecoder (d : Decoder) : TabCk :=
  match d.code with
  | .prefix cs => let (ts, ok) := buildTables cs; ⟨cs, ts, ok⟩
  | .ans _ => {}

/-- Impl and Spec reads of cluster `cluster` agree on the stream `s` -/
def TabCk.agree (k : TabCk) (cluster : Nat) (s : Bits) : Bool :=
  match k.codes.getD cluster default with
  | .single _ => true
  | .table es =>
    match k.tabs.getD cluster none with
    | none => false
    | some t => sameRead (t.read s) ((PrefixCode.table es).read s)

/-- all clusters agree on `s` -/
def TabCk.agreeAll (k : TabCk) (s : Bits) : Bool :=
  (List.range k.codes.length).all fun c => k.agree c s

/-- the read position `s` of a token of context `c` (and the LZ77 distance cluster when present) -/
def TabCk.atToken (k : TabCk) (d : Decoder) (c : Nat) (s : Bits) : Bool :=
  k.agree (d.clusters.getD c 0) s &&
    (match d.lz77 with | some _ => k.agree d.lzDistCluster s | none => true)

def mm (good : Bool) : String := if good then "" else " impl-spec-mismatch"

def decLoop (d : Decoder) (k : TabCk) (mult total : Nat) :
    List Nat → DState → Bits → List String → Bool → String
  | [], st, s, acc, good =>
    let fin := match d.finalize st with | .ok () => "ok" | .error e => "err:" ++ e.word
    s!"vals={",".intercalate acc.reverse} fin={fin} end={total - s.length}" ++ mm good
  | c :: cs, st, s, acc, good =>
    let good := good && k.atToken d c s
    match d.readVarint st c mult s with
    | .error e => s!"vals={",".intercalate acc.reverse} err={e.word}@{acc.length}" ++ mm good
    | .ok ((v, st1), s1) =>
      decLoop d k mult total cs st1 s1 (s!"{v}@{total - s1.length}" :: acc) good

def rleLoop (d : Decoder) (k : TabCk) (p : Lz77Params) (total : Nat) :
    List Nat → DState → Bits → List String → Bool → String
  | [], _, s, acc, good => s!"toks={",".intercalate acc.reverse} end={total - s.length}" ++ mm good
  | c :: cs, st, s, acc, good =>
    let good := good && k.atToken d c s
    match d.readRle p st (d.clusters.getD c 0) s with
    | .error e => s!"toks={",".intercalate acc.reverse} err={e.word}@{acc.length}" ++ mm good
    | .ok ((t, st1), s1) =>
      let w := match t with | .value v => s!"V{v}" | .rep n => s!"R{n}"
      rleLoop d k p total cs st1 s1 (s!"{w}@{total - s1.length}" :: acc) good

/-- `ptab`: Impl tables against the Spec code on all 2^15 look-aheads -/
def ptabStep (lens : List Nat) : String :=
  match withCodeLengths lens, PrefixCode.ofLengths lens with
  | .error _, .error e => s!"both-err:{e.word}"
  | .error e, .ok _ => s!"impl-spec-mismatch impl=err:{e.word} spec=ok"
  | .ok _, .error e => s!"impl-spec-mismatch impl=ok spec=err:{e.word}"
  | .ok t, .ok c =>
    match firstMismatch t c 0 32768 with
    | none => s!"ok agree=32768 tb={t.toplevelBits} second={t.second.length}"
    | some v => s!"impl-spec-mismatch v={v}"

def decStepCk (ck : Bool) (ws : List String) : String :=
  match ws with
  | "dec" :: nd :: mult :: hex :: _n :: ctxs =>
    (do
      let nd ← nd.toNat?
      let mult ← mult.toNat?
      let bytes ← bytesOfHex hex
      let ctxs ← natList ctxs
      let bits := bytesToBits bytes
      let total := bits.length
      match Decoder.parse nd bits with
      | .error e => pure s!"hdr=err:{e.word}"
      | .ok (d, s1) =>
        let h := s!"hdr=ok:{total - s1.length} st={showSingle d} "
        match d.begin {} s1 with
        | .error e => pure (h ++ s!"begin=err:{e.word}")
        | .ok (st, s2) =>
          let k : TabCk := if ck then TabCk.ofDecoder d else {}
          pure (h ++ decLoop d k mult total ctxs st s2 [] k.built)
      : Option String).getD "bad-op"
  | "rle" :: nd :: hex :: _n :: ctxs =>
    (do
      let nd ← nd.toNat?
      let bytes ← bytesOfHex hex
      let ctxs ← natList ctxs
      let bits := bytesToBits bytes
      let total := bits.length
      match Decoder.parse nd bits with
      | .error e => pure s!"hdr=err:{e.word}"
      | .ok (d, s1) =>
        let h := s!"hdr=ok:{total - s1.length} "
        match d.asRle with
        | none => pure (h ++ "rle=none")
        | some p =>
          match d.begin {} s1 with
          | .error e => pure (h ++ s!"begin=err:{e.word}")
          | .ok (st, s2) =>
            let k : TabCk := if ck then TabCk.ofDecoder d else {}
            pure (h ++ rleLoop d k p total ctxs st s2 [] k.built)
      : Option String).getD "bad-op"
  | ["perm", nd, size, skip, hex] =>
    (do
      let nd ← nd.toNat?
      let size ← size.toNat?
      let skip ← skip.toNat?
      let bytes ← bytesOfHex hex
      let bits := bytesToBits bytes
      let total := bits.length
      match Decoder.parse nd bits with
      | .error e => pure s!"hdr=err:{e.word}"
      | .ok (d, s1) =>
        let h := s!"hdr=ok:{total - s1.length} "
        match d.begin {} s1 with
        | .error e => pure (h ++ s!"begin=err:{e.word}")
        | .ok (st, s2) =>
          let k : TabCk := if ck then TabCk.ofDecoder d else {}
          -- first token of the permutation (context `permContext size`) and every table at `s2`
          let good := k.built && k.atToken d (permContext size) s2 && k.agreeAll s2
          match readPermutation d st size skip s2 with
          | .error e => pure (h ++ s!"perm=err:{e.word}" ++ mm good)
          | .ok ((perm, st1), s3) =>
            let good := good && k.agreeAll s3
            let fin := match d.finalize st1 with | .ok () => "ok" | .error e => "err:" ++ e.word
            pure (h ++ s!"perm=ok:{",".intercalate (perm.map toString)} fin={fin} end={total - s3.length}" ++ mm good)
      : Option String).getD "bad-op"
  | "ptab" :: n :: lens =>
    (do
      let n ← n.toNat?
      let lens ← natList lens
      if lens.length ≠ n then none else pure (ptabStep lens)
      : Option String).getD "bad-op"
  | ["clusters", nd, hex] =>
    (do
      let nd ← nd.toNat?
      let bytes ← bytesOfHex hex
      let bits := bytesToBits bytes
      match readClustersTop nd bits with
      | .error e => pure s!"err:{e.word}"
      | .ok ((n, cl), s1) => pure s!"ok:{n}:{",".intercalate (cl.map toString)} end={bits.length - s1.length}"
      : Option String).getD "bad-op"
  | _ => "bad-op"

/-- `deci` / `rlei` / `permi` = `dec` / `rle` / `perm` with the Impl table reader run next to the Spec
reader (the campaign marks a deterministic share of its lines this way: building the list-based
tables costs tens of milliseconds per line); the plain ops answer the same words without it. -/
def decStep (ws : List String) : String :=
  match ws with
  | "deci" :: r => decStepCk true ("dec" :: r)
  | "rlei" :: r => decStepCk true ("rle" :: r)
  | "permi" :: r => decStepCk true ("perm" :: r)
  | _ => decStepCk false ws

def main : IO Unit := runLoop () fun _ ws => ((), decStep ws)

end Jxl.Driver.C04
