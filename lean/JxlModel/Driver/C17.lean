import JxlModel.Driver.Common
import JxlModel.Model.JpegBits
/-! Line protocol for C17: the same lines `harness/src/bin/c17.rs` understands (`bw`, `ff`, `huff`)
plus model-only queries (`spec`, `status`, `lens`, `jbrdstate`). -/
namespace Jxl.Driver.C17
open Jxl.JpegBits

def hexDigit (c : Char) : Option Nat :=
  if '0' ≤ c ∧ c ≤ '9' then some (c.toNat - '0'.toNat)
  else if 'a' ≤ c ∧ c ≤ 'f' then some (c.toNat - 'a'.toNat + 10)
  else if 'A' ≤ c ∧ c ≤ 'F' then some (c.toNat - 'A'.toNat + 10)
  else none

def hexToNat (s : String) : Option Nat :=
  if s.isEmpty then none
  else s.toList.foldlM (fun acc c => do pure (16 * acc + (← hexDigit c))) 0

def hexBytes (l : List Byte) : String :=
  if l.isEmpty then "-" else String.join (l.map (fun b => b.toHex))

structure St where
  bw : BW
  seen : Nat

def showBW (st : St) : St × String :=
  let new := st.bw.output.drop st.seen
  ({ st with seen := st.bw.output.length },
   s!"buf={st.bw.buf.toHex} valid={st.bw.valid} outlen={st.bw.output.length} new={hexBytes new}")

def fresh : St := { bw := BW.new, seen := 0 }

def parseOp (w : String) : Option Op :=
  match w.splitOn ":" with
  | ["h", b, l] => do pure (.huff (BitVec.ofNat 64 (← hexToNat b)) (← l.toNat?))
  | ["r", b, l] => do pure (.raw (BitVec.ofNat 64 (← hexToNat b)) (← l.toNat?))
  | _ => none

def parseAux : String → Option Aux
  | "D" => some .data
  | "C" => some .decoding
  | "N" => some .notFound
  | _ => none

def parseBool : String → Option Bool
  | "1" => some true
  | "0" => some false
  | _ => none

def parseApp (s : String) : Option (List AppMarker) :=
  if s = "-" then some []
  else (s.splitOn ",").mapM (fun p =>
    match p.splitOn ":" with
    | [t, l] => do pure { ty := (← t.toNat?), length := (← l.toNat?) }
    | _ => none)

def showStatus : Status → String
  | .available => "A"
  | .invalid => "I"
  | .unavailable => "N"
  | .needMoreData => "M"
  | .panic => "panic"

def showAux : Aux → String
  | .data => "D"
  | .decoding => "C"
  | .notFound => "N"

def showOptNat : Option Nat → String
  | some n => toString n
  | none => "panic"

def showTable (t : Table) : String :=
  let entries := (List.range 256).filterMap (fun sym =>
    match lookup t sym with
    | some (len, bits) => some s!" {sym}:{len}:{bits.toHex}"
    | none => none)
  "ok" ++ String.join entries

def step (st : St) (ws : List String) : St × String :=
  match ws with
  | ["bw", "new"] =>
    let (st, s) := showBW fresh
    (st, "ok " ++ s)
  | ["bw", k, bits, len] =>
    match hexToNat bits, len.toNat? with
    | some b, some l =>
      if l ≥ 256 then (st, "bad-op") else
      let r := if k = "h" then some (writeHuffman st.bw (BitVec.ofNat 64 b) l)
               else if k = "r" then some (writeRaw st.bw (BitVec.ofNat 64 b) l) else none
      match r with
      | none => (st, "bad-op")
      | some none => (fresh, "panic")
      | some (some bw) =>
        let (st, s) := showBW { st with bw := bw }
        (st, "ok " ++ s)
    | _, _ => (st, "bad-op")
  | ["bw", "pad"] => (st, s!"ok {paddingBits st.bw}")
  | ["bw", "fin"] => (fresh, "ok " ++ hexBytes (finalize st.bw))
  | ["ff", v] =>
    match hexToNat v with
    | some v => (st, toString (hasFFByte (BitVec.ofNat 64 v)))
    | none => (st, "bad-op")
  | "huff" :: rest =>
    match natList rest with
    | some nums =>
      if nums.length < 17 ∨ nums.any (· ≥ 256) then (st, "bad-op")
      else
        match build (nums.take 17) (nums.drop 17) with
        | none => (st, "panic")
        | some t => (st, showTable t)
    | none => (st, "bad-op")
  | "spec" :: ops =>
    match ops.mapM parseOp with
    | some ops => (st, "ok " ++ hexBytes (spec ops))
    | none => (st, "bad-op")
  | ["lens", app] =>
    match parseApp app with
    | some app =>
      (st, s!"ok={app.all appMarkerOk} icc={showOptNat (expectedIccLen app)} exif={showOptNat (expectedExifLen app)} xmp={showOptNat (expectedXmpLen app)}")
    | none => (st, "bad-op")
  | ["jbrdstate", a, b, c, d] =>
    match parseBool a, parseBool b, parseBool c, parseBool d with
    | some a, some b, some c, some d =>
      let arr : JbrdArrival := { headerParsed := a, finalizedOk := b, lastBox := c, currentIsJbrd := d }
      (st, s!"{showAux (jbrdState arr)} orig={showAux (jbrdStateOrig arr)}")
    | _, _, _, _ => (st, "bad-op")
  | ["status", arrival, app, exif, xml, wantIcc, hasIcc, frames, frame0] =>
    -- arrival = <headerParsed><finalizedOk><lastBox><currentIsJbrd>; exif = E (first_exif is Err) | D | C | N
    let f : Option Facts := do
      let frame0 ← (match frame0 with
        | "-" => some none
        | "11" => some (some (true, true))
        | "10" => some (some (true, false))
        | "01" => some (some (false, true))
        | "00" => some (some (false, false))
        | _ => none)
      let arr ← (match arrival.toList.map (fun c => parseBool (String.ofList [c])) with
        | [some a, some b, some c, some d] =>
          some ({ headerParsed := a, finalizedOk := b, lastBox := c, currentIsJbrd := d } : JbrdArrival)
        | _ => none)
      let (exifErr, exif) ← (match exif with
        | "E" => some (true, Aux.data)
        | e => (parseAux e).map (fun a => (false, a)))
      pure { jbrd := jbrdState arr, app := (← parseApp app), exifErr := exifErr,
             exif := exif, xml := (← parseAux xml), wantIcc := (← parseBool wantIcc),
             hasIcc := (← parseBool hasIcc), loadedFrames := (← frames.toNat?), frame0 := frame0 }
    match f with
    | some f => (st, showStatus (status f))
    | none => (st, "bad-op")
  | _ => (st, "bad-op")

def main : IO Unit := runLoop fresh step

end Jxl.Driver.C17
