import JxlModel.Model.Bits
/-! Line-protocol plumbing shared by all driver components. -/
namespace Jxl.Driver

def words (line : String) : List String :=
  (line.trimAscii.toString.splitOn " ").filter (· ≠ "")

partial def loop {σ : Type} (h : IO.FS.Stream) (out : IO.FS.Stream) (s : σ)
    (step : σ → List String → σ × String) : IO Unit := do
  let line ← h.getLine
  if line.isEmpty then
    out.flush
    return ()
  let (s', o) := step s (words line)
  out.putStrLn o
  loop h out s' step

def runLoop {σ : Type} (s : σ) (step : σ → List String → σ × String) : IO Unit := do
  let i ← IO.getStdin
  let o ← IO.getStdout
  loop i o s step

def natList (ws : List String) : Option (List Nat) := ws.mapM String.toNat?

def intList (ws : List String) : Option (List Int) := ws.mapM String.toInt?

def joinNat (l : List Nat) : String := " ".intercalate (l.map toString)
def joinInt (l : List Int) : String := " ".intercalate (l.map toString)

end Jxl.Driver
