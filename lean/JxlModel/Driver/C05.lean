import JxlModel.Driver.Common
import JxlModel.Model.Blend
/-!
# Driver `c05`: the Spec compositor at `Float32`

```
comp W H CC NEC {AA}*NEC {BITS}*(1+NEC) ANIM N
  { frame TY HAVECROP X0 Y0 W H  MODE ALPHA CLAMP SRC {MODE ALPHA CLAMP SRC}*NEC
          DUR ISLAST SAVEREF SBCT  [patches NP { REF X0 Y0 W H NT { X Y {MODE ALPHA CLAMP}*(1+NEC) }*NT }*NP]
          NCH { w h data*(w*h) }*NCH }*N
```
`AA`: -1 not an alpha channel, 0 straight, 1 premultiplied. `BITS`: colour depth, then one per extra
channel. Channels are the frame's own decoded integer samples (the `enc` answer). The header values
are the *intended* ones; `FrameHdr.asParsed` applies the defaults of uncoded fields.
Answer: `ok NKF { k NCH { w h f32bits*(w*h) }*NCH }*NKF`.
`lazy <same image> orders K {k}*K` runs the Impl state machine (`Impl.renderMany`) over the same
pixel values with stealing on (last colour channel), and answers the requested keyframes in request order.
-/
namespace Jxl.Driver.C05
open Jxl.Blend Jxl.Blend.Px

abbrev P := StateT (List String) Option

def tok : P String := do
  match (← get) with
  | [] => failure
  | t :: r => set r; pure t

def nat : P Nat := do
  match (← tok).toNat? with
  | some n => pure n
  | none => failure

def int : P Int := do
  match (← tok).toInt? with
  | some n => pure n
  | none => failure

def bool : P Bool := do pure ((← nat) != 0)

def kw (s : String) : P Unit := do
  if (← tok) == s then pure () else failure

def rep {α} (n : Nat) (p : P α) : P (List α) :=
  match n with
  | 0 => pure []
  | n + 1 => do
    let a ← p
    let r ← rep n p
    pure (a :: r)

def blendInfo : P BlendInfo := do
  pure { mode := Mode.ofCode (← nat), alpha := (← nat), clamp := (← bool), source := (← nat) }

def patchRef (nec : Nat) : P PatchRef := do
  let ref ← nat
  let x0 ← nat
  let y0 ← nat
  let w ← nat
  let h ← nat
  let nt ← nat
  let targets ← rep nt (do
    let x ← int
    let y ← int
    let infos ← rep (1 + nec) (do
      let m ← nat
      let a ← nat
      let c ← bool
      pure (PatchMode.ofCode m, a, c))
    pure ({ x, y, infos } : PatchTarget))
  pure { ref, x0, y0, w, h, targets }

def frame (img : ImgInfo) (bits : List Nat) (anim : Bool) : P (FrameP Float32) := do
  kw "frame"
  let ty := FrameType.ofCode (← nat)
  let haveCrop ← bool
  let x0 ← int
  let y0 ← int
  let w ← nat
  let h ← nat
  let b ← blendInfo
  let ecb ← rep img.ecAlphaAssoc.length blendInfo
  let dur ← nat
  let isLast ← bool
  let saveRef ← nat
  let sbct ← bool
  -- optional: `patches NP { REF X0 Y0 W H NT { X Y {MODE ALPHA CLAMP}*(1+NEC) }*NT }*NP`
  let patches ← (do
    match (← get) with
    | "patches" :: _ => do
      let _ ← tok
      let np ← nat
      rep np (patchRef img.ecAlphaAssoc.length)
    | _ => pure [])
  let nch ← nat
  let chans ← rep nch (do
    let cw ← nat
    let ch ← nat
    let d ← rep (cw * ch) int
    pure (cw, ch, d.toArray))
  let hdr : FrameHdr := { ty, haveCrop, x0, y0, w, h, blend := b, ecBlend := ecb, duration := dur, isLast,
                          saveAsRef := saveRef, saveBeforeCt := sbct }
  let planes := (List.range chans.length).map fun c =>
    let (cw, ch, d) := chans.getD c (0, 0, #[])
    let bi := if c < img.colorChannels then bits.getD 0 8 else bits.getD (1 + c - img.colorChannels) 8
    (planeOfInts bi cw ch d : Plane Float32)
  pure { frame := { hdr := hdr.asParsed img anim, chans := planes }, patches }

def image : P (ImgInfo × List (FrameP Float32)) := do
  let w ← nat
  let h ← nat
  let cc ← nat
  let nec ← nat
  let aa ← rep nec int
  let bits ← rep (1 + nec) nat
  let anim ← bool
  let n ← nat
  let img : ImgInfo := { w, h, colorChannels := cc,
                         ecAlphaAssoc := aa.map fun a => if a < 0 then none else some (a != 0) }
  let fs ← rep n (frame img bits anim)
  pure (img, fs)

def showPlane (p : Plane Float32) : String :=
  s!"{p.w} {p.h} " ++ " ".intercalate (p.data.toList.map fun v => toString v.toBits.toNat)

def showCanvas (cv : Canvas Float32) : String :=
  s!"k {cv.length} " ++ " ".intercalate (cv.map showPlane)

def run (ws : List String) : String :=
  match ws with
  | "comp" :: rest =>
    match image.run rest with
    | some ((img, fs), []) =>
      let ks := if fs.all (·.patches.isEmpty) then keyframes img (fs.map (·.frame)) else keyframesP img fs
      s!"ok {ks.length} " ++ " ".intercalate (ks.map showCanvas)
    | _ => "bad-op"
  -- the patch-aware fold on any image (the check runs patch-free images through `comp` and `compp`)
  | "compp" :: rest =>
    match image.run rest with
    | some ((img, fs), []) =>
      let ks := keyframesP img fs
      s!"ok {ks.length} " ++ " ".intercalate (ks.map showCanvas)
    | _ => "bad-op"
  | "lazy" :: rest =>
    match (do let i ← image; kw "orders"; let k ← nat; let ks ← rep k nat; pure (i, ks)).run rest with
    | some (((img, fs), ks), []) =>
      let fs := fs.map (·.frame)
      let C := mkCfg img id fs
      -- steal on the last colour channel only: stealing earlier makes every later channel re-render the
      -- base from scratch (as the Rust would), which is exponential in the depth of the reference chain
      let r := Impl.renderMany C (fun _ c => c + 1 == img.colorChannels) ks Impl.St.init
      s!"ok {r.1.length} " ++ " ".intercalate (r.1.map fun
        | none => "kerr"
        | some cv => showCanvas cv)
    | _ => "bad-op"
  -- patch CC NEC {AA}*NEC NPIX {MODE ALPHA CLAMP}*(1+NEC) {f32bits}*((CC+NEC)*NPIX) {f32bits}*((CC+NEC)*NPIX)
  | "patch" :: rest =>
    match (do
      let cc ← nat
      let nec ← nat
      let aa ← rep nec int
      let npix ← nat
      let infos ← rep (1 + nec) (do
        let m ← nat
        let a ← nat
        let c ← bool
        pure (PatchMode.ofCode m, a, c))
      let base ← rep (cc + nec) (rep npix nat)
      let refv ← rep (cc + nec) (rep npix nat)
      pure (cc, aa, npix, infos, base, refv)).run rest with
    | some ((cc, aa, npix, infos, base, refv), []) =>
      let assoc := aa.map fun a => if a < 0 then none else some (a != 0)
      let f := fun (n : Nat) => Float32.ofBits n.toUInt32
      let cols := (List.range npix).map fun i =>
        patchPixel (α := Float32) cc assoc infos (base.map fun ch => f (ch.getD i 0)) (refv.map fun ch => f (ch.getD i 0))
      let chans := (List.range (cc + aa.length)).map fun c =>
        " ".intercalate (cols.map fun px => toString (px.getD c (0 : Float32)).toBits.toNat)
      "ok " ++ " | ".intercalate chans
    | _ => "bad-op"
  | _ => "bad-op"

def main : IO Unit := runLoop () fun _ ws => ((), run ws)

end Jxl.Driver.C05
