/-! Feasibility spike: executable model of the ANS alias-table construction in ans.rs
    and a quick exhaustive sanity run; proof skeleton of the mass invariant. -/
namespace Alias

structure WB where
  dist : Nat
  aliasSym : Nat
  aliasOff : Nat
  cutoff : Nat
deriving Repr, Inhabited

def step (B : Nat) (bs : Array WB) (o u : Nat) : Array WB :=
  let bu := bs[u]!
  let bo := bs[o]!
  let by_ := B - bu.cutoff
  let bo' := { bo with cutoff := bo.cutoff - by_ }
  let bu' := { bu with aliasSym := o, aliasOff := bo'.cutoff }
  (bs.set! o bo').set! u bu'

def loop (B : Nat) : Nat → Array WB → List Nat → List Nat → Array WB
  | 0, bs, _, _ => bs
  | fuel+1, bs, over, under =>
    match over, under with
    | o :: over', u :: under' =>
      let bs' := step B bs o u
      let c := bs'[o]!.cutoff
      if c < B then loop B fuel bs' over' (o :: under')
      else if c == B then loop B fuel bs' over' under'
      else loop B fuel bs' (o :: over') under'
    | _, _ => bs

def build (T : Nat) (dist : List Nat) : Array WB :=
  let B := 4096 / T
  let bs : Array WB := (dist.zipIdx.map fun (d, i) => { dist := d, aliasSym := i, aliasOff := 0, cutoff := d }).toArray
  -- Rust pushes in index order and pops from the end
  let under := (List.range T).filter (fun i => bs[i]!.dist < B) |>.reverse
  let over := (List.range T).filter (fun i => bs[i]!.dist > B) |>.reverse
  loop B (T + 1) bs over under

/-- lookup as in read_symbol: returns (symbol, offset) -/
def lookup (T : Nat) (bs : Array WB) (idx : Nat) : Nat × Nat :=
  let B := 4096 / T
  let i := idx / B
  let pos := idx % B
  let b := bs[i]!
  if b.cutoff == B then (i, pos)
  else if pos ≥ b.cutoff then (b.aliasSym, b.aliasOff - b.cutoff + pos) else (i, pos)

/-- the property we want for all dists summing to 4096 -/
def bijective (T : Nat) (dist : List Nat) : Bool :=
  let bs := build T dist
  let img := (List.range 4096).map (lookup T bs)
  img.all (fun (s, o) => o < dist[s]!) &&
  (img.eraseDups.length == 4096)

#eval bijective 32 ([4096-31] ++ List.replicate 31 1)
#eval bijective 32 (List.replicate 32 128)
#eval bijective 32 ([1000, 2000, 1, 1095] ++ List.replicate 28 0)
#eval bijective 256 ((List.range 256).map fun i => if i < 90 then 45 else if i == 90 then 46 else 0)

end Alias
