use jxl_oxide::{AllocTracker, JxlImage, JxlThreadPool};
fn main() {
    let dir = "/repo/crates/jxl-oxide-tests/tests/fuzz_findings";
    let mut names: Vec<_> = std::fs::read_dir(dir).unwrap().map(|e| e.unwrap().path()).filter(|p| p.extension().map(|e| e=="fuzz").unwrap_or(false)).collect();
    names.sort();
    for p in names {
        let data = std::fs::read(&p).unwrap();
        let r = std::panic::catch_unwind(|| {
            let image = JxlImage::builder().pool(JxlThreadPool::none()).alloc_tracker(AllocTracker::with_limit(128<<20)).read(std::io::Cursor::new(&data));
            match image {
                Ok(image) => {
                    let mut s = format!("read ok {}x{} frames {} kf {}", image.width(), image.height(), image.num_loaded_frames(), image.num_loaded_keyframes());
                    for i in 0..image.num_loaded_frames() { let h = image.frame(i).unwrap().header(); s += &format!(" [{:?} {}x{}]", h.encoding, h.width, h.height); }
                    for k in 0..image.num_loaded_keyframes() {
                        s += &match image.render_frame(k) { Ok(_) => " render-ok".to_string(), Err(e) => format!(" render-err({})", e.to_string().chars().take(40).collect::<String>()) };
                    }
                    s
                }
                Err(e) => format!("read err {}", e.to_string().chars().take(60).collect::<String>()),
            }
        });
        println!("{:40} {:6} {}", p.file_name().unwrap().to_string_lossy(), data.len(), r.unwrap_or_else(|_| "PANIC".into()));
    }
}
