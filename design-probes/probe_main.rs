use jxl_oxide::{AllocTracker, JxlImage, JxlThreadPool};
use jxl_bitstream::{ContainerParser, ParseEvent};

fn container_probe() {
    // container sig + ftyp + 64-bit sized jxlc box with tiny payload
    let mut v = Vec::new();
    v.extend_from_slice(b"\x00\x00\x00\x0cJXL \x0d\x0a\x87\x0a");
    // xlbox "abcd" with payload 3 bytes: size field = 1, type, 8-byte size = 16+3
    v.extend_from_slice(&[0,0,0,1]);
    v.extend_from_slice(b"abcd");
    v.extend_from_slice(&(19u64).to_be_bytes());
    v.extend_from_slice(&[1,2,3]);
    for split in 0..=v.len() {
        let mut p = ContainerParser::new();
        let mut buf: Vec<u8> = Vec::new();
        let mut res = String::new();
        let mut err = false;
        for chunk in [&v[..split], &v[split..]] {
            buf.extend_from_slice(chunk);
            let mut evs = Vec::new();
            for ev in p.feed_bytes(&buf) {
                match ev { Ok(e) => evs.push(format!("{e:?}")), Err(e) => { evs.push(format!("ERR {e}")); err = true; break; } }
            }
            let c = p.previous_consumed_bytes();
            buf.drain(..c);
            res.push_str(&evs.join(","));
            res.push('|');
            if err { break; }
        }
        println!("split {split}: {res}");
    }
}

fn main() {
    let arg = std::env::args().nth(1).unwrap_or_default();
    if arg == "container" { container_probe(); return; }
    let data = std::fs::read("/repo/crates/jxl-oxide-tests/tests/cms/cmyk_layers.jxl").unwrap();
    let limit: usize = std::env::args().nth(2).map(|s| s.parse().unwrap()).unwrap_or(usize::MAX/2);
    let tracker = AllocTracker::with_limit(limit);
    let image = JxlImage::builder().pool(JxlThreadPool::none()).alloc_tracker(tracker.clone()).read(std::io::Cursor::new(&data)).unwrap();
    println!("{:?}", image.image_header().size);
    println!("frames {} keyframes {}", image.num_loaded_frames(), image.num_loaded_keyframes());
    for i in 0..image.num_loaded_frames() {
        let f = image.frame(i).unwrap();
        let h = f.header();
        println!("frame {i}: type {:?} enc {:?} {}x{} @({},{}) blend {:?} save_as_ref {} dur {} is_last {} ec_blend {:?}", h.frame_type, h.encoding, h.width, h.height, h.x0, h.y0, h.blending_info, h.save_as_reference, h.duration, h.is_last, h.ec_blending_info.len());
    }
    for attempt in 0..3 {
        let t = std::time::Instant::now();
        let r = image.render_frame(0);
        println!("attempt {attempt}: {:?} in {:?}", r.as_ref().map(|_| "ok").map_err(|e| e.to_string()), t.elapsed());
        if attempt == 0 { tracker.expand_limit(1<<40); }
    }
}
