class BW:
    def __init__(self): self.bits=[]
    def u(self,n,v):
        for i in range(n): self.bits.append((v>>i)&1)
    def pad(self):
        while len(self.bits)%8: self.bits.append(0)
    def bytes(self):
        self.pad(); out=bytearray()
        for i in range(0,len(self.bits),8):
            b=0
            for j in range(8): b|=self.bits[i+j]<<j
            out.append(b)
        return bytes(out)
def frame_wh_overflow():
    w=BW()
    w.u(16,0x0aff)
    # SizeHeader
    w.u(1,0)            # div8
    w.u(2,0); w.u(9,7)  # height=8
    w.u(3,1)            # ratio=1 -> width=height
    w.u(1,1)            # metadata all_default
    w.u(1,1)            # default_m  (ImageMetadata.default_m: ty(Bool)) 
    w.pad()
    # Frame header
    w.pad()
    w.u(1,0)  # all_default
    w.u(2,0)  # frame_type regular
    w.u(1,1)  # modular
    w.u(2,0)  # flags U64=0
    # do_ycbcr skipped since xyb_encoded
    w.u(2,0)  # upsampling=1
    w.u(2,3)  # group_size_shift=3
    w.u(2,0)  # passes.num_passes=1
    w.u(1,1)  # have_crop
    w.u(2,0); w.u(8,0) # x0
    w.u(2,0); w.u(8,0) # y0
    w.u(2,3); w.u(30,65536-18688) # width
    w.u(2,3); w.u(30,65536-18688) # height
    w.u(2,0)  # blend mode replace
    w.u(1,1)  # is_last
    w.u(2,0)  # name len 0
    w.u(1,1)  # restoration filter all_default
    w.u(2,0)  # extensions
    # TOC
    ngroups=(65536//1024)**2; nlf=(65536//8192)**2
    n=1+nlf+1+ngroups
    w.u(1,0) # not permuted
    w.pad()
    for _ in range(n): w.u(2,0); w.u(10,0)
    w.pad()
    return w.bytes()
open('inputs/frame_wh_overflow.jxl','wb').write(frame_wh_overflow())

def xyb_enum_header():
    w=BW()
    w.u(16,0x0aff)
    w.u(1,0); w.u(2,0); w.u(9,7); w.u(3,1)   # 8x8
    w.u(1,0)   # metadata all_default = false
    w.u(1,0)   # extra_fields
    w.u(1,0); w.u(2,0)  # bit_depth int 8
    w.u(1,1)   # modular_16bit_buffers
    w.u(2,0)   # num_extra 0
    w.u(1,1)   # xyb_encoded
    w.u(1,0)   # colour_encoding all_default false
    w.u(1,0)   # want_icc
    w.u(2,2); w.u(4,0)  # colour_space = 2 (xyb)
    w.u(1,0)   # has_gamma
    w.u(2,2); w.u(4,11) # tf=13
    w.u(2,1)   # intent=1
    w.u(2,0)   # extensions
    w.u(1,1)   # default_m
    w.pad()
    # frame: all default -> VarDCT regular frame 8x8, is_last
    w.u(1,1)
    # TOC single entry
    w.u(1,0); w.pad(); w.u(2,0); w.u(10,0); w.pad()
    return w.bytes()
open('inputs/xyb_enum.jxl','wb').write(xyb_enum_header())

def box(ty, payload):
    import struct
    return struct.pack('>I', 8+len(payload)) + ty + payload
def jbrd_underflow():
    w=BW()
    w.u(1,0)            # is_gray
    w.u(6,0xe2-0xc0)    # APP2
    w.u(6,0xd9-0xc0)    # EOI
    w.u(2,1)            # app marker ty=1 (ICC)
    w.u(16,0)           # length = 1
    w.u(2,0)            # num_quant_tables=1
    w.u(1,0); w.u(2,0); w.u(1,1)
    w.u(2,0)            # comp_type 0
    w.u(2,0)            # q_idx
    w.u(2,0)            # num_huff=4
    for _ in range(4):
        w.u(1,0); w.u(2,0); w.u(1,0)
        for _ in range(17): w.u(2,0)
    w.u(2,0)            # tail_data_length 0
    w.u(1,0)            # has_padding
    hdr=w.bytes()
    payload=hdr+b'\x06'
    cs=open('inputs/xyb_enum.jxl','rb').read()
    out=b"\x00\x00\x00\x0cJXL \x0d\x0a\x87\x0a"+box(b'ftyp', b'jxl \x00\x00\x00\x00jxl ')+box(b'jbrd',payload)+box(b'jxlc',cs)
    return out
open('inputs/jbrd_underflow.jxl','wb').write(jbrd_underflow())
