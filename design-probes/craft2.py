import sys, random
sys.path.insert(0,'.')
from craft import BW

def image_header(w, width, height, bits=8, orientation=1):
    w.u(16,0x0aff)
    w.u(1,0)
    # height: U32(1+u(9),1+u(13),1+u(18),1+u(30))
    w.u(2,0); w.u(9,height-1)
    w.u(3,0)  # ratio 0 -> explicit width
    w.u(2,0); w.u(9,width-1)
    w.u(1,0)   # all_default false
    extra = orientation != 1
    w.u(1,1 if extra else 0)   # extra_fields
    if extra:
        w.u(3,orientation-1)
        w.u(1,0); w.u(1,0); w.u(1,0)  # intr size, preview, animation
    # bit depth
    w.u(1,0)
    if bits==8: w.u(2,0)
    elif bits==10: w.u(2,1)
    elif bits==12: w.u(2,2)
    else: w.u(2,3); w.u(6,bits-1)
    w.u(1,1 if bits<=12 else 0)   # modular_16bit_buffers
    w.u(2,0)   # num_extra 0
    w.u(1,0)   # xyb_encoded = false
    w.u(1,1)   # colour_encoding all_default (sRGB)
    if extra:
        w.u(1,1)  # tone_mapping all_default
    w.u(2,0)   # extensions
    w.u(1,1)   # default_m
    w.pad()

def frame_header(w):
    w.u(1,0)  # all_default
    w.u(2,0)  # regular
    w.u(1,1)  # modular
    w.u(2,0)  # flags
    w.u(1,0)  # do_ycbcr
    w.u(2,0)  # upsampling
    w.u(2,1)  # group_size_shift
    w.u(2,0)  # num_passes = 1
    w.u(1,0)  # have_crop
    w.u(2,0)  # blend mode replace
    w.u(1,1)  # is_last
    w.u(2,0)  # name
    w.u(1,0)  # restoration all_default = false
    w.u(1,0)  # gab disabled
    w.u(2,0)  # epf iters 0
    w.u(2,0)  # rf extensions
    w.u(2,0)  # extensions

def section(pixels, width, height, nch=3):
    s=BW()
    s.u(1,1)   # lf_dequant all_default
    s.u(1,1)   # global tree present
    # tree decoder: Decoder::parse(6)
    s.u(1,0)   # lz77 disabled
    s.u(1,1); s.u(2,0)  # simple clustering nbits=0
    s.u(1,1)   # use prefix code
    s.u(4,15)  # split_exponent = 15
    s.u(1,0)   # count = 1  (alphabet size 1)
    # tree symbols: all zero-bit
    # sample decoder: Decoder::parse(1)
    s.u(1,0)   # lz77
    # num_dist == 1 -> no cluster bits
    s.u(1,1)   # prefix
    s.u(4,15)
    s.u(1,1); s.u(4,1); s.u(1,0)   # count = 1 + 2 + 0 = 3
    s.u(2,1)   # hskip=1 simple
    s.u(2,1)   # nsym=2
    s.u(2,0); s.u(2,2)
    # modular header
    s.u(1,1)   # use_global_tree
    s.u(1,1)   # default_wp
    s.u(2,0)   # nb_transforms 0
    for c in range(nch):
        for y in range(height):
            for x in range(width):
                s.u(1, pixels[c][y][x])
    return s.bytes()

def make(width=8,height=8,seed=1,orientation=1):
    random.seed(seed)
    pixels=[[[random.randint(0,1) for x in range(width)] for y in range(height)] for c in range(3)]
    sec=section(pixels,width,height)
    w=BW()
    image_header(w,width,height,orientation=orientation)
    frame_header(w)
    w.u(1,0); w.pad()
    n=len(sec)
    assert n<1024
    w.u(2,0); w.u(10,n)
    w.pad()
    return w.bytes()+sec, pixels
if __name__=='__main__':
    data,px=make(int(sys.argv[1]),int(sys.argv[2]),int(sys.argv[3]), int(sys.argv[4]) if len(sys.argv)>4 else 1)
    open('inputs/mod_min.jxl','wb').write(data)
    import json; json.dump(px,open('inputs/mod_min.json','w'))
