use jxl_oxide::{CropInfo, JxlImage, JxlThreadPool};
fn main() {
    let data = std::fs::read("/repo/crates/jxl-oxide-tests/tests/cms/cmyk_layers.jxl").unwrap();
    let mut image = JxlImage::builder().pool(JxlThreadPool::none()).read(std::io::Cursor::new(&data)).unwrap();
    let w = image.width(); let h = image.height();
    let full = image.render_frame(0).unwrap().image_all_channels();
    println!("full {}x{}x{}", full.width(), full.height(), full.channels());
    let mut seed = 12345u64;
    let mut rnd = |m: u32| { seed = seed.wrapping_mul(6364136223846793005).wrapping_add(1442695040888963407); ((seed >> 33) as u32) % m };
    let mut worst = 0f32;
    for it in 0..40 {
        let l = rnd(w); let t = rnd(h);
        let cw = 1 + rnd(w - l); let ch = 1 + rnd(h - t);
        image.set_image_region(CropInfo { left: l, top: t, width: cw, height: ch });
        let r = image.render_frame(0).unwrap().image_all_channels();
        assert_eq!((r.width(), r.height()), (cw as usize, ch as usize));
        let c = full.channels();
        let mut maxd = 0f32;
        for y in 0..ch as usize { for x in 0..cw as usize { for k in 0..c {
            let a = r.buf()[(y * cw as usize + x) * c + k];
            let b = full.buf()[((y + t as usize) * w as usize + x + l as usize) * c + k];
            let d = (a - b).abs(); if d > maxd { maxd = d; }
        }}}
        if maxd > worst { worst = maxd; }
        if maxd > 1e-6 { println!("iter {it}: region ({l},{t},{cw},{ch}) maxdiff {maxd}"); }
    }
    image.set_image_region(CropInfo { left: 0, top: 0, width: w, height: h });
    let again = image.render_frame(0).unwrap().image_all_channels();
    let same = again.buf().iter().zip(full.buf()).all(|(a, b)| a.to_bits() == b.to_bits());
    println!("worst crop diff {worst}; full-again bit-identical: {same}");
}
