/-! Feasibility spike: bit reader over List Bool, fixed-width read/write round trip, U32 with selector choice. -/

namespace Spike

abbrev Bits := List Bool

/-- little-endian bits of `v`, `n` of them -/
def toBits : Nat → Nat → Bits
  | 0, _ => []
  | n+1, v => (v % 2 == 1) :: toBits n (v / 2)

def ofBits : Bits → Nat
  | [] => 0
  | b :: bs => (if b then 1 else 0) + 2 * ofBits bs

def readBits (n : Nat) (s : Bits) : Option (Nat × Bits) :=
  if n ≤ s.length then some (ofBits (s.take n), s.drop n) else none

theorem toBits_length (n v : Nat) : (toBits n v).length = n := by
  induction n generalizing v with
  | zero => rfl
  | succ n ih => simp [toBits, ih]

theorem ofBits_toBits (n v : Nat) (h : v < 2 ^ n) : ofBits (toBits n v) = v := by
  induction n generalizing v with
  | zero => simp [toBits, ofBits] at *; omega
  | succ n ih =>
    simp only [toBits, ofBits]
    have h2 : v / 2 < 2 ^ n := by
      rw [Nat.pow_succ] at h; omega
    rw [ih _ h2]
    by_cases hv : v % 2 = 1 <;> simp [hv] <;> omega

theorem readBits_toBits (n v : Nat) (rest : Bits) (h : v < 2 ^ n) :
    readBits n (toBits n v ++ rest) = some (v, rest) := by
  unfold readBits
  have hl := toBits_length n v
  simp [hl, List.take_append_of_le_length, List.drop_append_of_le_length, ofBits_toBits n v h]

/-- U32 distribution: constant or offset+bits -/
inductive Dist | const (c : Nat) | bits (off n : Nat)

def Dist.reads (d : Dist) (s : Bits) : Option (Nat × Bits) :=
  match d with
  | .const c => some (c, s)
  | .bits off n => (readBits n s).map fun (v, r) => ((v + off) % 2^32, r)

def Dist.canWrite (d : Dist) (v : Nat) : Bool :=
  match d with
  | .const c => v == c
  | .bits off n => off ≤ v && v - off < 2 ^ n && v < 2^32

def Dist.write (d : Dist) (v : Nat) : Bits :=
  match d with
  | .const _ => []
  | .bits off n => toBits n (v - off)

structure U32 where (d0 d1 d2 d3 : Dist)

def U32.sel (u : U32) : Nat → Dist
  | 0 => u.d0 | 1 => u.d1 | 2 => u.d2 | _ => u.d3

def U32.read (u : U32) (s : Bits) : Option (Nat × Bits) :=
  match readBits 2 s with
  | none => none
  | some (k, r) => (u.sel k).reads r

def U32.write (u : U32) (k : Nat) (v : Nat) : Bits := toBits 2 k ++ (u.sel k).write v

theorem U32.roundtrip (u : U32) (k v : Nat) (rest : Bits) (hk : k < 4)
    (hw : (u.sel k).canWrite v = true) :
    u.read (u.write k v ++ rest) = some (v, rest) := by
  unfold U32.read U32.write
  rw [List.append_assoc, readBits_toBits 2 k _ (by omega)]
  simp only
  cases hd : u.sel k with
  | const c => simp [Dist.canWrite, hd] at hw; simp [Dist.reads, Dist.write, hw]
  | bits off n =>
    simp [Dist.canWrite, hd] at hw
    obtain ⟨⟨h1, h2⟩, h3⟩ := hw
    simp only [Dist.reads, Dist.write]
    rw [readBits_toBits n (v - off) rest h2]
    simp
    rw [Nat.sub_add_cancel h1]; exact Nat.mod_eq_of_lt h3

end Spike
