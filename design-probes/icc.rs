fn main() {
    let mut s = vec![0xC8u8, 0x01, 0x01, 0x01];
    s.extend(std::iter::repeat(0u8).take(128));
    let r = jxl_color::icc::decode_icc(&s);
    match r { Ok(v) => println!("Ok len {} (declared 200)", v.len()), Err(e) => println!("Err {e}") }
}
