import Mathlib.Analysis.SpecialFunctions.Trigonometric.Basic

theorem prod_to_sum (a b : ℝ) : 2 * Real.cos a * Real.cos b = Real.cos (a + b) + Real.cos (a - b) := by
  rw [Real.cos_add, Real.cos_sub]; ring

theorem cos_odd_half_pi (k : ℕ) : Real.cos ((2 * (k:ℝ) + 1) * Real.pi / 2) = 0 := by
  have : (2 * (k:ℝ) + 1) * Real.pi / 2 = (2 * (k:ℤ) + 1) * Real.pi / 2 := by push_cast; ring
  rw [this]
  exact Real.cos_eq_zero_iff.mpr ⟨k, by push_cast; ring⟩
