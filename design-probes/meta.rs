use jxl_oxide::{AllocTracker, JxlImage, JxlThreadPool};
fn main() {
    let path = std::env::args().nth(1).unwrap();
    let data = std::fs::read(path).unwrap();
    let image = JxlImage::builder().pool(JxlThreadPool::none()).alloc_tracker(AllocTracker::with_limit(128<<20)).read(std::io::Cursor::new(&data));
    match image {
        Ok(image) => {
            println!("read ok: frames {} {:?}", image.num_loaded_frames(), image.image_header().metadata.colour_encoding);
            println!("pixfmt {:?} cicp {:?}", image.pixel_format(), image.rendered_cicp());
            println!("icc len {}", image.rendered_icc().len());
        }
        Err(e) => println!("read err: {e}"),
    }
}
