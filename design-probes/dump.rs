use jxl_oxide::{JxlImage, JxlThreadPool};
fn main() {
    let path = std::env::args().nth(1).unwrap();
    let data = std::fs::read(path).unwrap();
    let image = JxlImage::builder().pool(JxlThreadPool::none()).read(std::io::Cursor::new(&data)).unwrap();
    println!("{}x{} frames {}", image.width(), image.height(), image.num_loaded_frames());
    let r = image.render_frame(0).unwrap();
    let planes = r.image_planar();
    for p in &planes {
        let v: Vec<i32> = p.buf().iter().map(|f| (f*255.0).round() as i32).collect();
        println!("{} {} {:?}", p.width(), p.height(), v);
    }
}
