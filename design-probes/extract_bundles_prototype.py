import re, sys, glob
def find_blocks(src):
    out=[]
    i=0
    while True:
        m=re.search(r'define_bundle!\s*\{', src[i:])
        if not m: break
        start=i+m.end()
        depth=1; j=start
        while depth:
            c=src[j]
            if c=='{': depth+=1
            elif c=='}': depth-=1
            j+=1
        out.append(src[start:j-1]); i=j
    return out
def split_top(s, sep=','):
    parts=[]; depth=0; cur=''
    for c in s:
        if c in '([{': depth+=1
        if c in ')]}': depth-=1
        if c==sep and depth==0: parts.append(cur); cur=''
        else: cur+=c
    if cur.strip(): parts.append(cur)
    return parts
def strip_comments(s):
    s=re.sub(r'//[^\n]*','',s)
    s=re.sub(r'#\[[^\]]*\]','',s)
    return s
def parse_struct(body):
    # returns list of structs: (name, header, fields)
    body=strip_comments(body)
    res=[]
    i=0
    while True:
        m=re.search(r'(pub\s+)?struct\s+(\w+)([^{]*)\{', body[i:])
        if not m: break
        name=m.group(2); hdr=m.group(3).strip()
        start=i+m.end(); depth=1; j=start
        while depth:
            c=body[j]
            if c=='{': depth+=1
            elif c=='}': depth-=1
            j+=1
        fields=[]
        for f in split_top(body[start:j-1]):
            f=f.strip()
            if not f: continue
            fm=re.match(r'(pub\s+)?(\w+)\s*:\s*(.*)$', f, re.S)
            fname=fm.group(2); rest=fm.group(3)
            attrs={}
            k=0
            while k<len(rest):
                am=re.match(r'\s*(ty|ctx|cond|default)\s*\(', rest[k:])
                if not am: break
                key=am.group(1); s0=k+am.end(); d=1; e=s0
                while d:
                    if rest[e]=='(': d+=1
                    elif rest[e]==')': d-=1
                    e+=1
                attrs[key]=' '.join(rest[s0:e-1].split()); k=e
            fields.append((fname,attrs))
        res.append((name,hdr,fields)); i=j
    return res
total=0
for path in sorted(glob.glob('/repo/crates/*/src/**/*.rs', recursive=True)):
    src=open(path).read()
    for blk in find_blocks(src):
        for name,hdr,fields in parse_struct(blk):
            total+=len(fields)
            print(f"== {path.split('/crates/')[1]} :: {name} [{hdr}] {len(fields)} fields")
            if name in ('SizeHeader','BlendingInfo'):
                for fn,a in fields: print('   ',fn,a)
print('total fields',total)
