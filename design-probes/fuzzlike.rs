use jxl_oxide::{AllocTracker, JxlImage, JxlThreadPool};
fn main() {
    let path = std::env::args().nth(1).unwrap();
    let data = std::fs::read(path).unwrap();
    let image = JxlImage::builder().pool(JxlThreadPool::none()).alloc_tracker(AllocTracker::with_limit(128<<20)).read(std::io::Cursor::new(&data));
    match image {
        Ok(image) => {
            println!("read ok: frames {} keyframes {} size {:?}", image.num_loaded_frames(), image.num_loaded_keyframes(), image.image_header().size);
            println!("jbr status {:?}", image.jpeg_reconstruction_status());
            for k in 0..image.num_loaded_keyframes() {
                let r = image.render_frame(k);
                println!("render {k}: {:?}", r.as_ref().map(|_| "ok").map_err(|e| e.to_string()));
            }
        }
        Err(e) => println!("read err: {e}"),
    }
}
