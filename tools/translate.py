#!/usr/bin/env python3
"""Rust source -> Lean.  Regenerates lean/JxlModel/Gen/*.lean from the CURRENT tree of the code
under study (vlib.REPO).  Output is deterministic.  Anything the translator does not understand
makes it FAIL LOUDLY (TranslateError naming file:line) - it never skips silently.

Layout (so that other components can add extractors):
  * generic Rust helpers: `strip_source`, `find_matching`, `tokenize`, `ExprParser` (a
    recursive-descent parser for the expression subset used in `cond(..)`, `default(..)`,
    lengths, `ctx(..)` and small helper functions), `find_impls`/`find_fns`/`find_consts`,
    `find_enums`, `f32_bits`;
  * Lean emitters: `lean_expr`, `lean_str`, `lean_list`;
  * one *extractor* per generated module, registered in `OUTPUTS`
    (name -> function(repo) -> Lean source text).  Add yours there.

Usage:  translate.py [--repo PATH] [--pin] [MODULE ...]
  default: every module of OUTPUTS is written to lean/JxlModel/Gen/<MODULE>.lean
  --pin:   additionally writes the pinned snapshot(s) (lean/JxlModel/Model/<MODULE>Pinned.lean,
           namespace ...Pinned) that the executable model is built from; a property theorem
           states that the regenerated description equals the pinned one.
"""
import hashlib, os, re, struct, sys
from fractions import Fraction

VERIF = os.path.dirname(os.path.dirname(os.path.abspath(__file__)))


class TranslateError(Exception):
    pass


def fail(path, line, msg):
    raise TranslateError(f"translate.py: cannot translate {path}:{line}: {msg}")


# ------------------------------------------------------------------------------------------
# Rust source helpers
# ------------------------------------------------------------------------------------------

def strip_source(src):
    """comments -> spaces, string literal contents -> removed (quotes kept), attributes
    `#[..]` -> spaces; newlines are preserved so that offsets still give line numbers"""
    out = []
    i, n = 0, len(src)
    while i < n:
        c = src[i]
        if src.startswith("//", i):
            j = src.find("\n", i)
            j = n if j < 0 else j
            out.append(" " * (j - i))
            i = j
        elif src.startswith("/*", i):
            j = src.find("*/", i + 2)
            j = n if j < 0 else j + 2
            out.append("".join(ch if ch == "\n" else " " for ch in src[i:j]))
            i = j
        elif c == '"':
            j = i + 1
            while j < n and src[j] != '"':
                j += 2 if src[j] == "\\" else 1
            body = src[i + 1:j]
            out.append('"' + "".join(ch if ch == "\n" else " " for ch in body) + '"')
            i = j + 1
        elif c == "'" and i + 2 < n and (src[i + 2] == "'" or (src[i + 1] == "\\" and src.find("'", i + 2) - i <= 4)):
            j = src.find("'", i + 2 if src[i + 1] == "\\" else i + 1)
            out.append("' '" + " " * (j - i - 2))
            i = j + 1
        elif src.startswith("#[", i) or src.startswith("#![", i):
            j = find_matching(src, src.find("[", i), "[", "]")
            out.append("".join(ch if ch == "\n" else " " for ch in src[i:j + 1]))
            i = j + 1
        else:
            out.append(c)
            i += 1
    return "".join(out)


def find_matching(s, i, open_c, close_c):
    """index of the bracket matching s[i] == open_c"""
    assert s[i] == open_c, (s[i:i + 20], open_c)
    depth = 0
    for j in range(i, len(s)):
        if s[j] == open_c:
            depth += 1
        elif s[j] == close_c:
            depth -= 1
            if depth == 0:
                return j
    raise TranslateError("unbalanced " + open_c)


def line_of(s, i):
    return s.count("\n", 0, i) + 1


class Source:
    def __init__(self, repo, rel):
        self.rel = rel
        self.path = os.path.join(repo, "crates", rel)
        if not os.path.exists(self.path):
            raise TranslateError(f"translate.py: source file disappeared: {self.path}")
        self.raw = open(self.path).read()
        self.text = strip_source(self.raw)

    def line(self, i):
        return line_of(self.text, i)


TOKEN_RE = re.compile(r"""
    (?P<ws>\s+)
  | (?P<float>\d[\d_]*\.\d[\d_]*(?:[eE][+-]?\d+)?(?:_?f32|_?f64)?|\d[\d_]*[eE][+-]?\d+(?:_?f32|_?f64)?|\d[\d_]*(?:_?f32|_?f64))
  | (?P<int>0x[0-9a-fA-F_]+(?:[iu](?:8|16|32|64|size))?|0b[01_]+(?:[iu](?:8|16|32|64|size))?|\d[\d_]*(?:[iu](?:8|16|32|64|size))?)
  | (?P<ident>[A-Za-z_][A-Za-z0-9_]*)
  | (?P<str>"[^"]*")
  | (?P<punct>::|->|=>|==|!=|<=|>=|&&|\|\||<<|>>|\.\.=|\.\.|[-+*/%!&|^<>=.,;:(){}\[\]?#'])
""", re.X)


def tokenize(text, path="?", line0=1):
    """-> list of (kind, value, line)"""
    toks, i, line = [], 0, line0
    while i < len(text):
        m = TOKEN_RE.match(text, i)
        if not m:
            fail(path, line, f"unexpected character {text[i]!r}")
        kind = m.lastgroup
        val = m.group(kind)
        if kind != "ws":
            toks.append((kind, val, line))
        line += val.count("\n")
        i = m.end()
    return toks


def f32_bits(text_or_fraction):
    """bits of the f32 nearest (ties to even) to the exact decimal value - what rustc does for
    an f32 literal"""
    x = text_or_fraction if isinstance(text_or_fraction, Fraction) else Fraction(text_or_fraction)
    if x == 0:
        return 0
    sign = 0x80000000 if x < 0 else 0
    x = abs(x)
    # candidate through double rounding, then fix up exactly
    b = struct.unpack("<I", struct.pack("<f", float(x)))[0]
    best = None
    for cand in (b - 1, b, b + 1):
        if cand < 0 or cand >= 0x7f800000:
            continue
        v = Fraction(struct.unpack("<f", struct.pack("<I", cand))[0])
        d = abs(v - x)
        key = (d, cand & 1)
        if best is None or key < best[0]:
            best = (key, cand)
    return sign | best[1]


def f32_value(bits):
    return Fraction(struct.unpack("<f", struct.pack("<I", bits))[0])


def f32_op(op, a_bits, b_bits, path, line):
    """one IEEE f32 operation on finite operands, correctly rounded (exact rational + rounding)"""
    a, b = f32_value(a_bits), f32_value(b_bits)
    if op == "+":
        r = a + b
    elif op == "-":
        r = a - b
    elif op == "*":
        r = a * b
    elif op == "/":
        if b == 0:
            fail(path, line, "float division by zero in a constant")
        r = a / b
    else:
        fail(path, line, f"float operator {op}")
    if r == 0:
        return 0
    return f32_bits(r)


# ---- items ---------------------------------------------------------------------------------

IMPL_RE = re.compile(r"\bimpl\b\s*(?:<[^{};]*?>\s*)?(?:(?P<trait>[A-Za-z_][\w:]*(?:<[^{};]*?>)?)\s+for\s+)?(?P<ty>[A-Za-z_][\w:]*)(?:<[^{};]*?>)?\s*(?:where[^{]*)?\{")


def find_impls(src):
    """-> list of dict(trait, ty, start, end) for `impl [Trait for] Ty { .. }` blocks"""
    res = []
    for m in IMPL_RE.finditer(src.text):
        ob = m.end() - 1
        cb = find_matching(src.text, ob, "{", "}")
        res.append({"trait": m.group("trait"), "ty": m.group("ty").split("::")[-1], "start": ob + 1, "end": cb,
                    "line": src.line(m.start())})
    return res


FN_RE = re.compile(r"\bfn\s+(?P<name>\w+)\s*(?:<[^(){}]*?>\s*)?\(")


def find_fns(src, start, end):
    """functions directly inside text[start:end] -> dict name -> (params, body_text, body_line, full_text)"""
    res = {}
    i = start
    while True:
        m = FN_RE.search(src.text, i, end)
        if not m:
            break
        op = m.end() - 1
        cp = find_matching(src.text, op, "(", ")")
        ob = src.text.find("{", cp)
        semi = src.text.find(";", cp)
        if ob < 0 or (0 <= semi < ob):
            i = cp
            continue
        cb = find_matching(src.text, ob, "{", "}")
        params = []
        for p in split_top(src.text[op + 1:cp]):
            p = p.strip()
            if not p:
                continue
            if p in ("self", "&self", "&mut self", "mut self"):
                params.append("self")
            else:
                pm = re.match(r"(?:mut\s+)?(\w+)\s*:", p)
                if not pm:
                    fail(src.rel, src.line(op), f"parameter pattern {p!r}")
                params.append(pm.group(1))
        res[m.group("name")] = (params, src.text[ob + 1:cb], src.line(ob), src.text[m.start():cb + 1])
        i = cb + 1
    return res


CONST_RE = re.compile(r"\bconst\s+(?P<name>[A-Z_][A-Z0-9_]*)\s*:\s*(?P<ty>(?:\[[^\]]*\]|[^=;\[])+?)=")


def find_consts(src, start, end):
    res = {}
    for m in CONST_RE.finditer(src.text, start, end):
        semi = m.end()
        depth = 0
        while semi < end and not (src.text[semi] == ";" and depth == 0):
            if src.text[semi] in "([{":
                depth += 1
            elif src.text[semi] in ")]}":
                depth -= 1
            semi += 1
        res[m.group("name")] = (m.group("ty").strip(), src.text[m.end():semi], src.line(m.end()))
    return res


ENUM_RE = re.compile(r"\benum\s+(?P<name>\w+)\s*\{")


def find_enums(src):
    """-> name -> list of (variant, discriminant) with Rust's implicit numbering"""
    res = {}
    for m in ENUM_RE.finditer(src.text):
        ob = m.end() - 1
        cb = find_matching(src.text, ob, "{", "}")
        nxt, variants = 0, []
        for part in split_top(src.text[ob + 1:cb]):
            part = part.strip()
            if not part:
                continue
            vm = re.match(r"(\w+)\s*(?:\{.*\}|\(.*\))?\s*(?:=\s*(\S+))?$", part, re.S)
            if not vm:
                fail(src.rel, src.line(ob), f"enum variant {part!r}")
            if vm.group(2) is not None:
                nxt = int(vm.group(2).replace("_", ""), 0)
            variants.append((vm.group(1), nxt))
            nxt += 1
        res[m.group("name")] = variants
    return res


def split_top(s, sep=","):
    parts, depth, cur = [], 0, ""
    for c in s:
        if c in "([{":
            depth += 1
        if c in ")]}":
            depth -= 1
        if c == sep and depth == 0:
            parts.append(cur)
            cur = ""
        else:
            cur += c
    if cur.strip():
        parts.append(cur)
    return parts


def norm_hash(text):
    return hashlib.sha256(" ".join(text.split()).encode()).hexdigest()[:16]


# ------------------------------------------------------------------------------------------
# expression parser (Rust subset) -> AST tuples
# ------------------------------------------------------------------------------------------

class ExprParser:
    def __init__(self, toks, path):
        self.t, self.i, self.path = toks, 0, path

    def line(self):
        return self.t[min(self.i, len(self.t) - 1)][2] if self.t else 0

    def peek(self, k=0):
        return self.t[self.i + k][1] if self.i + k < len(self.t) else None

    def kind(self, k=0):
        return self.t[self.i + k][0] if self.i + k < len(self.t) else None

    def eat(self, v=None):
        if self.i >= len(self.t):
            fail(self.path, self.line(), f"unexpected end, wanted {v!r}")
        tok = self.t[self.i]
        if v is not None and tok[1] != v:
            fail(self.path, tok[2], f"expected {v!r}, found {tok[1]!r}")
        self.i += 1
        return tok[1]

    def at_end(self):
        return self.i >= len(self.t)

    # statements / blocks -----------------------------------------------------------------
    def block_body(self):
        """contents of `{ .. }` (after the brace): -> ('block', stmts, final_expr)"""
        stmts = []
        while True:
            if self.peek() == "}" or self.at_end():
                fail(self.path, self.line(), "block without a final expression")
            if self.peek() == "let":
                self.eat("let")
                pat = self.pattern_let()
                if self.peek() == ":":
                    self.eat(":")
                    self.skip_type()
                self.eat("=")
                e = self.expr()
                self.eat(";")
                stmts.append(("let", pat, e))
                continue
            if self.peek() == "if":
                save = self.i
                self.eat("if")
                c = self.expr(no_struct=True)
                self.eat("{")
                if self.peek() == "return":
                    self.eat("return")
                    r = self.expr()
                    if self.peek() == ";":
                        self.eat(";")
                    self.eat("}")
                    if self.peek() != "else":
                        stmts.append(("ifret", c, r))
                        continue
                self.i = save
            e = self.expr()
            if self.peek() == ";":
                fail(self.path, self.line(), "expression statement (side effects are not supported)")
            return ("block", stmts, e)

    def pattern_let(self):
        if self.peek() == "mut":
            self.eat()
        if self.kind() == "ident" and self.peek(1) == "{":
            self.eat()
            self.eat("{")
            names = []
            while self.peek() != "}":
                if self.peek() == "..":
                    self.eat()
                else:
                    if self.peek() == "mut":
                        self.eat()
                    n = self.eat()
                    if self.peek() == ":":
                        fail(self.path, self.line(), "renaming struct pattern")
                    names.append(n)
                if self.peek() == ",":
                    self.eat()
            self.eat("}")
            return ("destruct", names)
        if self.kind() != "ident":
            fail(self.path, self.line(), f"let pattern {self.peek()!r}")
        return ("name", self.eat())

    def skip_type(self):
        depth = 0
        while not self.at_end():
            p = self.peek()
            if p in ("<", "(", "["):
                depth += 1
            elif p in (">", ")", "]"):
                depth -= 1
            elif p == "=" and depth == 0:
                return
            self.eat()

    def type_name(self):
        """after `as`"""
        if self.kind() != "ident":
            fail(self.path, self.line(), f"cast target {self.peek()!r}")
        return self.eat()

    # expressions --------------------------------------------------------------------------
    def expr(self, no_struct=False):
        return self.binary(0, no_struct)

    LEVELS = [["||"], ["&&"], ["==", "!=", "<", ">", "<=", ">="], ["|"], ["^"], ["&"], ["<<", ">>"],
              ["+", "-"], ["*", "/", "%"]]

    def binary(self, lvl, ns):
        if lvl == len(self.LEVELS):
            return self.cast(ns)
        a = self.binary(lvl + 1, ns)
        while self.peek() in self.LEVELS[lvl]:
            line = self.line()
            op = self.eat()
            b = self.binary(lvl + 1, ns)
            a = ("bin", op, a, b, line)
            if lvl == 2:
                break           # comparisons do not chain
        return a

    def cast(self, ns):
        e = self.unary(ns)
        while self.peek() == "as":
            line = self.line()
            self.eat()
            e = ("cast", e, self.type_name(), line)
        return e

    def unary(self, ns):
        p = self.peek()
        if p in ("!", "-"):
            line = self.line()
            self.eat()
            return ("unary", p, self.unary(ns), line)
        if p in ("&", "*"):
            self.eat()
            if self.peek() == "mut":
                self.eat()
            return self.unary(ns)
        return self.postfix(ns)

    def postfix(self, ns):
        e = self.primary(ns)
        while True:
            p = self.peek()
            if p == ".":
                line = self.line()
                self.eat()
                if self.kind() == "int":
                    e = ("tupidx", e, int(self.eat()), line)
                elif self.kind() == "float":       # a.0.1 lexes as float
                    fail(self.path, line, "nested tuple index")
                else:
                    name = self.eat()
                    if self.peek() == "::":
                        fail(self.path, line, "turbofish")
                    if self.peek() == "(":
                        e = ("mcall", e, name, self.args(), line)
                    else:
                        e = ("field", e, name, line)
            elif p == "?":
                fail(self.path, self.line(), "`?` inside an expression")
            else:
                return e

    def args(self):
        self.eat("(")
        res = []
        while self.peek() != ")":
            res.append(self.expr())
            if self.peek() == ",":
                self.eat()
        self.eat(")")
        return res

    def primary(self, ns):
        line = self.line()
        k, p = self.kind(), self.peek()
        if k == "int":
            self.eat()
            t = re.sub(r"[iu](8|16|32|64|size)$", "", p).replace("_", "")
            return ("int", int(t, 0), line)
        if k == "float":
            self.eat()
            t = re.sub(r"_?f(32|64)$", "", p).replace("_", "")
            return ("float", t, line)
        if p == "(":
            self.eat()
            items, trailing = [], False
            while self.peek() != ")":
                items.append(self.expr())
                trailing = False
                if self.peek() == ",":
                    self.eat()
                    trailing = True
            self.eat(")")
            if len(items) == 1 and not trailing:
                return items[0]
            return ("tuple", items, line)
        if p == "[":
            self.eat()
            items = []
            while self.peek() != "]":
                items.append(self.expr())
                if self.peek() == ";":
                    self.eat()
                    n = self.expr()
                    self.eat("]")
                    return ("repeat", items[0], n, line)
                if self.peek() == ",":
                    self.eat()
            self.eat("]")
            return ("array", items, line)
        if p == "{":
            self.eat()
            b = self.block_body()
            self.eat("}")
            return b
        if p == "if":
            self.eat()
            c = self.expr(no_struct=True)
            self.eat("{")
            a = self.block_body()
            self.eat("}")
            if self.peek() != "else":
                fail(self.path, line, "`if` without `else` used as a value")
            self.eat("else")
            if self.peek() == "if":
                b = self.primary(ns)
            else:
                self.eat("{")
                b = self.block_body()
                self.eat("}")
            return ("if", c, a, b, line)
        if p == "match":
            self.eat()
            scrut = self.expr(no_struct=True)
            self.eat("{")
            arms = []
            while self.peek() != "}":
                pats = [self.match_pattern()]
                while self.peek() == "|":
                    self.eat()
                    pats.append(self.match_pattern())
                if self.peek() == "if":
                    fail(self.path, self.line(), "match guard")
                self.eat("=>")
                body = self.expr()
                if self.peek() == ",":
                    self.eat()
                arms.append((pats, body))
            self.eat("}")
            return ("match", scrut, arms, line)
        if p == "|":
            self.eat()
            params = []
            while self.peek() != "|":
                if self.peek() in ("&", "mut"):
                    self.eat()
                    continue
                params.append(self.eat())
                if self.peek() == ",":
                    self.eat()
            self.eat("|")
            return ("closure", params, self.expr(), line)
        if k == "ident":
            if p in ("true", "false"):
                self.eat()
                return ("bool", p == "true", line)
            segs = [self.eat()]
            while self.peek() == "::":
                self.eat()
                if self.peek() == "<":
                    fail(self.path, line, "generic arguments in a path")
                segs.append(self.eat())
            if self.peek() == "!":
                self.eat()
                close = {"(": ")", "[": "]", "{": "}"}[self.peek()]
                opn = self.eat()
                if segs == ["vec"]:
                    v = self.expr()
                    if self.peek() == ";":
                        self.eat()
                        n = self.expr()
                        self.eat(close)
                        return ("repeat", v, n, line)
                    items = [v]
                    while self.peek() == ",":
                        self.eat()
                        if self.peek() != close:
                            items.append(self.expr())
                    self.eat(close)
                    return ("array", items, line)
                if segs == ["matches"]:
                    scrut = self.expr()
                    self.eat(",")
                    pats = [self.match_pattern()]
                    while self.peek() == "|":
                        self.eat()
                        pats.append(self.match_pattern())
                    self.eat(close)
                    return ("matches", scrut, pats, line)
                if segs[-1] in ("panic", "unreachable", "todo", "unimplemented"):
                    depth = 1
                    while depth:
                        q = self.eat()
                        if q == opn:
                            depth += 1
                        elif q == close:
                            depth -= 1
                    return ("panic", line)
                fail(self.path, line, f"macro {'::'.join(segs)}!")
            if self.peek() == "(":
                return ("call", segs, self.args(), line)
            if self.peek() == "{" and not ns and segs[-1][0].isupper():
                self.eat("{")
                fields = []
                while self.peek() != "}":
                    if self.peek() == "..":
                        fail(self.path, self.line(), "struct update syntax")
                    name = self.eat()
                    if self.peek() == ":":
                        self.eat()
                        fields.append((name, self.expr()))
                    else:
                        fields.append((name, ("path", [name], line)))
                    if self.peek() == ",":
                        self.eat()
                self.eat("}")
                return ("struct", segs, fields, line)
            return ("path", segs, line)
        fail(self.path, line, f"unexpected token {p!r} in an expression")

    def match_pattern(self):
        line = self.line()
        if self.peek() == "_":
            self.eat()
            return ("wild",)
        if self.kind() == "int":
            p = self.eat()
            return ("int", int(re.sub(r"[iu](8|16|32|64|size)$", "", p).replace("_", ""), 0))
        if self.peek() == "-" and self.kind(1) == "int":
            self.eat()
            return ("int", -int(self.eat().replace("_", ""), 0))
        if self.peek() in ("true", "false"):
            return ("bool", self.eat() == "true")
        if self.kind() == "ident":
            segs = [self.eat()]
            while self.peek() == "::":
                self.eat()
                segs.append(self.eat())
            if self.peek() in ("(", "{"):
                fail(self.path, line, "pattern with fields")
            return ("path", segs)
        fail(self.path, line, f"pattern {self.peek()!r}")


def parse_expr_text(text, path, line0, as_block=False):
    p = ExprParser(tokenize(text, path, line0), path)
    e = p.block_body() if as_block else p.expr()
    if not p.at_end():
        fail(path, p.line(), f"trailing tokens starting at {p.peek()!r}")
    return e


# ------------------------------------------------------------------------------------------
# Lean emitters
# ------------------------------------------------------------------------------------------

def lean_str(s):
    return '"' + s.replace("\\", "\\\\").replace('"', '\\"') + '"'


def lean_list(items, sep=", "):
    return "[" + sep.join(items) + "]"


def lean_expr(e):
    """internal expression tree (below) -> Lean `Expr` term"""
    k = e[0]
    if k == "nat":
        return f"(.nat {e[1]})"
    if k == "int":
        return f"(.int ({e[1]}))"
    if k == "bool":
        return "(.bool true)" if e[1] else "(.bool false)"
    if k == "f32":
        return f"(.f32 0x{e[1]:08x})"
    if k == "none":
        return ".none"
    if k == "unit":
        return ".unit"
    if k == "var":
        return f"(.var {lean_str(e[1])})"
    if k == "field":
        return f"(.field {lean_expr(e[1])} {lean_str(e[2])})"
    if k == "idx":
        return f"(.idx {lean_expr(e[1])} {e[2]})"
    if k == "not":
        return f"(.not {lean_expr(e[1])})"
    if k == "bin":
        return f"(.bin .{e[1]} {lean_expr(e[2])} {lean_expr(e[3])})"
    if k == "ite":
        return f"(.ite {lean_expr(e[1])} {lean_expr(e[2])} {lean_expr(e[3])})"
    if k == "let":
        return f"(.letE {lean_str(e[1])} {lean_expr(e[2])} {lean_expr(e[3])})"
    if k == "call":
        return f"(.call {lean_str(e[1])} {lean_list([lean_expr(a) for a in e[2]])})"
    if k == "app":
        return f"(.app {lean_list([lean_str(p) for p in e[1]])} {lean_expr(e[2])} {lean_list([lean_expr(a) for a in e[3]])})"
    if k == "list":
        return f"(.list {lean_list([lean_expr(a) for a in e[1]])})"
    if k == "record":
        return "(.record " + lean_list([f"({lean_str(n)}, {lean_expr(v)})" for n, v in e[1]]) + ")"
    raise AssertionError(e)


BINOPS = {"||": "or", "&&": "and", "==": "eq", "!=": "ne", "<": "lt", "<=": "le", ">": "gt", ">=": "ge",
          "+": "add", "-": "sub", "*": "mul", "/": "div", "<<": "shl", ">>": "shr", "&": "band", "|": "bor"}
CASTS = {"u32": "as_u32", "u64": "as_u64", "usize": "as_u64", "i32": "as_i32", "i64": "as_i64"}
# methods that are the identity on the model's values
IDENT_METHODS = {"as_ref", "clone", "copied", "cloned", "into", "to_owned", "as_slice", "iter"}
BUILTIN_METHODS = {"len": "len", "is_empty": "is_empty", "is_some": "is_some", "is_none": "is_none",
                   "unwrap_or": "unwrap_or", "div_ceil": "div_ceil", "trailing_zeros": "trailing_zeros",
                   "count_ones": "popcount", "contains": "contains"}


class Lowering:
    """AST -> internal expression tree, resolving enum constants, associated constants and
    helper functions (inlined as closed `app` terms) from the tables of a `World`."""

    def __init__(self, world, path, owner):
        self.w, self.path, self.owner = world, path, owner
        self.depth = 0

    def low(self, e):
        k = e[0]
        line = e[-1] if isinstance(e[-1], int) else 0
        if k == "int":
            return ("nat", e[1])
        if k == "float":
            return ("f32", f32_bits(e[1]))
        if k == "bool":
            return ("bool", e[1])
        if k == "panic":
            return ("call", "panic", [])
        if k == "path":
            segs = e[1]
            if len(segs) == 1:
                if segs[0] == "None":
                    return ("none",)
                return ("var", segs[0])
            ty, name = self.resolve_ty(segs[-2]), segs[-1]
            if ty in self.w.enums and name in dict(self.w.enums[ty]):
                return ("nat", dict(self.w.enums[ty])[name])
            if (ty, name) in self.w.consts:
                cty, ctext, cline, cpath = self.w.consts[(ty, name)]
                return Lowering(self.w, cpath, ty).low(parse_expr_text(ctext, cpath, cline))
            fail(self.path, line, f"unknown path {'::'.join(segs)} (not an enum variant or constant known to the translator)")
        if k == "field":
            base = e[1]
            return ("field", self.low(base), e[2])
        if k == "tupidx":
            base = e[1]
            if base[0] == "path" and base[1] == ["self"] and self.owner in self.w.newtypes and e[2] == 0:
                return ("var", "self")
            return ("idx", self.low(base), e[2])
        if k == "unary":
            op, a = e[1], self.low(e[2])
            if op == "!":
                return ("not", a)
            if a[0] == "f32":
                return ("f32", a[1] ^ 0x80000000)
            if a[0] == "nat":
                return ("int", -a[1])
            return ("bin", "sub", ("int", 0), a)
        if k == "bin":
            op, a, b = e[1], self.low(e[2]), self.low(e[3])
            if a[0] == "f32" and b[0] == "f32" and op in "+-*/":
                return ("f32", f32_op(op, a[1], b[1], self.path, line))
            if a[0] == "f32" or b[0] == "f32":
                fail(self.path, line, "floating-point arithmetic on non-constants")
            if op not in BINOPS:
                fail(self.path, line, f"operator {op}")
            return ("bin", BINOPS[op], a, b)
        if k == "cast":
            if e[2] not in CASTS:
                fail(self.path, line, f"cast to {e[2]}")
            a = self.low(e[1])
            if a[0] == "nat" and e[2] in ("i32", "i64"):
                return ("int", a[1])
            if a[0] == "nat":
                return a
            return ("call", CASTS[e[2]], [a])
        if k == "if":
            return ("ite", self.low(e[1]), self.low(e[2]), self.low(e[3]))
        if k == "block":
            return self.low_block(e[1], e[2])
        if k == "tuple" or k == "array":
            return ("list", [self.low(x) for x in e[1]])
        if k == "repeat":
            v, n = self.low(e[1]), self.low(e[2])
            if n[0] == "nat" and n[1] <= 4096 and v[0] in ("nat", "int", "f32", "bool", "list"):
                return ("list", [v] * n[1])
            return ("call", "repeat", [v, n])
        if k == "struct":
            return ("record", [(n, self.low(v)) for n, v in e[2]])
        if k == "matches":
            s = self.low(e[1])
            alts = [self.low_pat_test(("var", "_m"), p, line) for p in e[2]]
            out = alts[0]
            for a in alts[1:]:
                out = ("bin", "or", out, a)
            return ("let", "_m", s, out)
        if k == "match":
            s = self.low(e[1])
            out = None
            for pats, body in reversed(e[2]):
                b = self.low(body)
                if any(p[0] == "wild" for p in pats):
                    out = b
                    continue
                if out is None:
                    fail(self.path, line, "match without a wildcard arm")
                tests = [self.low_pat_test(("var", "_m"), p, line) for p in pats]
                t = tests[0]
                for x in tests[1:]:
                    t = ("bin", "or", t, x)
                out = ("ite", t, b, out)
            return ("let", "_m", s, out)
        if k == "call":
            segs, args = e[1], [self.low(a) for a in e[2]]
            if segs == ["Some"]:
                return args[0]
            if len(segs) >= 2:
                ty, fn = self.resolve_ty(segs[-2]), segs[-1]
                return self.inline(ty, fn, args, line)
            fail(self.path, line, f"call of {'::'.join(segs)}")
        if k == "mcall":
            recv, name, margs = e[1], e[2], e[3]
            if name in IDENT_METHODS and not margs:
                return self.low(recv)
            if name == "map" and len(margs) == 1 and margs[0][0] == "closure" and len(margs[0][1]) == 1:
                r = self.low(recv)
                body = self.low(margs[0][2])
                return ("let", "_o", r, ("ite", ("call", "is_some", [("var", "_o")]),
                                          ("let", margs[0][1][0], ("var", "_o"), body), ("none",)))
            if name in self.w.method_fields:
                return ("field", self.low(recv), self.w.method_fields[name])
            if name in BUILTIN_METHODS:
                return ("call", BUILTIN_METHODS[name], [self.low(recv)] + [self.low(a) for a in margs])
            if name in self.w.methods:
                ty = self.w.methods[name]
                return self.inline(ty, name, [self.low(recv)] + [self.low(a) for a in margs], line)
            fail(self.path, line, f"method .{name}() is not in the translator's table of helper methods")
        if k == "closure":
            fail(self.path, line, "closure outside `.map(|x| ..)`")
        fail(self.path, line, f"expression form {k}")

    def resolve_ty(self, t):
        return self.owner if t == "Self" else t

    def low_pat_test(self, subj, p, line):
        if p[0] == "int":
            return ("bin", "eq", subj, ("nat", p[1]) if p[1] >= 0 else ("int", p[1]))
        if p[0] == "bool":
            return ("bin", "eq", subj, ("bool", p[1]))
        if p[0] == "path":
            v = self.low(("path", p[1], line))
            return ("bin", "eq", subj, v)
        fail(self.path, line, f"pattern {p}")

    def low_block(self, stmts, final):
        if not stmts:
            return self.low(final)
        s = stmts[0]
        rest = self.low_block(stmts[1:], final)
        if s[0] == "let":
            pat, v = s[1], self.low(s[2])
            if pat[0] == "name":
                return ("let", pat[1], v, rest)
            out = rest
            for n in reversed(pat[1]):
                out = ("let", n, ("field", ("var", "_d"), n), out)
            return ("let", "_d", v, out)
        if s[0] == "ifret":
            return ("ite", self.low(s[1]), self.low(s[2]), rest)
        raise AssertionError(s)

    def inline(self, ty, fn, args, line):
        key = (ty, fn)
        if key not in self.w.fns:
            fail(self.path, line, f"helper function {ty}::{fn} is not known to the translator")
        params, body, bline, bpath = self.w.fns[key]
        if len(params) != len(args):
            fail(self.path, line, f"{ty}::{fn}: {len(args)} arguments for {len(params)} parameters")
        if self.depth > 8:
            fail(self.path, line, f"helper functions nest too deeply at {ty}::{fn}")
        sub = Lowering(self.w, bpath, ty)
        sub.depth = self.depth + 1
        b = sub.low(parse_expr_text(body, bpath, bline, as_block=True))
        return ("app", params, b, args)


class World:
    """what the expression translator may refer to"""

    def __init__(self):
        self.enums = {}          # type -> [(variant, disc)]
        self.consts = {}         # (type, NAME) -> (ty, text, line, path)
        self.fns = {}            # (type, fn) -> (params, body_text, line, path)
        self.methods = {}        # method name -> owner type (user methods that are inlined)
        self.method_fields = {}  # method name -> field name (methods of hand-modelled types)
        self.newtypes = set()    # tuple structs modelled as their single field


# ------------------------------------------------------------------------------------------
# define_bundle! extraction
# ------------------------------------------------------------------------------------------

def find_bundles(src):
    """-> list of dict(name, ctx_id, line, fields=[dict(name, line, ty, ctx, cond, default)])"""
    out = []
    for m in re.finditer(r"define_bundle!\s*\{", src.text):
        ob = m.end() - 1
        cb = find_matching(src.text, ob, "{", "}")
        i = ob + 1
        while True:
            sm = re.compile(r"\bstruct\s+(\w+)([^{]*)\{").search(src.text, i, cb)
            if not sm:
                break
            hdr = sm.group(2)
            sob = sm.end() - 1
            scb = find_matching(src.text, sob, "{", "}")
            ctx_id = None
            cm = re.search(r"\bctx\(\s*(\w+)\s*:", hdr)
            if cm:
                ctx_id = cm.group(1)
            if re.search(r"\baligned\(", hdr):
                fail(src.rel, src.line(sm.start()), "aligned(..) bundles are not supported")
            fields = []
            pos = sob + 1
            for part in split_top(src.text[sob + 1:scb]):
                start = pos
                pos += len(part) + 1
                if not part.strip():
                    continue
                lead = len(part) - len(part.lstrip())
                fm = re.match(r"\s*(?:pub(?:\([^)]*\))?\s+)?(\w+)\s*:", part)
                if not fm:
                    fail(src.rel, src.line(start + lead), f"field syntax {part.strip()[:40]!r}")
                f = {"name": fm.group(1), "line": src.line(start + lead)}
                k = fm.end()
                while k < len(part):
                    am = re.match(r"\s*(ty|ctx|cond|default)\s*\(", part[k:])
                    if not am:
                        if part[k:].strip():
                            fail(src.rel, src.line(start + k), f"unknown field attribute {part[k:].strip()[:30]!r}")
                        break
                    op = k + am.end() - 1
                    cp = find_matching(part, op, "(", ")")
                    if am.group(1) in f:
                        fail(src.rel, src.line(start + op), f"duplicate {am.group(1)}(..)")
                    f[am.group(1)] = (part[op + 1:cp], src.line(start + op))
                    k = cp + 1
                if "ty" not in f:
                    fail(src.rel, f["line"], f"field {f['name']} has no ty(..)")
                fields.append(f)
            out.append({"name": sm.group(1), "ctx_id": ctx_id, "line": src.line(sm.start()), "fields": fields,
                        "path": src.rel})
            i = scb + 1
    return out


# ------------------------------------------------------------------------------------------
# extractor: Headers (C14)
# ------------------------------------------------------------------------------------------

HEADER_FILES = ["jxl-image/src/lib.rs", "jxl-image/src/color.rs", "jxl-frame/src/header.rs",
                "jxl-frame/src/filter.rs", "jxl-frame/src/data/toc.rs", "jxl-frame/src/data/lf_global.rs",
                "jxl-modular/src/lib.rs", "jxl-modular/src/predictor.rs", "jxl-modular/src/transform.rs",
                "jxl-vardct/src/lf.rs", "jxl-oxide-common/src/lib.rs", "jxl-bitstream/src/bitstream.rs",
                "jxl-bitstream/src/lib.rs"]

# hand-modelled types: Rust type (last path segment) -> (Lean FieldTy term, names it needs in scope)
HAND_TYPES = {
    "BitDepth": ("Parts.bitDepth", []),
    "Name": ("Parts.name", []),
    "Extensions": ("Parts.extensions", []),
    "ExtraChannelInfo": ("Parts.extraChannelInfo", []),
    "ColourEncoding": ("Parts.colourEncoding", []),
    "FrameType": ("Parts.frameType", []),
    "Encoding": ("Parts.encoding", []),
    "FrameFlags": ("Parts.frameFlags", []),
    "BlendMode": ("Parts.blendMode", []),
    "Gabor": ("Parts.gabor", []),
    "EdgePreservingFilter": ("Parts.edgePreservingFilter", ["encoding"]),
}
# parsers of other components, named so that nothing is skipped silently
EXTERN_TYPES = {"TransformInfo": "C03 (jxl-modular transform.rs)", "HfBlockContext": "jxl-vardct hf_metadata"}

# hand-written parsers whose primitive reads and source text are pinned: (file, type, fn)
HAND_PARSERS = [
    ("jxl-image/src/lib.rs", "ImageHeader", "parse"),
    ("jxl-image/src/lib.rs", "Extensions", "parse"),
    ("jxl-image/src/lib.rs", "ExtraChannelInfo", "parse"),
    ("jxl-image/src/lib.rs", "BitDepth", "parse"),
    ("jxl-image/src/lib.rs", "ImageMetadata", "apply_orientation"),
    ("jxl-image/src/color.rs", "ColourEncoding", "parse"),
    ("jxl-image/src/color.rs", "WhitePoint", "parse"),
    ("jxl-image/src/color.rs", "Primaries", "parse"),
    ("jxl-image/src/color.rs", "TransferFunction", "parse"),
    ("jxl-frame/src/header.rs", "FrameType", "parse"),
    ("jxl-frame/src/header.rs", "Encoding", "parse"),
    ("jxl-frame/src/header.rs", "FrameFlags", "parse"),
    ("jxl-frame/src/header.rs", "BlendMode", "parse"),
    ("jxl-frame/src/header.rs", "FrameHeader", "sample_width"),
    ("jxl-frame/src/header.rs", "FrameHeader", "sample_height"),
    ("jxl-frame/src/header.rs", "FrameHeader", "num_groups"),
    ("jxl-frame/src/header.rs", "FrameHeader", "num_lf_groups"),
    ("jxl-frame/src/header.rs", "FrameHeader", "group_dim"),
    ("jxl-frame/src/header.rs", "FrameHeader", "lf_group_dim"),
    ("jxl-frame/src/header.rs", "FrameHeader", "is_keyframe"),
    ("jxl-frame/src/header.rs", "FrameHeader", "can_reference"),
    ("jxl-frame/src/filter.rs", "Gabor", "parse"),
    ("jxl-frame/src/filter.rs", "Gabor", "default"),
    ("jxl-frame/src/filter.rs", "EdgePreservingFilter", "parse"),
    ("jxl-frame/src/filter.rs", "EpfSigma", "parse"),
    ("jxl-frame/src/filter.rs", "EpfSigma", "default"),
    ("jxl-frame/src/filter.rs", "EpfParams", "default"),
    ("jxl-frame/src/data/toc.rs", "Toc", "parse"),
    ("jxl-frame/src/data/toc.rs", "Toc", "group_index_bitstream_order"),
    ("jxl-oxide-common/src/lib.rs", "Name", "parse"),
    ("jxl-bitstream/src/bitstream.rs", "Bitstream", "read_u32"),
    ("jxl-bitstream/src/bitstream.rs", "Bitstream", "read_u64"),
    ("jxl-bitstream/src/bitstream.rs", "Bitstream", "read_bool"),
    ("jxl-bitstream/src/bitstream.rs", "Bitstream", "read_f16_as_f32"),
    ("jxl-bitstream/src/bitstream.rs", "Bitstream", "read_enum"),
    ("jxl-bitstream/src/bitstream.rs", "Bitstream", "zero_pad_to_byte"),
    ("jxl-bitstream/src/lib.rs", None, "unpack_signed"),
    ("jxl-bitstream/src/lib.rs", None, "unpack_signed_u64"),
]
# helper functions that cond/default expressions may call; they are translated and inlined
HELPER_FNS = [
    ("jxl-image/src/lib.rs", "SizeHeader", "compute_default_width"),
    ("jxl-image/src/lib.rs", "ImageMetadata", "grayscale"),
    ("jxl-frame/src/header.rs", "FrameHeader", "test_full_image"),
    ("jxl-frame/src/header.rs", "FrameHeader", "resets_canvas"),
    ("jxl-frame/src/header.rs", "FrameHeader", "compute_default_xqms"),
    ("jxl-frame/src/header.rs", "FrameType", "is_normal_frame"),
    ("jxl-frame/src/header.rs", "FrameFlags", "use_lf_frame"),
]
HELPER_METHODS = {"is_normal_frame": "FrameType", "use_lf_frame": "FrameFlags", "grayscale": "ImageMetadata"}
# methods of hand-modelled types that are a field of the model's record
METHOD_FIELDS = {"colour_space": "colour_space"}
NEWTYPES = {"FrameFlags"}
# enums whose `TryFrom<u32>` accepts exactly these discriminants (read_enum)
TRYFROM_ENUMS = [("jxl-image/src/lib.rs", "ExtraChannelTypeRaw"), ("jxl-image/src/color.rs", "ColourSpace"),
                 ("jxl-image/src/color.rs", "WhitePointDiscriminator"), ("jxl-image/src/color.rs", "PrimariesDiscriminator"),
                 ("jxl-image/src/color.rs", "RenderingIntent"), ("jxl-image/src/color.rs", "TransferFunction")]
FLOAT_CONSTS = [("jxl-frame/src/filter.rs", None, "EPF_SHARP_LUT_DEFAULT"),
                ("jxl-frame/src/filter.rs", None, "EPF_CHANNEL_SCALE_DEFAULT")]


def parse_dist(text, path, line):
    t = "".join(text.split())
    m = re.fullmatch(r"(\d+)\+u\((\d+)\)", t)
    if m:
        return f"(.bits {int(m.group(1))} {int(m.group(2))})"
    m = re.fullmatch(r"u\((\d+)\)", t)
    if m:
        return f"(.bits 0 {int(m.group(1))})"
    m = re.fullmatch(r"\d+", t)
    if m:
        return f"(.const {int(t)})"
    fail(path, line, f"U32 distribution {text.strip()!r}")


def parse_read_u32_arg(text, path, line):
    """`read_u32(..)` argument in a hand-written parser: 5, U(3), 1 + U(3)"""
    t = "".join(text.split())
    m = re.fullmatch(r"(\d+)\+U\((\d+)\)", t)
    if m:
        return f"(.bits {int(m.group(1))} {int(m.group(2))})"
    m = re.fullmatch(r"U\((\d+)\)", t)
    if m:
        return f"(.bits 0 {int(m.group(1))})"
    if re.fullmatch(r"\d+", t):
        return f"(.const {int(t)})"
    fail(path, line, f"read_u32 argument {text.strip()!r}")


class HeadersExtractor:
    def __init__(self, repo):
        self.repo = repo
        self.src = {rel: Source(repo, rel) for rel in HEADER_FILES}
        self.w = World()
        self.w.methods = dict(HELPER_METHODS)
        self.w.method_fields = dict(METHOD_FIELDS)
        self.w.newtypes = set(NEWTYPES)
        self.impls = {rel: find_impls(s) for rel, s in self.src.items()}
        for rel, s in self.src.items():
            for name, variants in find_enums(s).items():
                self.w.enums[name] = variants
            for imp in self.impls[rel]:
                for cname, (cty, ctext, cline) in find_consts(s, imp["start"], imp["end"]).items():
                    self.w.consts[(imp["ty"], cname)] = (cty, ctext, cline, rel)
        for rel, ty, fn in HELPER_FNS:
            params, body, line, _ = self.find_fn(rel, ty, fn)
            self.w.fns[(ty, fn)] = (params, body, line, rel)
        self.bundles = []
        for rel in HEADER_FILES:
            self.bundles += find_bundles(self.src[rel])
        self.bundle_names = {b["name"]: b for b in self.bundles}
        if len(self.bundle_names) != len(self.bundles):
            raise TranslateError("translate.py: two define_bundle! structs share a name")

    def find_fn(self, rel, ty, fn):
        s = self.src[rel]
        if ty is None:
            fns = find_fns(s, 0, len(s.text))
            if fn in fns:
                return fns[fn]
        else:
            for imp in self.impls[rel]:
                if imp["ty"] == ty:
                    fns = find_fns(s, imp["start"], imp["end"])
                    if fn in fns:
                        return fns[fn]
        raise TranslateError(f"translate.py: {rel}: function {ty or ''}::{fn} disappeared "
                             f"(the model depends on it; update tools/translate.py and the hand model)")

    # ---- types ---------------------------------------------------------------------------
    def lower_expr(self, text, line, path, owner):
        return Lowering(self.w, path, owner).low(parse_expr_text(text, path, line))

    def field_ty(self, text, b, f, explicit_ctx):
        path, line = b["path"], f["ty"][1]
        t = text.strip()
        signed = False
        parts = split_top(t, ";")
        head = parts[0].strip()
        m = re.match(r"(Vec|Array)\s*\[", head)
        if m:
            ob = head.find("[")
            cb = find_matching(head, ob, "[", "]")
            if head[cb + 1:].strip() or len(parts) != 2:
                fail(path, line, f"type {t!r}")
            inner = self.field_ty(head[ob + 1:cb], b, f, explicit_ctx)
            if m.group(1) == "Vec":
                n = self.lower_expr(parts[1], line, path, b["name"])
                return f"(.vec {inner} {lean_expr(n)})"
            n = parts[1].strip()
            if not re.fullmatch(r"\d+", n):
                fail(path, line, f"array length {n!r}")
            return f"(.arr {inner} {int(n)})"
        if len(parts) == 2 and parts[1].strip() == "UnpackSigned":
            signed = True
        elif len(parts) != 1:
            fail(path, line, f"type {t!r}")
        base = self.base_ty(head, b, f, explicit_ctx)
        if signed:
            return f"(.signed64 {base})" if head == "U64" else f"(.signed {base})"
        return base

    def base_ty(self, head, b, f, explicit_ctx):
        path, line = b["path"], f["ty"][1]
        h = "".join(head.split())
        if h == "Bool":
            return ".bool"
        if h == "U64":
            return ".u64"
        if h == "F16":
            return ".f16"
        m = re.fullmatch(r"u\((\d+)\)", h)
        if m:
            return f"(.u {int(m.group(1))})"
        m = re.fullmatch(r"(\d+)\+u\((\d+)\)", h)
        if m:
            return f"(.cu {int(m.group(1))} {int(m.group(2))})"
        if re.fullmatch(r"\d+", h):
            return f"(.const {int(h)})"
        m = re.fullmatch(r"U32\((.*)\)", h)
        if m:
            ds = split_top(m.group(1))
            if len(ds) != 4:
                fail(path, line, f"U32 with {len(ds)} distributions")
            return "(.u32 " + " ".join(parse_dist(d, path, line) for d in ds) + ")"
        m = re.fullmatch(r"Enum\(([\w:]+)\)", h)
        if m:
            name = m.group(1).split("::")[-1]
            return f"(.enum valid_{name})"
        m = re.fullmatch(r"Bundle\((Option<)?([\w:]+)>?\)", h)
        if m:
            name = m.group(2).split("::")[-1]
            encl_ctx = b["ctx_id"]
            if name in self.bundle_names:
                nb = self.bundle_names[name]
                if nb["ctx_id"] is None:
                    ctx = ("record", [])
                elif explicit_ctx is not None:
                    ctx = ("record", [(nb["ctx_id"], explicit_ctx)])
                elif encl_ctx is not None:
                    ctx = ("record", [(nb["ctx_id"], ("var", encl_ctx))])
                else:
                    fail(path, line, f"Bundle({name}) needs a context but none is in scope")
                return f"(.bundle {lean_expr(ctx)} {name})"
            if name in HAND_TYPES:
                term, needs = HAND_TYPES[name]
                for n in needs:
                    known = {encl_ctx} | {g["name"] for g in b["fields"]}
                    if explicit_ctx is not None:
                        if explicit_ctx != ("var", n):
                            fail(path, line, f"hand model of {name} expects ctx({n})")
                    elif n not in known:
                        fail(path, line, f"hand model of {name} needs `{n}` in scope")
                return term
            if name in EXTERN_TYPES:
                return f"(.ext {lean_str(name)})"
            fail(path, line, f"Bundle({name}): neither a define_bundle! struct nor in the translator's "
                             f"HAND_TYPES / EXTERN_TYPES tables")
        fail(path, line, f"field type {head!r}")

    def bundle_lean(self, b):
        lines = []
        for f in b["fields"]:
            path = b["path"]
            explicit_ctx = None
            if "ctx" in f:
                explicit_ctx = self.lower_expr(f["ctx"][0], f["ctx"][1], path, b["name"])
            ty = self.field_ty(f["ty"][0], b, f, explicit_ctx)
            cond = ("bool", True)
            if "cond" in f:
                cond = self.lower_expr(f["cond"][0], f["cond"][1], path, b["name"])
            if "default" in f:
                d = "(some " + lean_expr(self.lower_expr(f["default"][0], f["default"][1], path, b["name"])) + ")"
            elif re.match(r"\s*Bundle\(\s*Option<", f["ty"][0]):
                d = "(some .none)"
            else:
                d = "none"
            lines.append(f"  .mk {lean_str(f['name'])} {ty}\n    {lean_expr(cond)}\n    {d}")
        return f"/-- `{b['path']}:{b['line']}` -/\ndef {b['name']} : Bundle := [\n" + ",\n".join(lines) + "]\n"

    # ---- hand-written parsers: primitive reads in source order -----------------------------
    PRIM_RE = re.compile(r"read_u32\s*\(|(?<![A-Za-z_])read_bits\s*\(|read_bool\s*\(|read_u64\s*\(|read_f16_as_f32\s*\(|"
                         r"read_enum\s*::\s*<\s*(\w+)\s*>\s*\(|zero_pad_to_byte\s*\(|skip_bits\s*\(|"
                         r"read_bits!\s*\(|([A-Z]\w*)\s*::\s*parse\s*\(")

    def prims(self, rel, ty, fn):
        params, body, line0, full = self.find_fn(rel, ty, fn)
        out = []
        for m in self.PRIM_RE.finditer(body):
            line = line0 + body.count("\n", 0, m.start())
            tok = m.group(0)
            op = m.end() - 1
            cp = find_matching(body, op, "(", ")")
            inner = body[op + 1:cp]
            if tok.startswith("read_u32"):
                args = split_top(inner)
                if len(args) != 4:
                    fail(rel, line, "read_u32 without four distributions")
                out.append("(.u32 " + " ".join(parse_read_u32_arg(a, rel, line) for a in args) + ")")
            elif tok.startswith("read_bits!"):
                mm = re.match(r"\s*\w+\s*,\s*U32\((.*)\)\s*$", inner, re.S)
                if not mm:
                    fail(rel, line, f"read_bits!({inner.strip()[:40]}) in a hand-written parser")
                out.append("(.u32 " + " ".join(parse_dist(a, rel, line) for a in split_top(mm.group(1))) + ")")
            elif tok.startswith("read_bits"):
                n = inner.strip()
                out.append(f"(.bits {int(n)})" if re.fullmatch(r"\d+", n) else f"(.bitsExpr {lean_str(' '.join(n.split()))})")
            elif tok.startswith("read_bool"):
                out.append(".bool")
            elif tok.startswith("read_u64"):
                out.append(".u64")
            elif tok.startswith("read_f16"):
                out.append(".f16")
            elif tok.startswith("read_enum"):
                out.append(f"(.enum {lean_str(m.group(1))})")
            elif tok.startswith("zero_pad"):
                out.append(".pad")
            elif tok.startswith("skip_bits"):
                out.append(".skip")
            else:
                out.append(f"(.sub {lean_str(m.group(2))})")
        return out, norm_hash(full)

    # ---- output ----------------------------------------------------------------------------
    def generate(self, namespace):
        o = []
        o.append("import JxlModel.Model.HeaderParts")
        o.append("/-! GENERATED by tools/translate.py from the Rust sources - do not edit.")
        o.append("Every `define_bundle!` struct as a `Bundle` value; enum discriminants; `TryFrom<u32>`")
        o.append("domains; primitive reads and source hashes of the hand-written parsers. -/")
        o.append("set_option maxRecDepth 100000")
        o.append(f"namespace {namespace}")
        o.append("open Jxl.Bundle Jxl.Headers")
        o.append("")
        # enums used by the model
        enum_names = ["FrameType", "Encoding", "BlendMode", "ColourSpace", "WhitePointDiscriminator",
                      "PrimariesDiscriminator", "RenderingIntent", "TransferFunction", "ExtraChannelTypeRaw",
                      "TocGroupKind"]
        o.append("/-- enum discriminants (Rust's implicit numbering) -/")
        rows = []
        for n in enum_names:
            if n not in self.w.enums:
                raise TranslateError(f"translate.py: enum {n} disappeared")
            rows.append(f"  ({lean_str(n)}, " + lean_list([f"({lean_str(v)}, {d})" for v, d in self.w.enums[n]]) + ")")
        o.append("def enums : List (String × List (String × Nat)) := [\n" + ",\n".join(rows) + "]\n")
        # TryFrom<u32> domains
        rows = []
        for rel, name in TRYFROM_ENUMS:
            s = self.src[rel]
            found = None
            for imp in self.impls[rel]:
                if imp["ty"] == name and imp["trait"] and imp["trait"].startswith("TryFrom"):
                    fns = find_fns(s, imp["start"], imp["end"])
                    if "try_from" in fns:
                        body = fns["try_from"][1]
                        found = sorted(int(x) for x in re.findall(r"(?m)^\s*(\d+)\s*=>\s*Self::\w+", body))
            if not found:
                raise TranslateError(f"translate.py: {rel}: TryFrom<u32> for {name} disappeared or has no arms")
            rows.append(f"  ({lean_str(name)}, {lean_list([str(x) for x in found])})")
        o.append("/-- discriminants accepted by `TryFrom<u32>` (the domain of `read_enum`) -/")
        o.append("def tryFrom : List (String × List Nat) := [\n" + ",\n".join(rows) + "]\n")
        # float constants of hand-written code
        rows = []
        for rel, ty, name in FLOAT_CONSTS:
            s = self.src[rel]
            cs = find_consts(s, 0, len(s.text))
            if name not in cs:
                raise TranslateError(f"translate.py: {rel}: const {name} disappeared")
            e = Lowering(self.w, rel, ty).low(parse_expr_text(cs[name][1], rel, cs[name][2]))
            if e[0] != "list" or any(x[0] != "f32" for x in e[1]):
                fail(rel, cs[name][2], f"const {name} is not a list of float constants")
            rows.append(f"  ({lean_str(name)}, " + lean_list([f"0x{x[1]:08x}" for x in e[1]]) + ")")
        o.append("/-- f32 bit patterns of constant tables used by hand-written parsers -/")
        o.append("def floatConsts : List (String × List Nat) := [\n" + ",\n".join(rows) + "]\n")
        # hand-written parsers
        rows, hashes = [], []
        for rel, ty, fn in HAND_PARSERS:
            ps, h = self.prims(rel, ty, fn)
            key = f"{ty or rel.split('/')[0]}.{fn}"
            rows.append(f"  ({lean_str(key)}, {lean_list(ps)})")
            hashes.append(f"  ({lean_str(key)}, {lean_str(h)})")
        o.append("/-- primitive reads of each hand-written parser, in source order -/")
        o.append("def handPrims : List (String × List Prim) := [\n" + ",\n".join(rows) + "]\n")
        o.append("/-- hash of the (whitespace-normalised, comment-free) source text of every function that is\nmodelled by hand: a change means the hand model must be re-read against the code -/")
        o.append("def handHashes : List (String × String) := [\n" + ",\n".join(hashes) + "]\n")
        hh = []
        for rel, ty, fn in HELPER_FNS:
            hh.append(f"  ({lean_str(ty + '.' + fn)}, {lean_str(norm_hash(self.find_fn(rel, ty, fn)[3]))})")
        o.append("/-- helper functions inlined into the descriptions below -/")
        o.append("def helperHashes : List (String × String) := [\n" + ",\n".join(hh) + "]\n")
        # bundles, dependency order
        done, order = set(), []

        def visit(b, stack=()):
            if b["name"] in done:
                return
            if b["name"] in stack:
                fail(b["path"], b["line"], "recursive bundle")
            for f in b["fields"]:
                for nm in re.findall(r"Bundle\(\s*(?:Option<\s*)?([\w:]+)", f["ty"][0]):
                    nm = nm.split("::")[-1]
                    if nm in self.bundle_names:
                        visit(self.bundle_names[nm], stack + (b["name"],))
            done.add(b["name"])
            order.append(b)

        for b in sorted(self.bundles, key=lambda b: (b["path"], b["line"])):
            visit(b)
        for b in order:
            o.append(self.bundle_lean(b))
        o.append("def allBundles : List (String × Bundle) := [\n" +
                 ",\n".join(f"  ({lean_str(b['name'])}, {b['name']})" for b in order) + "]\n")
        o.append(f"end {namespace}")
        return "\n".join(o) + "\n"


def gen_headers(repo, pinned=False):
    ex = HeadersExtractor(repo)
    return ex.generate("Jxl.Headers.Pinned" if pinned else "Jxl.Headers.Gen")


# name -> (generator(repo, pinned) -> text, has a pinned snapshot)
OUTPUTS = {"Headers": (gen_headers, True)}


def write_if_changed(path, text):
    os.makedirs(os.path.dirname(path), exist_ok=True)
    if os.path.exists(path) and open(path).read() == text:
        return False
    open(path, "w").write(text)
    return True


def run(repo, names=None, pin=False, out_lean=None):
    out_lean = out_lean or os.path.join(VERIF, "lean")
    for name in (names or sorted(OUTPUTS)):
        gen, has_pin = OUTPUTS[name]
        write_if_changed(os.path.join(out_lean, "JxlModel", "Gen", name + ".lean"), gen(repo, False))
        if pin and has_pin:
            write_if_changed(os.path.join(out_lean, "JxlModel", "Model", name + "Pinned.lean"), gen(repo, True))


def main():
    args = sys.argv[1:]
    repo = None
    pin = False
    names = []
    while args:
        a = args.pop(0)
        if a == "--repo":
            repo = args.pop(0)
        elif a == "--pin":
            pin = True
        else:
            names.append(a)
    if repo is None:
        sys.path.insert(0, os.path.dirname(os.path.abspath(__file__)))
        import vlib
        repo = vlib.REPO
    try:
        run(repo, names or None, pin)
    except TranslateError as e:
        print(str(e), file=sys.stderr)
        sys.exit(1)


if __name__ == "__main__":
    main()
