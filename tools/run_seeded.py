#!/usr/bin/env python3
"""Self-test of the checks against seeded breakage (development tool, not a registered command).
usage: tools/run_seeded.py [seeded-dir ...]   (default: every /verif/seeded/*/)
For each seeded change: git -C /repo apply patch.diff, run the quick check of the property it
breaks (and any extra checks listed in meta.json "also"), record whether a VIOLATION was printed,
then git -C /repo checkout -- . ; the result is written to <dir>/result.json."""
import glob, json, os, subprocess, sys, time
VERIF = os.path.dirname(os.path.dirname(os.path.abspath(__file__)))

def sh(cmd, **kw):
    return subprocess.run(cmd, shell=True, capture_output=True, text=True, **kw)

def main():
    dirs = sys.argv[1:] or sorted(glob.glob(os.path.join(VERIF, "seeded", "*/")))
    assert sh("git -C /repo status --porcelain --untracked-files=no").stdout.strip() == "", "/repo not clean"
    for d in dirs:
        d = d.rstrip("/")
        meta = json.load(open(os.path.join(d, "meta.json")))
        props = [meta["property"]] + meta.get("also", [])
        r = sh(f"git -C /repo apply {d}/patch.diff")
        if r.returncode != 0:
            print(d, "PATCH DOES NOT APPLY", r.stderr[:200]); continue
        res = {}
        saved = {}
        for p in props:
            f = os.path.join(VERIF, "evidence", p + ".json")
            saved[f] = open(f).read() if os.path.exists(f) else None
        try:
            for p in props:
                t0 = time.time()
                c = sh(f"cd {VERIF} && VERIF_SEED={os.environ.get('VERIF_SEED','1')} python3 tools/check.py {p} --tier quick", timeout=3600)
                vio = [l for l in c.stdout.splitlines() if l.startswith("VIOLATION")]
                res[p] = {"exit": c.returncode, "violations": len(vio),
                          "concrete": sum(1 for l in vio if "no-failing-input-found" not in l),
                          "first": vio[:2], "wall_s": round(time.time() - t0, 1)}
                print(os.path.basename(d), p, "CAUGHT" if vio and c.returncode == 1 else "MISSED", res[p]["first"][:1], flush=True)
        finally:
            sh("git -C /repo checkout -- . && git -C /repo clean -fdq crates")
            sh(f"git -C {VERIF} checkout -- lean/JxlModel/Gen")      # generated files follow /repo again
            for f, txt in saved.items():      # evidence must come from the unchanged tree
                if txt is not None:
                    open(f, "w").write(txt)
        json.dump(res, open(os.path.join(d, "result.json"), "w"), indent=1)

if __name__ == "__main__":
    main()
