#!/usr/bin/env python3
"""Regenerates lean/JxlModel/Gen/Orientation.lean from the orientation `match` arms of the
working tree (run by tools/props/c15.py before every `lake build`):

  crates/jxl-oxide/src/fb.rs   FrameBuffer::from_grids       (outw, outh) and (outx, outy)
  crates/jxl-oxide/src/fb.rs   ImageStream::to_original_coord
  crates/jxl-oxide/src/fb.rs   ImageStream::from_render      `if orientation >= N { swap(width, height) }`
  crates/jxl-image/src/lib.rs  ImageMetadata::apply_orientation  (left, top) and (width, height)
  crates/jxl-render/src/region.rs Region::apply_orientation  (pinned: straight-line code whose
                               hand-written model is Jxl.Output.regionApplyOrientation)

Arms are `PATTERN [if GUARD] => (EXPR, EXPR),` with PATTERN a literal or `a..=b`, GUARD an
identifier, EXPR built from identifiers, integer literals, `+ - *`, parentheses and `as <int type>`
casts. Anything else stops the run with the file and line of the arm (a broken tie)."""
import os, re, sys

ALLOWED_CASTS = {"i32", "u32", "usize", "isize", "i64", "u64"}


class TranslateError(Exception):
    pass


def fail(path, line, msg):
    raise TranslateError(f"translate_c15: {path}:{line}: {msg}")


# ---------------------------------------------------------------------------------------------
# tiny arithmetic-expression translator
TOK = re.compile(r"\s*(?:(\d+)|([A-Za-z_][A-Za-z_0-9.]*)|(\.\.=)|(=>)|([-+*(),]))")


def tokenize(s, path, line):
    out, i = [], 0
    s = s.strip()
    while i < len(s):
        m = TOK.match(s, i)
        if not m:
            fail(path, line, f"cannot tokenise {s[i:]!r}")
        if m.group(1):
            out.append(("num", m.group(1)))
        elif m.group(2):
            out.append(("id", m.group(2)))
        else:
            out.append(("op", m.group(3) or m.group(4) or m.group(5)))
        i = m.end()
    return out


class Parser:
    """expr := term (('+'|'-') term)* ; term := atom ('*' atom)* ;
    atom := num | ident ['as' type] | '(' expr ')' ['as' type]"""

    def __init__(self, toks, idents, int_ctx, path, line):
        self.t, self.i, self.idents, self.int_ctx, self.path, self.line = toks, 0, idents, int_ctx, path, line

    def peek(self):
        return self.t[self.i] if self.i < len(self.t) else (None, None)

    def eat(self, kind=None, val=None):
        k, v = self.peek()
        if k is None or (kind and k != kind) or (val and v != val):
            fail(self.path, self.line, f"expected {val or kind}, found {v!r}")
        self.i += 1
        return v

    def cast(self, e):
        k, v = self.peek()
        if k == "id" and v == "as":
            self.eat()
            ty = self.eat("id")
            if ty not in ALLOWED_CASTS:
                fail(self.path, self.line, f"unsupported cast `as {ty}`")
            # integer widening between non-negative quantities; the Lean side is Int already
        return e

    def atom(self):
        k, v = self.peek()
        if k == "num":
            self.eat()
            return f"({v} : Int)" if self.int_ctx else v
        if k == "id":
            self.eat()
            name = v[5:] if v.startswith("self.") else v
            if name not in self.idents:
                fail(self.path, self.line, f"identifier `{v}` is not one of {sorted(self.idents)}")
            return self.cast(self.idents[name])
        if k == "op" and v == "(":
            self.eat()
            e = self.expr()
            self.eat("op", ")")
            return self.cast(e)
        fail(self.path, self.line, f"unexpected token {v!r}")

    def term(self):
        e = self.atom()
        while self.peek() == ("op", "*"):
            self.eat()
            e = f"({e} * {self.atom()})"
        return e

    def expr(self):
        e = self.term()
        while self.peek()[0] == "op" and self.peek()[1] in "+-":
            op = self.eat()
            e = f"({e} {op} {self.term()})"
        return e

    def tuple2(self):
        self.eat("op", "(")
        a = self.expr()
        self.eat("op", ",")
        b = self.expr()
        self.eat("op", ")")
        if self.peek()[0] is not None:
            fail(self.path, self.line, f"trailing tokens after tuple: {self.t[self.i:]}")
        return a, b


# ---------------------------------------------------------------------------------------------
def find_match(lines, path, start_pat, head_pat):
    """index of the line matching head_pat that follows the first line matching start_pat"""
    s = next((i for i, l in enumerate(lines) if re.search(start_pat, l)), None)
    if s is None:
        fail(path, 1, f"`{start_pat}` not found")
    for i in range(s, len(lines)):
        if re.search(head_pat, lines[i]):
            return i
        if i > s and re.match(r"\s*(pub(\(crate\))? )?fn ", lines[i]):
            break
    fail(path, s + 1, f"`{head_pat}` not found after `{start_pat}`")


def parse_arms(lines, path, head, idents, int_ctx, guards=()):
    """arms of the `match` whose head is on line index `head`: list of (lo, hi, guard|None, (a, b), lineno)"""
    depth = 0
    arms = []
    i = head
    buf, buf_line = "", None
    started = False
    while i < len(lines):
        l = lines[i].split("//")[0]
        if not started:
            if "{" not in l:
                i += 1
                continue
            l = l[l.rindex("{") + 1:]
            started = True
            depth = 1
        for ch in l:
            if ch == "{":
                depth += 1
            elif ch == "}":
                depth -= 1
        if depth <= 0:
            l = l[:l.rindex("}")]
        if l.strip():
            if not buf:
                buf_line = i + 1
            buf += " " + l.strip()
        # an arm ends with a comma at parenthesis depth 0
        while True:
            par, cut = 0, None
            for k, ch in enumerate(buf):
                if ch == "(":
                    par += 1
                elif ch == ")":
                    par -= 1
                elif ch == "," and par == 0:
                    cut = k
                    break
            if cut is None:
                break
            arm, buf = buf[:cut].strip(), buf[cut + 1:].strip()
            arms.append((arm, buf_line))
            buf_line = i + 1
        if depth <= 0:
            if buf.strip():
                arms.append((buf.strip(), buf_line))
            break
        i += 1
    out = []
    for arm, ln in arms:
        if "=>" not in arm:
            fail(path, ln, f"not a match arm: {arm!r}")
        pat, body = [x.strip() for x in arm.split("=>", 1)]
        if pat == "_":
            if not re.fullmatch(r"unreachable!\(\)", body):
                fail(path, ln, f"wildcard arm must be unreachable!(), found {body!r}")
            continue
        guard = None
        m = re.fullmatch(r"(\S+)\s+if\s+(!?)([A-Za-z_]+)", pat)
        if m:
            pat, neg, guard = m.group(1), m.group(2), m.group(3)
            if guard not in guards:
                fail(path, ln, f"guard `{guard}` is not one of {guards}")
            guard = (guard, neg == "")
        m = re.fullmatch(r"(\d+)(?:\.\.=(\d+))?", pat)
        if not m:
            fail(path, ln, f"unsupported pattern {pat!r}")
        lo = int(m.group(1))
        hi = int(m.group(2)) if m.group(2) else lo
        p = Parser(tokenize(body, path, ln), idents, int_ctx, path, ln)
        out.append((lo, hi, guard, p.tuple2(), ln))
    if not out:
        fail(path, head + 1, "match has no arms")
    return out


def check_cover(arms, path, head, what):
    """every orientation 1..8 must be decided by some unguarded arm, in source order semantics"""
    for o in range(1, 9):
        if not any(lo <= o <= hi and g is None for lo, hi, g, _, _ in arms):
            fail(path, head + 1, f"{what}: orientation {o} has no unguarded arm")


def lean_ifchain(arms, var, default):
    s = ""
    for lo, hi, guard, (a, b), ln in arms:
        cond = f"{var} = {lo}" if lo == hi else f"{lo} ≤ {var} ∧ {var} ≤ {hi}"
        if guard:
            cond += f" ∧ {guard[0]} = {'true' if guard[1] else 'false'}"
        s += f"  if {cond} then ({a}, {b})    -- line {ln}\n  else\n"
    return s + f"  {default}\n"


def norm(s):
    return re.sub(r"\s+", "", re.sub(r"//[^\n]*", "", s))


REGION_APPLY_PIN = norm("""
    pub fn apply_orientation(self, image_header: &ImageHeader) -> Self {
        if self.is_empty() {
            let (width, height, _, _) =
                image_header.metadata.apply_orientation(self.width, self.height, 0, 0, true);
            return Self { left: 0, top: 0, width, height, };
        }
        let image_width = image_header.width_with_orientation();
        let image_height = image_header.height_with_orientation();
        let (_, _, mut left, mut top) = image_header.metadata.apply_orientation(
            image_width, image_height, self.left, self.top, true,
        );
        let (_, _, mut right, mut bottom) = image_header.metadata.apply_orientation(
            image_width, image_height,
            self.left + self.width as i32 - 1,
            self.top + self.height as i32 - 1,
            true,
        );
        if left > right { std::mem::swap(&mut left, &mut right); }
        if top > bottom { std::mem::swap(&mut top, &mut bottom); }
        let width = right.abs_diff(left) + 1;
        let height = bottom.abs_diff(top) + 1;
        Self { left, top, width, height, }
    }
""")

WIDTH_WITH_ORIENTATION_PIN = norm("""
    pub fn width_with_orientation(&self) -> u32 {
        self.metadata.apply_orientation(self.size.width, self.size.height, 0, 0, false).0
    }
""")
HEIGHT_WITH_ORIENTATION_PIN = norm("""
    pub fn height_with_orientation(&self) -> u32 {
        self.metadata.apply_orientation(self.size.width, self.size.height, 0, 0, false).1
    }
""")


def fn_text(lines, path, pat):
    s = next((i for i, l in enumerate(lines) if re.search(pat, l)), None)
    if s is None:
        fail(path, 1, f"`{pat}` not found")
    depth, started, out = 0, False, []
    for i in range(s, len(lines)):
        out.append(lines[i])
        for ch in lines[i].split("//")[0]:
            if ch == "{":
                depth += 1
                started = True
            elif ch == "}":
                depth -= 1
        if started and depth == 0:
            return s, "\n".join(out)
    fail(path, s + 1, "unterminated function")


def generate(repo):
    fb = os.path.join(repo, "crates/jxl-oxide/src/fb.rs")
    im = os.path.join(repo, "crates/jxl-image/src/lib.rs")
    rg = os.path.join(repo, "crates/jxl-render/src/region.rs")
    fbl = open(fb).read().splitlines()
    iml = open(im).read().splitlines()
    rgl = open(rg).read().splitlines()
    rel = lambda p: os.path.relpath(p, repo)
    nat = {"x": "x", "y": "y", "width": "width", "height": "height"}

    # FrameBuffer::from_grids
    h1 = find_match(fbl, rel(fb), r"pub fn from_grids\(", r"let \(outw, outh\) = match orientation \{")
    dims = parse_arms(fbl, rel(fb), h1, nat, False)
    check_cover(dims, rel(fb), h1, "from_grids dims")
    h2 = find_match(fbl, rel(fb), r"pub fn from_grids\(", r"let \(outx, outy\) = match orientation \{")
    fg = parse_arms(fbl, rel(fb), h2, nat, False)
    check_cover(fg, rel(fb), h2, "from_grids map")
    # ImageStream::to_original_coord
    h3 = find_match(fbl, rel(fb), r"fn to_original_coord\(", r"match self\.orientation \{")
    s3, t3 = fn_text(fbl, rel(fb), r"fn to_original_coord\(")
    if not re.search(r"let width = self\.width;\s*let height = self\.height;", t3):
        fail(rel(fb), s3 + 1, "to_original_coord no longer binds width/height to the stream's (oriented) dimensions")
    to = parse_arms(fbl, rel(fb), h3, nat, False)
    check_cover(to, rel(fb), h3, "to_original_coord")
    # ImageStream::from_render: swap of the dimensions
    s4, t4 = fn_text(fbl, rel(fb), r"fn from_render\(")
    m = re.search(r"if orientation >= (\d+) \{\s*std::mem::swap\(&mut width, &mut height\);\s*\}", t4)
    if not m:
        fail(rel(fb), s4 + 1, "from_render: `if orientation >= N { swap(width, height) }` not found")
    swap_from = int(m.group(1))
    swap_line = s4 + 1 + t4[:m.start()].count("\n")
    # ImageMetadata::apply_orientation
    intv = {"left": "left", "top": "top", "width": "(↑width : Int)", "height": "(↑height : Int)"}
    h5 = find_match(iml, rel(im), r"pub fn apply_orientation\(", r"let \(left, top\) = match self\.orientation \{")
    ap = parse_arms(iml, rel(im), h5, intv, True, guards=("inverse",))
    check_cover(ap, rel(im), h5, "apply_orientation point")
    h6 = find_match(iml, rel(im), r"pub fn apply_orientation\(", r"let \(width, height\) = match self\.orientation \{")
    apd = parse_arms(iml, rel(im), h6, {"width": "width", "height": "height"}, False)
    check_cover(apd, rel(im), h6, "apply_orientation dims")
    s7, t7 = fn_text(iml, rel(im), r"pub fn apply_orientation\(")
    if not re.search(r"\(width, height, left, top\)\s*\}\s*$", t7):
        fail(rel(im), s7 + 1, "apply_orientation no longer returns (width, height, left, top)")
    for pin, pat, what in ((WIDTH_WITH_ORIENTATION_PIN, r"pub fn width_with_orientation\(", "width_with_orientation"),
                           (HEIGHT_WITH_ORIENTATION_PIN, r"pub fn height_with_orientation\(", "height_with_orientation")):
        s, t = fn_text(iml, rel(im), pat)
        if norm(t) != pin:
            fail(rel(im), s + 1, f"{what} differs from the pinned text (header dims = apply_orientation(w, h, 0, 0, false))")
    # Region::apply_orientation (pinned)
    s8, t8 = fn_text(rgl, rel(rg), r"pub fn apply_orientation\(self, image_header")
    if norm(t8) != REGION_APPLY_PIN:
        fail(rel(rg), s8 + 1, "Region::apply_orientation differs from the pinned text modelled by "
                              "Jxl.Output.regionApplyOrientation (lean/JxlModel/Model/Output.lean); review the model")

    out = f"""/-! GENERATED by tools/translate_c15.py — do not edit. Regenerated from the `match` arms of
`{rel(fb)}` (from_grids line {h1 + 1}/{h2 + 1}, to_original_coord line {h3 + 1}, from_render line {swap_line}),
`{rel(im)}` (apply_orientation line {h5 + 1}/{h6 + 1}); `{rel(rg)}` Region::apply_orientation is pinned. -/
namespace Jxl.Gen.Orientation

/-- `FrameBuffer::from_grids`: `(outw, outh)` from the unoriented copy region `width × height` -/
def fromGridsDims (orientation width height : Nat) : Nat × Nat :=
{lean_ifchain(dims, "orientation", "(0, 0)")}
/-- `FrameBuffer::from_grids`: where unoriented `(x, y)` of a `width × height` region lands -/
def fromGridsMap (orientation width height x y : Nat) : Nat × Nat :=
{lean_ifchain(fg, "orientation", "(0, 0)")}
/-- `ImageStream::to_original_coord`: `width`/`height` are the stream's (oriented) dimensions -/
def toOriginalCoord (orientation width height x y : Nat) : Nat × Nat :=
{lean_ifchain(to, "orientation", "(0, 0)")}
/-- `ImageStream::from_render`: are the region's width and height swapped for this orientation -/
def streamSwapsDims (orientation : Nat) : Bool := decide (orientation ≥ {swap_from})    -- line {swap_line}

/-- `ImageMetadata::apply_orientation`: the `(left, top)` part -/
def applyOrientationPt (orientation width height : Nat) (left top : Int) (inverse : Bool) : Int × Int :=
{lean_ifchain(ap, "orientation", "(0, 0)")}
/-- `ImageMetadata::apply_orientation`: the `(width, height)` part -/
def applyOrientationDims (orientation width height : Nat) : Nat × Nat :=
{lean_ifchain(apd, "orientation", "(0, 0)")}
end Jxl.Gen.Orientation
"""
    return out


def main(repo, verif):
    out = generate(repo)
    path = os.path.join(verif, "lean", "JxlModel", "Gen", "Orientation.lean")
    os.makedirs(os.path.dirname(path), exist_ok=True)
    old = open(path).read() if os.path.exists(path) else None
    if old != out:                       # keep the timestamp when nothing changed (lake rebuilds less)
        open(path, "w").write(out)
    return path


if __name__ == "__main__":
    here = os.path.dirname(os.path.dirname(os.path.abspath(__file__)))
    sys.path.insert(0, os.path.join(here, "tools"))
    import vlib
    try:
        print(main(vlib.REPO, here))
    except TranslateError as e:
        print(e, file=sys.stderr)
        sys.exit(1)
