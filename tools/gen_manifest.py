#!/usr/bin/env python3
"""Writes /verif/MANIFEST.json from the table below and validates it against the schema."""
import json, os, subprocess, sys
VERIF = os.path.dirname(os.path.dirname(os.path.abspath(__file__)))
props = [json.loads(l) for l in open(os.path.join(VERIF, "properties.jsonl"))]

# id -> (technique, level text, level note, design ref); absent = not yet claimed
CLAIMED = {
 "C13": ("Lean 4 theorems over every operation history of the tracker state machine (conservation invariant by induction) + differential correspondence of the model with the real AllocTracker",
         "Proof: conservation, never-exceeds-limit, fails-iff-does-not-fit and budget-restored are Lean theorems over all histories of the modelled tracker; the model is tied to jxl-grid by running both on seeded histories. Partial: that the decoder drops every handle on every error path is exercised by a limit sweep (testing), not proved.",
         "Trusted: Lean kernel, axioms propext/Classical.choice/Quot.sound, the correspondence harness, usize=64 bit, atomics linearizable. NoWrap side condition on expand_limit.",
         "DESIGN.md §4 C13"),
 "C03": ("Lean 4 theorems (token-level decode∘encode = id for every tree/leaf selection/predictor state; RCT and squeeze inverse∘forward in exact arithmetic) + Lean reference encoder whose streams the real decoder must decode to the original samples + decoder-model correspondence",
         "Proof for the modelled core: C03_token_roundtrip quantifies over every leaf-selection function, predictor state, previous-channel set and sample list; C03_rct_inv_fwd over all types/permutations; C03_squeeze_line_inv_fwd over every tendency function. Partial: flattened-tree = tree (incl. table compilation), predictor-state = grid neighbours, palette and the group partition are tied to the code by the differential run only; entropy coding is C04's.",
         "Trusted: Lean kernel + standard axioms; the reference encoder's bit-level serialisation (validated by the real decoder accepting and reproducing every image); harness. Independence of the encoder is of definition (Spec leaf selection / forward transforms), not authorship.",
         "DESIGN.md §4 C03"),
 "C10": ("Lean 4 theorems about an executable model of ContainerBoxHeader::parse and the ContainerParser state machine (all byte strings, all chunkings, all Spec files) + differential correspondence of the model with the public jxl_bitstream::ContainerParser on generated container files under whole/chunked/bytewise/exhaustive 2-way feeding",
         "Proof: header parse/serialise round trip (32-bit, 64-bit, to-end-of-file) and need-more-data on every proper header prefix; chunking invariance of the concatenation-normalised event stream for every byte string and every chunking (unconsumed bytes re-offered); for every well-formed Spec file the exact event stream, hence codestream = concatenated jxlc/jxlp payloads in order and every aux box delivered with type and exact raw payload; ill-formed layouts (duplicate/out-of-order jxlp, jxlc/jxlp mixing, jxlp after the final one, undersized jxlp/brob/size fields, brob of a reserved type) give an error; consumed <= input, strict progress measure, no panic site reachable. Partial: theorems are about the model (tied to the code by the correspondence run); Brotli decompression of brob payloads and AuxBoxList/eof handling in jxl-oxide are not modelled.",
         "Trusted: Lean kernel, axioms propext/Classical.choice/Quot.sound, the correspondence harness, usize=64 bit, caller follows the documented re-offer protocol. Models the code WITH the F1 repair (64-bit header split across feeds); the unrepaired behaviour is kept as parseHeaderOld with its witness.",
         "DESIGN.md §4 C10, §8 F1"),
 "C02": ("Lean 4 model of the sub-grid geometry of jxl-grid (offset/width/height/stride over a buffer, every operation with its assertions) and of the three 'justified by construction' unchecked accesses (Bitstream::refill, ANS bucket lookup, access plans + scratch of the x86-64 horizontal squeeze kernels), theorems over all inputs; tied to the code by tag-and-read-back operation sequences on real MutableSubgrids (implementation-side ownership oracle, then model diff), Bitstream state histories, source pins of the transcribed index expressions, and canary-guarded runs of every squeeze/RCT kernel entry (hook H7) on all widths 1..130 x heights 1..20 in the checked and the optimised build; thorough: the same under valgrind memcheck",
         "Proof (partial): validity of every sub-grid operation (every reachable element offset < buffer length), split/groups pairwise disjoint + within parent + cover, merge = union and merge-of-split restores, get/get_row in bounds, refill fast path in bounds for every reader history, ANS index < table length for every accepted histogram and state, squeeze horizontal AVX2/SSE4.1 access plans in bounds for all widths/heights and scratch written before read are Lean theorems about the model. Partial because Lean cannot speak about Rust's aliasing model, provenance or lifetimes: the theorems are index arithmetic and ownership geometry; the tie to the code is differential testing. Vertical squeeze kernels, NEON/wasm kernels, EPF/Gabor/DCT SIMD, fb.rs, as_vectored are not modelled (vertical squeeze and RCT are run with canaries; the rest is outside this check). Canary/valgrind runs are implementation-side oracles, not proofs.",
         "Trusted: Lean kernel, axioms propext/Classical.choice/Quot.sound, the correspondence harness and its source pins, usize = 64 bit, x86-64 with the CPU paths this machine selects (AVX2; SSE4.1 kernels called directly). Observation (not a violation of C02 as stated, not reachable from decoded bytes): in the optimised build the safe functions into_groups_with_fixed_count and from_buf are unsound for arguments whose products overflow usize (witness theorems + corpus/c02 replay, fix proposed).",
         "DESIGN.md §4 C02, §3 H7"),
 "C19": ("Lean 4 theorems about a byte-level model of ICC synthesis and recognition (layout invariant by induction, parse∘synth symbolically for every RGB/grey encoding, all 432 named enum combinations end to end in exact integer arithmetic, gamma-field round trip, s15Fixed16 bounds), about the transfer curves over the reals (Mathlib rpow/log/exp) and about the no-op decision; differential correspondence of the model (f32 arithmetic repeated operation for operation at Float32, byte-exact) and of the Float curves with colour_encoding_to_icc / ColorEncodingWithProfile::with_icc / ColorTransform / JxlImage::rendered_icc on the real crates",
         "Proof: C19_synth_structurally_valid, C19_parse_synth_enum_fields (symbolic, custom parts included), C19_parse_synth_named_enums, C19_gamma_field_roundtrip, C19_same_encoding_is_noop and the real-number inverse/monotone theorems for gamma, DCI, BT.709 (full), sRGB (all but a 1e-8 sliver; the sliver and the non-monotone breakpoints are proved false on the standard's constants), PQ (inverse, encode monotone), HLG (piecewise, _partial). Partial: every claim about the f32 kernels (round-trip tolerance per curve, monotone on grids, scalar vs vector lanes) and about the f32 chromaticity arithmetic (custom xy within 1e-4) is measured by the correspondence run, not proved; the latter is false outside a well-conditioned domain (known finding).",
         "Trusted: Lean kernel, axioms propext/Classical.choice/Quot.sound, Mathlib single modules, the correspondence harness, the machine's IEEE-754 arithmetic and libm (PQ/HLG tables compared within one unit). Tolerances: 1e-5 relative + 2e-7 for power-law/sRGB/HLG, 1e-4 relative + 1e-6*(10000/intensity_target) for PQ. Domain of the gamma round trip: validated header range 1221..1e7. Requires the fix-F5-* and fix-C19-* patches in /repo; unrepaired defects are listed in known_findings.json.",
         "DESIGN.md §4 C19, §8 F5"),
 "C17": ("Lean 4 model of jxl-jbr's JPEG bit writer (64-bit accumulator, flush rule, 0xFF byte stuffing with the SWAR has_ff_byte test, padding, finalize), of HuffmanCode::build/lookup and of the jpeg_reconstruction_status decision; theorems over every write sequence / every 64-bit word / every Kraft-respecting counts table / every combination of status facts; differential correspondence of the model with the real code through hook H6 and of hostile, truncated and chunked jbrd boxes through the public JxlImage API",
         "Partial. Proof (Lean, all inputs): finalize of any write sequence = concatenate MSB-first, zero-pad, pack big-endian, stuff 0x00 after 0xFF (C17_bitwriter_refines, + no panic for lengths <= 63, + padding_bits); has_ff_byte exact for all 2^64 words; HuffmanCode::build on every valid table yields the canonical JPEG code, which is prefix-free and never all-ones; the status answer is 'available' exactly when the jbrd box is complete and length-checked, all requested ICC/Exif/XMP data has arrived and one normal VarDCT frame is loaded; expected_*_len cannot underflow on headers the repaired parser accepts. Testing (seeded, every run): model vs real BitWriter/has_ff_byte/HuffmanCode::build via hook H6; crafted hostile/truncated jbrd containers fed in chunks through JxlImage - any panic or an 'available' answer while the box/frame is incomplete is a concrete violation. NOT exercised by proof or test: end-to-end 'reconstructed file == original JPEG' (no JPEG->JPEG XL transcoder and no transcoded fixtures exist offline); VarDCT coefficient extraction, integer chroma-from-luma, marker replay and the scan re-encoder are not modelled.",
         "Trusted: Lean kernel, axioms propext/Classical.choice/Quot.sound, the correspondence harness and its generators, hook H6 (add-only accessors in jxl-jbr). Preconditions: write_huffman gets a left-aligned code with nothing below its top len bits, len <= 64 (64 into an empty accumulator panics in a checked build; the scan encoder stays <= 63); usize/u64 = 64 bit. The modelled status logic is the repaired one (fix-F4, fix-jbrd-status-incomplete, fix-status-frame-check). HuffmanCode::build panics on degenerate tables (<= 1 value, count for length 0): reachable only behind a valid VarDCT frame, so argued from the model and reproduced through H6 only.",
         "DESIGN.md §4 C17, §8 F4"),
 "C14": ("Lean 4: deep embedding of the header macro (one generic parser, one generic writer) with ONE round-trip theorem over all bundle descriptions, primitive round trips (U32 every selector, U64 every form, F16 patterns, enums, UnpackSigned), proved by induction over field lists; descriptions regenerated from the Rust source by tools/translate.py on every run and re-checked by the kernel against the pinned ones; two-way differential correspondence (model writer -> real ImageHeader/FrameHeader/Toc::parse, and mutated/random bit strings -> both parsers)",
         "Proof: for every bundle description, context, canonical value, selector choice and stream continuation, parsing what the writer wrote returns exactly the value and stops at exactly the writer's bit (C14_bundle_roundtrip, C14_parse_stops_at_writer_bit), instantiated at the image header, frame header, plain TOC and all 21 define_bundle! structs (kernel-evaluated witnesses with every optional part present); C14_generated_matches_pinned ties the descriptions to the current source. Partial: the F16 pattern -> f32 value conversion is an integer model compared with the real arithmetic by execution (not proved); derived quantities (oriented sizes, group counts, TOC offsets/order, keyframe flags) are hand-modelled and compared by execution; a permuted TOC is covered only for a hand-made trivial entropy code - the entropy-coded Lehmer layer belongs to C04; hand-written parsers are modelled by hand and pinned by extracted primitive-read sequences, U32 distributions, enum domains and source hashes.",
         "Trusted: Lean kernel, axioms propext/Classical.choice/Quot.sound, tools/translate.py (exercised by the differential run), the correspondence harness and its dump projection (private fields are observable only through the values they determine). Checked-build u32 overflows in num_groups()/Toc::parse are mirrored as `panic` on both sides.",
         "DESIGN.md §4 C14"),
 "C18": ("Lean 4 model of the ICC command interpreter decode_icc (varints, header prediction, tag-list and main commands, shuffles, order-k prediction) and of get_icc_ctx, a Lean reference encoder driven by plans, a kernel-checked round-trip theorem over every profile and every legal plan, plus a differential correspondence run of model and encoder against jxl_color::icc::decode_icc",
         "Proof: decodeIcc (encodeIcc plan profile) = ok profile for every byte string <= 2^28 bytes and every legal command sequence (all command kinds, widths 1/2/4, orders 0/1/2, implicit/explicit stride, tag shortcuts and expansions, terminated/unterminated tag list); varint round trip; header look-back soundness; shuffle2/4 inverses for every length; Ok results always have the declared length; loop fuel never exhausted; local rejection theorems (oversize, unknown command, width 3/order 3, look-back, stride < width, bad tag code, tag out of range, tag count, short data). All are Lean theorems about the model; the model (with finding F6 repaired) is tied to crates/jxl-color/src/icc/decode.rs by running both on encoder output for the shipped/synthesised/random profiles and on malformed streams, comparing Ok bytes and the exact error kind. Partial: the entropy-coded layer of read_icc (enc_size limits, ANS/prefix symbols under the 41 contexts) is C04's - here only get_icc_ctx is tied as a pure function (full (b1,b2) table); JxlImage::original_icc() end to end is exercised once the codestream encoder exists; non-minimal varints are covered by the correspondence run only.",
         "Trusted: Lean kernel, axioms propext/Classical.choice/Quot.sound, the correspondence harness (hook: cfg(jxl_oxide_verif) re-export of get_icc_ctx), usize/u64 = 64 bit, bytes modelled as naturals < 256. Finding F6 (early Ok in the tag loop) is repaired by a one-line fix in /repo; its witness stays in corpus/c18 and is replayed on every run.",
         "DESIGN.md §4 C18, §8 F6"),
}
NOT_YET = "machinery for this property is not built yet in this snapshot (planned, see DESIGN.md §4/§10); it is claimed as soon as its theorems and correspondence check land"

checks, na = [], []
for p in props:
    i = p["id"]
    if i in CLAIMED:
        tech, text, note, ref = CLAIMED[i]
        checks.append({
            "property_id": i,
            "quick_cmd": f"python3 tools/check.py {i} --tier quick",
            "thorough_cmd": f"python3 tools/check.py {i} --tier thorough",
            "evidence_file": f"/verif/evidence/{i}.json",
            "replay_cmd_template": f"python3 tools/check.py {i} --replay {{path}}",
            "engine": "lean4-model+correspondence",
            "level_claimed": {"category": "proof", "text": text, "design_ref": ref},
            "level_note": note,
            "technique": tech,
        })
    else:
        na.append({"property_id": i, "reason": NOT_YET})

hooks_commits = subprocess.run(["git", "-C", "/repo", "log", "--format=%H %s", "--grep=^verif hook"],
                               capture_output=True, text=True).stdout.strip().splitlines()
m = {
 "version": 1,
 "setup_cmd": "cd /verif/lean && lake build && cd /verif/harness && cargo build --offline --bins && cargo build --offline --release --bins",
 "hooks": {
  "guard": "jxl_oxide_verif",
  "enable": "RUSTFLAGS='--cfg jxl_oxide_verif' (set in /verif/harness/.cargo/config.toml; the harness path-depends on /repo/crates/*)",
  "baseline_off_cmd": "cd /repo && cargo nextest run --workspace --no-fail-fast --test-threads 8 --offline || cargo test --workspace --no-fail-fast --offline",
  "source_commits": [c.split()[0] for c in hooks_commits],
  "add_only": True,
 },
 "engines": [{"name": "lean4-model+correspondence", "path": "/verif/lean, /verif/harness, /verif/tools",
              "serves_properties": [c["property_id"] for c in checks],
              "kind_free_text": "Lean 4 model + kernel-checked theorems; translator for declarative parts; Rust differential harness against /repo's working tree"}],
 "checks": checks,
 "not_applicable": na,
 "notes": "See DESIGN.md. known_findings.json lists genuine defects (known / fixed).",
}
json.dump(m, open(os.path.join(VERIF, "MANIFEST.json"), "w"), indent=1)
try:
    import jsonschema
    jsonschema.validate(m, json.load(open("/root/.vp/MANIFEST.schema.json")))
    print("MANIFEST.json valid;", len(checks), "claimed,", len(na), "not yet")
except ImportError:
    print("jsonschema not available; wrote without validating")
