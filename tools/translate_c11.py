#!/usr/bin/env python3
"""C11: regenerate lean/JxlModel/Gen/EofChain.lean from the `Error` enums and the
`unexpected_eof` functions in the crates' error.rs files.

For every crate in CRATES the generator transcribes
  * `pub enum Error { .. }`  ->  an inductive type (payloads that are other crates' `Error` types or
    `std::io::Error` are kept, everything else is dropped; `std::io::Error` becomes
    `io (unexpectedEof : Bool)`, i.e. `e.kind() == ErrorKind::UnexpectedEof`),
  * `pub fn unexpected_eof(&self) -> bool { .. }`  ->  `T.unexpectedEof`, match arm by match arm,
  * and derives from the *type structure alone* the specification `T.rootEof` ("the innermost
    wrapped bitstream error is an unexpected end of file").
Props/C11.lean proves `T.unexpectedEof = T.rootEof` for every T: a wrapping path that a
hand-written chain forgets (or a new variant that wraps an error type) makes that proof fail.

Fails loudly (exit 2) if an enum or function body cannot be parsed."""
import os, re, sys

HERE = os.path.dirname(os.path.abspath(__file__))
sys.path.insert(0, HERE)
try:
    from vlib import REPO, LEAN
except Exception:                      # stand-alone use
    REPO, LEAN = os.environ.get("VERIF_REPO", "/repo"), os.path.join(os.path.dirname(HERE), "lean")

# dependency order matters (a type must be declared before it is wrapped)
CRATES = [("jxl-bitstream", "jxl_bitstream", "BitstreamError"),
          ("jxl-coding", "jxl_coding", "CodingError"),
          ("jxl-modular", "jxl_modular", "ModularError"),
          ("jxl-vardct", "jxl_vardct", "VarDctError"),
          ("jxl-frame", "jxl_frame", "FrameError"),
          ("jxl-color", "jxl_color", "ColorError"),
          ("jxl-render", "jxl_render", "RenderError")]
TYPE_OF = {f"{mod}::Error": lean for _, mod, lean in CRATES}
TYPE_OF["std::io::Error"] = "IO"


class ParseError(Exception):
    pass


def strip_comments(s):
    s = re.sub(r"/\*.*?\*/", "", s, flags=re.S)
    return re.sub(r"//[^\n]*", "", s)


def block_after(src, start_regex, what):
    """text inside the braces that follow the first match of start_regex"""
    m = re.search(start_regex, src)
    if not m:
        raise ParseError(f"{what}: not found")
    i = src.index("{", m.end() - 1)
    depth, j = 0, i
    while j < len(src):
        if src[j] == "{":
            depth += 1
        elif src[j] == "}":
            depth -= 1
            if depth == 0:
                return src[i + 1:j]
        j += 1
    raise ParseError(f"{what}: unbalanced braces")


def split_top(s, sep):
    out, depth, cur = [], 0, ""
    for i, ch in enumerate(s):
        arrow = ch == ">" and i > 0 and s[i - 1] in "=-"          # `=>`, `->` are not brackets
        if ch in "({[<":
            depth += 1
        elif ch in ")}]>" and not arrow:
            depth -= 1
        if ch == sep and depth == 0:
            out.append(cur); cur = ""
        else:
            cur += ch
    if cur.strip():
        out.append(cur)
    return [x.strip() for x in out if x.strip()]


def lower_first(n):
    return n[0].lower() + n[1:]


def parse_enum(src, crate):
    body = block_after(src, r"pub\s+enum\s+Error\s*\{", f"{crate}: pub enum Error")
    variants = []
    for v in split_top(body, ","):
        v = re.sub(r"#\[[^\]]*\]", "", v).strip()
        m = re.match(r"^([A-Z]\w*)\s*(.*)$", v, re.S)
        if not m:
            raise ParseError(f"{crate}: cannot read variant {v!r}")
        name, rest = m.group(1), m.group(2).strip()
        payload = None
        if rest.startswith("("):
            inner = rest[1:rest.rindex(")")].strip()
            payload = TYPE_OF.get(inner.replace(" ", ""))
        elif rest and not rest.startswith("{"):
            raise ParseError(f"{crate}: cannot read variant {v!r}")
        variants.append((name, payload))
    if not variants:
        raise ParseError(f"{crate}: empty enum")
    return variants


# ---- patterns ------------------------------------------------------------------------------
def parse_pattern(p, self_type, enums):
    """returns (lean pattern text, {binder: type}); p like `Self::Modular(jxl_modular::Error::Bitstream(b))`"""
    p = p.strip().rstrip(",").strip()          # rustfmt leaves a trailing comma in wrapped patterns
    m = re.match(r"^((?:\w+::)*)(\w+)\s*(?:\((.*)\))?$", p, re.S)
    if not m:
        raise ParseError(f"cannot read pattern {p!r}")
    path, name, inner = m.group(1), m.group(2), m.group(3)
    if not path:
        if inner is not None:
            raise ParseError(f"cannot read pattern {p!r}")
        if name == "_":
            return "_", {}
        return name, {name: self_type}                      # a binder
    q = path.rstrip(":")
    if q in ("Self", "Error"):
        ty = self_type
    else:
        ty = TYPE_OF.get(q)
        if ty is None:
            raise ParseError(f"unknown path {q!r} in pattern {p!r}")
    if ty != self_type:
        raise ParseError(f"pattern {p!r}: expected a {self_type}, found {ty}")
    variants = dict(enums[ty])
    if name not in variants:
        raise ParseError(f"pattern {p!r}: {ty} has no variant {name}")
    if inner is None:
        return f".{lower_first(name)}", {}
    pay = variants[name]
    if pay is None:
        raise ParseError(f"pattern {p!r}: payload of {name} is not an error type")
    sub, binds = parse_pattern(inner, pay, enums)
    return f".{lower_first(name)} {sub}" if " " not in sub else f".{lower_first(name)} ({sub})", binds


def expr_on(binder, ty, expr):
    """`e.unexpected_eof()` / `e.kind() == std::io::ErrorKind::UnexpectedEof` on a binder of type ty"""
    e = re.sub(r"\s+", "", expr)
    if e == f"{binder}.unexpected_eof()":
        if ty == "IO":
            raise ParseError(f"{expr!r}: std::io::Error has no unexpected_eof")
        return f"{ty}.unexpectedEof {binder}"
    if e in (f"{binder}.kind()==std::io::ErrorKind::UnexpectedEof", f"{binder}.kind()==ErrorKind::UnexpectedEof"):
        if ty != "IO":
            raise ParseError(f"{expr!r}: kind() on a {ty}")
        return binder
    raise ParseError(f"cannot read expression {expr!r}")


def parse_fn(src, crate, self_type, enums):
    body = block_after(src, r"pub\s+fn\s+unexpected_eof\s*\(\s*&self\s*\)\s*->\s*bool\s*\{",
                       f"{crate}: fn unexpected_eof").strip()
    arms = []          # (lean pattern, lean rhs)
    # shape A: if let PATS = self { return EXPR; } false
    m = re.match(r"^if\s+let\s+(.*?)\s*=\s*self\s*\{\s*return\s+(.*?);\s*\}\s*false$", body, re.S)
    if m:
        for alt in split_top(m.group(1), "|"):
            pat, binds = parse_pattern(alt, self_type, enums)
            if len(binds) != 1:
                raise ParseError(f"{crate}: pattern {alt!r} must bind exactly one name")
            (b, ty), = binds.items()
            arms.append((pat, expr_on(b, ty, m.group(2))))
        return arms
    # shape B: match self { P => EXPR, .., _ => false }
    m = re.match(r"^match\s+self\s*\{(.*)\}$", body, re.S)
    if m:
        for arm in split_top(m.group(1), ","):
            if "=>" not in arm:
                raise ParseError(f"{crate}: cannot read arm {arm!r}")
            lhs, rhs = arm.split("=>", 1)
            if lhs.strip() == "_":
                if rhs.strip() != "false":
                    raise ParseError(f"{crate}: default arm is not `false`")
                continue
            for alt in split_top(lhs, "|"):
                pat, binds = parse_pattern(alt, self_type, enums)
                if len(binds) != 1:
                    raise ParseError(f"{crate}: pattern {alt!r} must bind exactly one name")
                (b, ty), = binds.items()
                arms.append((pat, expr_on(b, ty, rhs)))
        return arms
    # shape C: let x = match self { PATS => b, _ => return false, }; if let jxl_bitstream::Error::Io(e) = x { EXPR } else { false }
    m = re.match(r"^let\s+(\w+)\s*=\s*match\s+self\s*\{(.*?)\}\s*;\s*if\s+let\s+(.*?)\s*=\s*(\w+)\s*\{(.*?)\}\s*else\s*\{\s*false\s*\}$",
                 body, re.S)
    if m and m.group(1) == m.group(4):
        second_pat, second_binds = parse_pattern(m.group(3), "BitstreamError", enums)
        if len(second_binds) != 1:
            raise ParseError(f"{crate}: second stage must bind one name")
        (b2, ty2), = second_binds.items()
        second = f"(match {{B}} with | {second_pat} => {expr_on(b2, ty2, m.group(5))} | _ => false)"
        seen_default = False
        for arm in split_top(m.group(2), ","):
            lhs, rhs = arm.split("=>", 1)
            if lhs.strip() == "_":
                if re.sub(r"\s+", "", rhs) != "returnfalse":
                    raise ParseError(f"{crate}: default arm is not `return false`")
                seen_default = True
                continue
            for alt in split_top(lhs, "|"):
                pat, binds = parse_pattern(alt, self_type, enums)
                if len(binds) != 1 or list(binds.values())[0] != "BitstreamError" or rhs.strip() != list(binds)[0]:
                    raise ParseError(f"{crate}: arm {arm!r} must yield its bitstream-error binder")
                arms.append((pat, second.replace("{B}", list(binds)[0])))
        if not seen_default:
            raise ParseError(f"{crate}: no default arm")
        return arms
    raise ParseError(f"{crate}: unexpected_eof has a shape this translator does not know:\n{body}")


def parse_all():
    """{lean type: [(variant, payload type or None)]} in dependency order"""
    enums = {}
    for crate, mod, lean in CRATES:
        src = strip_comments(open(os.path.join(REPO, "crates", crate, "src", "error.rs")).read())
        enums[lean] = parse_enum(src, crate)
    return enums


def generate():
    enums, fns, hashes = {}, {}, []
    for crate, mod, lean in CRATES:
        path = os.path.join(REPO, "crates", crate, "src", "error.rs")
        src = strip_comments(open(path).read())
        enums[lean] = parse_enum(src, crate)
        fns[lean] = parse_fn(src, crate, lean, enums)
    out = ["/-!", "# GENERATED by tools/translate_c11.py from crates/*/src/error.rs — do not edit",
           "", "The `Error` enums of the decoder crates (payloads other than wrapped errors dropped;",
           "`std::io::Error` = whether its kind is `UnexpectedEof`), their `unexpected_eof()` functions",
           "transcribed arm by arm, and the structural specification `rootEof`.", "-/",
           "namespace Jxl.EofChain", ""]
    for _, _, lean in CRATES:
        vs = enums[lean]
        out.append(f"inductive {lean} where")
        for name, pay in vs:
            c = lower_first(name)
            if pay == "IO":
                out.append(f"  | {c} (unexpectedEof : Bool)")
            elif pay:
                out.append(f"  | {c} (e : {pay})")
            else:
                out.append(f"  | {c}")
        out.append("deriving DecidableEq, Repr")
        out.append("")
        out.append(f"/-- `{lean}::unexpected_eof`, transcribed -/")
        out.append(f"def {lean}.unexpectedEof : {lean} → Bool")
        for pat, rhs in fns[lean]:
            out.append(f"  | {pat} => {rhs}")
        out.append("  | _ => false")
        out.append("")
        out.append("/-- specification: the innermost wrapped error is an unexpected end of file -/")
        out.append(f"def {lean}.rootEof : {lean} → Bool")
        n = 0
        for name, pay in vs:
            c = lower_first(name)
            if pay == "IO":
                out.append(f"  | .{c} k => k"); n += 1
            elif pay:
                out.append(f"  | .{c} e => {pay}.rootEof e"); n += 1
        if n < len(vs):
            out.append("  | _ => false")
        out.append("")
    # values by path, for the correspondence run: `frame.modular.decoder.bitstream.io1`
    for _, _, lean in CRATES:
        out.append(f"def {lean}.ofPath : List String → Option {lean}")
        for name, pay in enums[lean]:
            c = lower_first(name)
            if pay == "IO":
                out.append(f'  | ["{c}1"] => some (.{c} true)')
                out.append(f'  | ["{c}0"] => some (.{c} false)')
            elif pay:
                out.append(f'  | "{c}" :: r => ({pay}.ofPath r).map .{c}')
            else:
                out.append(f'  | ["{c}"] => some .{c}')
        out.append("  | _ => none")
        out.append("")
    out.append("/-- `unexpected_eof()` of the value named by a path whose first component is the crate -/")
    out.append("def evalPath : List String → Option Bool")
    for crate, _, lean in CRATES:
        out.append(f'  | "{crate[4:]}" :: r => ({lean}.ofPath r).map (·.unexpectedEof)')
    out.append("  | _ => none")
    out.append("")
    out.append("/-- the crates whose chain is transcribed, in dependency order -/")
    out.append("def crates : List String := [" + ", ".join(f'"{c}"' for c, _, _ in CRATES) + "]")
    out.append("")
    out.append("end Jxl.EofChain")
    return "\n".join(out) + "\n"


def main():
    try:
        text = generate()
    except (ParseError, OSError) as e:
        print(f"translate_c11: CANNOT TRANSCRIBE the unexpected_eof chain: {e}", file=sys.stderr)
        sys.exit(2)
    dst = os.path.join(LEAN, "JxlModel", "Gen", "EofChain.lean")
    os.makedirs(os.path.dirname(dst), exist_ok=True)
    old = open(dst).read() if os.path.exists(dst) else None
    if old != text:
        open(dst, "w").write(text)
        print("translate_c11: wrote", dst)
    else:
        print("translate_c11: up to date")


if __name__ == "__main__":
    main()
