#!/bin/bash
# usage: proc_mut.sh <prop-lower> <identA> [<identB>]
p=$1; shift
L=/tmp/proc-$p.log
X=A
for id in "$@"; do
  if [ -f /tmp/mut3-$p/$X/patch.diff ]; then
    echo "== confirm $id" >> $L
    (cd /verif && python3 tools/confirm_mutant.py /tmp/mut3-$p/$X $id) >> $L 2>&1
    if [ -f /verif/seeded/$id/meta.json ]; then
      (cd /verif && python3 tools/run_seeded_slot.py $p seeded/$id) >> $L 2>&1
    fi
  fi
  X=B
done
echo "== done" >> $L
