#!/bin/bash
# usage: tools/integrate.sh <name>  -- copy an agent's new files into /verif (shared files are listed, not copied)
N=$1; S=/tmp/ag-$N/verif
cd $S
rsync -a --exclude harness/target --exclude 'lean/.lake' --exclude work --exclude evidence --exclude .git \
  --exclude lean/Main.lean --exclude tools/gen_manifest.py --exclude tools/vlib.py --exclude lean/statements.lock \
  --exclude MANIFEST.json --exclude known_findings.json --exclude harness/Cargo.toml --exclude harness/Cargo.lock \
  --exclude tools/agent_setup.sh --exclude '__pycache__' --exclude tools/integrate.sh \
  --ignore-existing -v $S/ /verif/ | grep -v "/$" | head -80
echo "--- shared files that differ:"
for f in lean/Main.lean tools/gen_manifest.py tools/vlib.py known_findings.json harness/Cargo.toml; do
  if ! diff -q $S/$f /verif/$f >/dev/null 2>&1; then echo "  $f"; fi
done
echo "--- existing files the agent modified (not copied):"
rsync -a --dry-run --itemize-changes --exclude harness/target --exclude 'lean/.lake' --exclude work --exclude evidence --exclude .git \
  --exclude lean/Main.lean --exclude tools/gen_manifest.py --exclude tools/vlib.py --exclude lean/statements.lock \
  --exclude MANIFEST.json --exclude known_findings.json --exclude harness/Cargo.toml --exclude harness/Cargo.lock --exclude '__pycache__' \
  --existing $S/ /verif/ | grep "^>f" | head -20
