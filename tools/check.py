#!/usr/bin/env python3
"""Entry point: tools/check.py <Cxx> [--tier quick|thorough] [--update-lock] [--replay path]"""
import argparse, importlib, os, sys, traceback
sys.path.insert(0, os.path.dirname(os.path.abspath(__file__)))
import vlib


def main():
    ap = argparse.ArgumentParser()
    ap.add_argument("prop")
    ap.add_argument("--tier", default=os.environ.get("VERIF_TIER", "quick"), choices=["quick", "thorough"])
    ap.add_argument("--update-lock", action="store_true")
    ap.add_argument("--replay")
    a = ap.parse_args()
    seed = int(os.environ.get("VERIF_SEED", "1") or 1)
    prop = a.prop.upper()
    ctx = vlib.Ctx(prop, a.tier, seed)
    ctx.update_lock = a.update_lock
    ctx.replay = a.replay
    mod = importlib.import_module("props." + prop.lower())
    try:
        mod.run(ctx)
    except vlib.BuildError as e:
        # the harness no longer builds against /repo: the tie is broken, nothing could be explored
        ctx.failed_obligations.append(str(e)[:3000])
    except Exception:
        ctx.failed_obligations.append("check crashed: " + traceback.format_exc()[-3000:])
    sys.exit(ctx.finish(getattr(mod, "LEVEL", "proof")))


if __name__ == "__main__":
    main()
