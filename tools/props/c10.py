"""C10 — container framing. Theorems: Props/C10.lean (box header round trip, chunking invariance of
the parser state machine, exact delivery for every well-formed file, rejection of ill-formed
layouts, consumed <= input + progress measure).
Correspondence: container files generated from the Spec type (random box lists, all three size
encodings, empty payloads, boxes after the codestream, jxlp splits at arbitrary offsets, ill-formed
variants, mutated/truncated bytes), fed to the public `jxl_bitstream::ContainerParser` whole, in
random chunkings, one byte at a time and (small files) in every 2-way split, with unconsumed bytes
re-offered; the same lines go to the Lean model. The property oracle is evaluated on the
implementation's own events first: events concatenate to the expected codestream / aux payloads
regardless of chunking, ill-formed layouts give an error, every chunking gives the same
concatenation-normalised stream as one buffer, consumed <= offered.

Layer above (`AuxBoxList` behind `JxlImage::aux_boxes()`, theorems `C10_aux_*`, model
`Model/AuxBox.lean`, harness `c10a`): container files that carry a *valid* codestream (from the
Lean reference encoder) split over jxlc / jxlp boxes, with Exif / xml / other boxes, plain or as
`brob` with hand-made *stored* Brotli streams (and truncated / trailing-garbage / empty /
reserved-bit streams, jbrd boxes with garbage), final box sized or running to end of file, are put
through `build_uninit` -> `feed_bytes`/`try_init` -> `JxlImage::feed_bytes` -> `finalize()` whole,
byte-wise, in random chunkings, every 2-way split and on truncated prefixes, and through
`JxlImage::builder().read`.  Oracle first (from the boxes the generator wrote, independent of the
decoder): after `finalize()` / `read` `first_exif()` / `first_xml()` are the first such box,
validated; before that only `Decoding` or the final answer; a bad brob / jbrd gives an error.
Then the model-vs-implementation diff word by word."""
from vlib import *

MODULES = ["JxlModel.Props.C10"]
SIG = bytes.fromhex("0000000c4a584c200d0a870a")
AUX_TYPES = [b"Exif", b"xml ", b"jumb", b"ftyp", b"jxll", b"jxli", b"jbrd", b"jhgm", b"JXL ", b"abcd", b"\0\0\0\1",
             b"\0\0\0\0", b"jxlx"]
INNER_TYPES = [b"Exif", b"xml ", b"jumb", b"abcd", b"ftyp", b"\0\0\0\1", b"jhgm"]
RESERVED_INNER = [b"jxlc", b"jxlp", b"jxll", b"jxli", b"brob", b"jbrd", b"jxl\0"]


# ---------------------------------------------------------------- Spec (mirrors Model/Container.lean Spec.*)
def ser_header(ty, n, enc):
    if enc == "short":
        return (n + 8).to_bytes(4, "big") + ty
    if enc == "long":
        return (1).to_bytes(4, "big") + ty + (n + 16).to_bytes(8, "big")
    return (0).to_bytes(4, "big") + ty


def box_ty(b):
    return {"jxlc": b"jxlc", "jxlp": b"jxlp", "brob": b"brob"}.get(b["k"]) or b["ty"]


def box_payload(b):
    if b["k"] == "jxlp":
        return (b["index"] + (2 ** 31 if b["last"] else 0)).to_bytes(4, "big") + b["data"]
    if b["k"] == "brob":
        return b["ty"] + b["data"]
    return b["data"]


def ser_box(b):
    p = box_payload(b)
    return ser_header(box_ty(b), len(p), b["enc"]) + p


def ser_file(boxes):
    return SIG + b"".join(ser_box(b) for b in boxes)


def spec_codestream(boxes):
    return b"".join(b["data"] for b in boxes if b["k"] in ("jxlc", "jxlp"))


def spec_aux(boxes):
    return [(b["ty"], b["k"] == "brob", b["data"], b["enc"] == "eof") for b in boxes if b["k"] in ("aux", "brob")]


# ---------------------------------------------------------------- generators
def rbytes(rng, n):
    return bytes(rng.getrandbits(8) for _ in range(n))


def rlen(rng):
    r = rng.random()
    if r < 0.2:
        return 0
    if r < 0.7:
        return rng.randint(1, 12)
    if r < 0.95:
        return rng.randint(13, 80)
    return rng.randint(81, 600)


def renc(rng):
    return "long" if rng.random() < 0.4 else "short"


def gen_aux(rng):
    if rng.random() < 0.35:
        ty = rng.choice(INNER_TYPES) if rng.random() < 0.8 else rbytes(rng, 4)
        if ty[:3] == b"jxl" or ty in (b"brob", b"jbrd"):
            ty = b"Exif"
        return {"k": "brob", "ty": ty, "data": rbytes(rng, rlen(rng)), "enc": renc(rng)}
    ty = rng.choice(AUX_TYPES) if rng.random() < 0.85 else rbytes(rng, 4)
    if ty in (b"jxlc", b"jxlp", b"brob"):
        ty = b"xml "
    return {"k": "aux", "ty": ty, "data": rbytes(rng, rlen(rng)), "enc": renc(rng)}


def gen_wf(rng, cs=None, gen_aux=None):
    """a well-formed box list (Spec.wf); `cs` = codestream to carry (random bytes if None, in which
    case the file may also have no codestream box at all), `gen_aux` = generator of the other boxes"""
    gen_aux = gen_aux or globals()["gen_aux"]
    boxes = []
    for _ in range(rng.choice([0, 0, 1, 1, 2, 3])):
        boxes.append(gen_aux(rng))
    mode = rng.random()
    if cs is None:
        cs = rbytes(rng, rlen(rng) + rlen(rng))
    else:
        mode *= 0.92
    if mode < 0.3:
        boxes.append({"k": "jxlc", "data": cs, "enc": renc(rng)})
    elif mode < 0.92:
        k = rng.choice([1, 2, 2, 3, 3, 4, 6])
        cuts = sorted(rng.randint(0, len(cs)) for _ in range(k - 1))
        parts = [cs[a:b] for a, b in zip([0] + cuts, cuts + [len(cs)])]
        set_last = rng.random() < 0.8
        for i, p in enumerate(parts):
            boxes.append({"k": "jxlp", "index": i, "last": set_last and i == k - 1, "data": p, "enc": renc(rng)})
            for _ in range(rng.choice([0, 0, 0, 1, 2])):
                boxes.append(gen_aux(rng))
    # else: no codestream box at all
    for _ in range(rng.choice([0, 0, 1, 2])):
        boxes.append(gen_aux(rng))
    if boxes and rng.random() < 0.35:
        boxes[-1]["enc"] = "eof"
    return boxes


def gen_ill(rng, cs=None, gen_aux=None):
    """(file bytes, tag, expected error word) — layouts the parser must reject"""
    gen_aux = gen_aux or globals()["gen_aux"]
    for _ in range(100):
        boxes = gen_wf(rng, cs, gen_aux)
        if boxes and boxes[-1]["enc"] == "eof":
            boxes[-1]["enc"] = "short"
        idx = [i for i, b in enumerate(boxes) if b["k"] in ("jxlc", "jxlp")]
        kind = rng.choice(["dup-jxlc", "jxlc-after-jxlp", "jxlp-after-jxlc", "index-skip", "index-repeat",
                           "index-start", "jxlp-after-last", "jxlp-small", "brob-small", "brob-reserved",
                           "size-2-7", "xl-small"])
        tail = [gen_aux(rng) for _ in range(rng.choice([0, 0, 1]))]
        pos = rng.randint(0, len(boxes))
        raw_insert = None
        if kind == "dup-jxlc":
            if not (idx and boxes[idx[0]]["k"] == "jxlc"):
                continue
            pos = rng.randint(idx[0] + 1, len(boxes))
            bad = {"k": "jxlc", "data": rbytes(rng, rlen(rng)), "enc": renc(rng)}
        elif kind == "jxlc-after-jxlp":
            if not (idx and boxes[idx[0]]["k"] == "jxlp"):
                continue
            pos = rng.randint(idx[0] + 1, len(boxes))
            bad = {"k": "jxlc", "data": rbytes(rng, rlen(rng)), "enc": renc(rng)}
        elif kind == "jxlp-after-jxlc":
            if not (idx and boxes[idx[0]]["k"] == "jxlc"):
                continue
            pos = rng.randint(idx[0] + 1, len(boxes))
            bad = {"k": "jxlp", "index": rng.choice([0, 1]), "last": rng.random() < 0.5, "data": rbytes(rng, rlen(rng)), "enc": renc(rng)}
        elif kind in ("index-skip", "index-repeat", "index-start"):
            js = [i for i in idx if boxes[i]["k"] == "jxlp"]
            if not js:
                continue
            j = js[0] if kind == "index-start" else rng.choice(js)
            b = dict(boxes[j])
            b["index"] = {"index-skip": b["index"] + rng.choice([1, 2, 2 ** 31 - 1 - b["index"]]),
                          "index-repeat": b["index"] - 1, "index-start": rng.choice([1, 2, 2 ** 31 - 1])}[kind]
            if b["index"] < 0 or b["index"] >= 2 ** 31 or b["index"] == boxes[j]["index"]:
                continue
            boxes = boxes[:j] + [b] + boxes[j + 1:]
            return ser_file(boxes), kind, "invalid-box"
        elif kind == "jxlp-after-last":
            js = [i for i in idx if boxes[i]["k"] == "jxlp"]
            if not js or not boxes[js[-1]]["last"]:
                continue
            pos = rng.randint(js[-1] + 1, len(boxes))
            bad = {"k": "jxlp", "index": boxes[js[-1]]["index"] + 1, "last": rng.random() < 0.5, "data": rbytes(rng, rlen(rng)), "enc": renc(rng)}
        elif kind == "jxlp-small":
            if idx and boxes[idx[0]]["k"] == "jxlc":
                continue
            js = [i for i in idx if boxes[i]["k"] == "jxlp"]
            pos = rng.randint(0, len(boxes))
            n = rng.randint(0, 3)
            raw_insert = ser_header(b"jxlp", n, renc(rng)) + rbytes(rng, n)
        elif kind == "brob-small":
            n = rng.randint(0, 3)
            raw_insert = ser_header(b"brob", n, renc(rng)) + rbytes(rng, n)
        elif kind == "brob-reserved":
            bad = {"k": "brob", "ty": rng.choice(RESERVED_INNER), "data": rbytes(rng, rlen(rng)), "enc": renc(rng)}
            data = ser_file(boxes[:pos] + [bad] + tail + boxes[pos:] if rng.random() < 0.5 else boxes[:pos] + [bad])
            return data, kind, "validation"
        elif kind == "size-2-7":
            raw_insert = rng.randint(2, 7).to_bytes(4, "big") + rng.choice(AUX_TYPES + [b"jxlc", b"jxlp", b"brob"]) + rbytes(rng, rng.randint(0, 9))
        elif kind == "xl-small":
            raw_insert = (1).to_bytes(4, "big") + rng.choice(AUX_TYPES + [b"jxlc", b"jxlp", b"brob"]) + rng.randint(0, 15).to_bytes(8, "big") + rbytes(rng, rng.randint(0, 9))
        if raw_insert is not None:
            data = SIG + b"".join(ser_box(b) for b in boxes[:pos]) + raw_insert + b"".join(ser_box(b) for b in tail + boxes[pos:])
            return data, kind, "invalid-box"
        return ser_file(boxes[:pos] + [bad] + tail + boxes[pos:]), kind, "invalid-box"
    raise RuntimeError("ill-formed generator starved")


def gen_mutant(rng):
    """bytes that follow no rule: mutated / truncated / spliced files, bare and invalid signatures"""
    data = bytearray(ser_file(gen_wf(rng)))
    r = rng.random()
    if r < 0.15:
        return bytes([0xff, 0x0a]) + rbytes(rng, rlen(rng))
    if r < 0.25:
        return rbytes(rng, rng.randint(0, 40))
    if r < 0.35:
        return bytes(data[:rng.randint(0, 12)]) + rbytes(rng, rng.randint(0, 3))
    for _ in range(rng.choice([1, 1, 2, 4])):
        if not data:
            break
        k = rng.random()
        p = rng.randrange(len(data))
        if k < 0.4:
            data[p] ^= 1 << rng.randrange(8)
        elif k < 0.6:
            data[p] = rng.choice([0, 1, 0xff, 8, 16])
        elif k < 0.8:
            del data[p:p + rng.randint(1, 6)]
        else:
            data[p:p] = rbytes(rng, rng.randint(1, 6))
    if rng.random() < 0.4:
        data = data[:rng.randint(0, len(data))]
    return bytes(data)


def header_boundaries(data):
    """offsets worth splitting at: a cheap scan for plausible box starts (only used to aim splits)"""
    out, p = {0, 2, 12}, 12
    while p + 8 <= len(data):
        s = int.from_bytes(data[p:p + 4], "big")
        hs = 8
        if s == 1 and p + 16 <= len(data):
            s, hs = int.from_bytes(data[p + 8:p + 16], "big"), 16
        out |= {p, p + 4, p + 8, p + hs, p + hs + 4, p + 12, p + 15}
        if s < hs:
            break
        p += s
        out |= {p - 1, p + 1}
    return sorted(x for x in out if 0 <= x <= len(data))


def random_chunkings(rng, data, n):
    res = []
    hb = header_boundaries(data)
    for _ in range(n):
        k = rng.choice([2, 2, 3, 4, 6, 9])
        cuts = sorted((rng.choice(hb) if rng.random() < 0.5 else rng.randint(0, len(data))) for _ in range(k - 1))
        res.append([data[a:b] for a, b in zip([0] + cuts, cuts + [len(data)])])
    return res


# ---------------------------------------------------------------- evaluation of one session's output
def hx(b):
    return b.hex() if b else "-"


def unhx(s):
    return b"" if s == "-" else bytes.fromhex(s)


def session_ops(chunks):
    return ["new"] + ["push " + hx(c) for c in chunks] + ["finish"]


def parse_session(chunks, outs):
    """-> dict(tokens=[...], err=None|word, consumed=int, abnormal=None|str). Tokens are the
    concatenation-normal form: data events merged per box, empty data dropped."""
    toks, err, consumed, offered, pending = [], None, 0, 0, 0
    if not outs or outs[0] != "ok":
        return {"abnormal": "no answer to new: %r" % (outs[:1],)}
    for c, o in zip(chunks, outs[1:1 + len(chunks)]):
        if o == "dead":
            if err is None:
                return {"abnormal": "dead without error"}
            continue
        w = o.split()
        if len(w) < 2 or not w[0].startswith("consumed=") or not w[1].startswith("kind="):
            return {"abnormal": "abnormal answer " + o[:200]}
        n = int(w[0][9:])
        if n > pending + len(c):
            return {"abnormal": f"consumed {n} > offered {pending + len(c)}"}
        if err is None:
            pending = pending + len(c) - n
            consumed += n
        for e in w[2:]:
            f = e.split(":")
            if f[0] == "CS":
                d = unhx(f[1])
                if toks and toks[-1][0] == "CS":
                    toks[-1] = ("CS", toks[-1][1] + d)
                elif d:
                    toks.append(("CS", d))
            elif f[0] == "DATA":
                d = unhx(f[2])
                if toks and toks[-1][0] == "DATA" and toks[-1][1] == f[1]:
                    toks[-1] = ("DATA", f[1], toks[-1][2] + d)
                elif d:
                    toks.append(("DATA", f[1], d))
            elif f[0] == "ERR":
                err = f[1]
            elif f[0] in ("K", "NOMORE", "START", "END"):
                toks.append(tuple(f))
            else:
                return {"abnormal": "abnormal event " + e[:100]}
    fin = outs[1 + len(chunks)] if len(outs) > 1 + len(chunks) else ""
    return {"abnormal": None, "tokens": toks, "err": err, "consumed": consumed, "pending": pending, "finish": fin}


def delivered(toks):
    """codestream bytes and aux boxes (type, brotli, payload, last flag, ended) from a token list"""
    cs, aux = b"", []
    for i, t in enumerate(toks):
        if t[0] == "CS":
            cs += t[1]
        elif t[0] == "START":
            aux.append([bytes.fromhex(t[1]), t[2] == "1", b"", t[3] == "1", False])
        elif t[0] == "DATA":
            if not aux or aux[-1][4] or aux[-1][0].hex() != t[1]:
                return None
            aux[-1][2] += t[2]
        elif t[0] == "END":
            if not aux or aux[-1][4] or aux[-1][0].hex() != t[1]:
                return None
            aux[-1][4] = True
    return cs, aux


def exp_to_json(exp):
    if exp is None:
        return None
    if exp[0] == "wf":
        return {"kind": "wf", "codestream": exp[1].hex(), "aux": [[a.hex(), b, c.hex(), d] for a, b, c, d in exp[2]]}
    return {"kind": "ill", "error": exp[1]}


def exp_from_json(j):
    if not j:
        return None
    if j["kind"] == "wf":
        return ("wf", bytes.fromhex(j["codestream"]),
                [(bytes.fromhex(a), b, bytes.fromhex(c), d) for a, b, c, d in j["aux"]])
    return ("ill", j["error"])


def make_sessions(rng, plan, n_chunkings):
    sessions = []          # (plan index, chunks); the whole-buffer session of a file always comes first
    for pi, (tag, data, exp, how) in enumerate(plan):
        sessions.append((pi, [data]))
        if isinstance(how, list):                       # explicit chunk lengths (replay)
            for lens in how:
                ch, p = [], 0
                for n in lens:
                    ch.append(data[p:p + n]); p += n
                sessions.append((pi, ch))
            continue
        if how == "all2":
            for s in range(0, len(data) + 1):
                sessions.append((pi, [data[:s], data[s:]]))
        for ch in random_chunkings(rng, data, n_chunkings if how == "rand" else 3):
            sessions.append((pi, ch))
        if 0 < len(data) <= 300:
            sessions.append((pi, [data[i:i + 1] for i in range(len(data))]))
    return sessions


def evaluate(ctx, plan, sessions, ok, state):
    """run one batch on implementation and model; property oracle first, then the diff"""
    all_ops, bounds = [], []
    for pi, ch in sessions:
        ops = session_ops(ch)
        bounds.append((len(all_ops), len(all_ops) + len(ops)))
        all_ops += ops
    impl, rc, err = ctx.run_impl("c10", all_ops)
    if rc != 0 or len(impl) != len(all_ops):
        ctx.failed_obligations.append(f"harness c10 died rc={rc} answered {len(impl)}/{len(all_ops)} {err[-300:]}")
        return
    model, rc2, err2 = ctx.run_model("c10", all_ops) if ok else (impl, 0, "")
    if ok and (rc2 != 0 or len(model) != len(all_ops)):
        ctx.failed_obligations.append(f"model driver died rc={rc2} {err2[-300:]}")
        model = impl
    whole = {}             # plan index -> parsed whole-buffer session
    reported = set()
    for (pi, ch), (a, b) in zip(sessions, bounds):
        tag, data, exp, how = plan[pi]
        ops, io, mo = all_ops[a:b], impl[a:b], model[a:b]
        res = parse_session(ch, io)
        replay = {"file_hex": data.hex(), "chunk_lengths": [len(c) for c in ch], "ops": ops, "impl": io,
                  "model": mo, "tag": tag, "expect": exp_to_json(exp),
                  "how": "python3 tools/check.py C10 --replay <this file>  (or feed ops to harness/target/debug/c10)"}

        def bad(kind, why, key):
            if (pi, kind) in reported:
                return
            reported.add((pi, kind))
            state["viol"] = state.get("viol", 0) + 1
            if state["viol"] <= 40:                      # enough replays; the rest would only repeat them
                ctx.violation(kind, why, replay, key=key)

        if res["abnormal"]:
            bad("implementation-abnormal", res["abnormal"], "c10:abnormal:" + res["abnormal"].split()[0])
            continue
        nonempty = sum(1 for c in ch if c)
        reached = any(t[0] in ("START", "CS") for t in res["tokens"]) or res["err"] is not None
        ctx.case((data, tuple(len(c) for c in ch)), nonempty >= 2 and reached)
        ctx.count("tag " + tag.split(":")[0] + (":" + tag.split(":")[1] if tag.startswith("ill:") else ""))
        ctx.count("result " + (("ERR:" + res["err"]) if res["err"] else "ok"))
        ctx.count("chunks %s" % ("1" if len(ch) == 1 else "2" if len(ch) == 2 else "3-9" if len(ch) < 10 else "bytewise"))
        if len(ch) == 1:
            whole[pi] = res
            ctx.count("file bytes %s" % ("<32" if len(data) < 32 else "32-127" if len(data) < 128 else "128-511" if len(data) < 512 else ">=512"))
            for t in res["tokens"]:
                ctx.count("event " + t[0])
            state["files"] += 1
            if len(ctx.cov["samples"]) < 5 and state["files"] % 211 == 1:
                ctx.sample({"tag": tag, "file_hex": data.hex()[:160], "impl": io[1][:240]})
        # ---- property oracle on the implementation's own output
        violated = False
        if exp and exp[0] == "wf":
            dl = delivered(res["tokens"])
            if res["err"] is not None:
                bad("well-formed-file-rejected", f"error {res['err']} on a well-formed file, chunks {[len(c) for c in ch]}",
                    "c10:wf-rejected:" + res["err"]); violated = True
            elif dl is None:
                bad("event-stream-malformed", "data/end event outside a matching aux box", "c10:malformed-events"); violated = True
            else:
                cs, aux = dl
                if cs != exp[1]:
                    bad("codestream-not-exact", f"delivered {len(cs)} codestream bytes, expected {len(exp[1])}, "
                        f"chunks {[len(c) for c in ch]}", "c10:codestream-mismatch"); violated = True
                elif [(x[0], x[1], x[2], x[3]) for x in aux] != exp[2]:
                    bad("aux-box-not-exact", f"delivered aux boxes differ from the file's, chunks {[len(c) for c in ch]}",
                        "c10:aux-mismatch"); violated = True
                elif res["consumed"] != len(data) or res["pending"] != 0:
                    bad("bytes-left-unconsumed", f"consumed {res['consumed']} of {len(data)}", "c10:unconsumed"); violated = True
        elif exp and exp[0] == "ill":
            if res["err"] is None:
                bad("ill-formed-accepted", f"{tag} accepted without error, chunks {[len(c) for c in ch]}",
                    "c10:ill-accepted:" + tag); violated = True
            elif res["err"] != exp[1]:
                bad("ill-formed-wrong-error", f"{tag}: error {res['err']}, expected {exp[1]}", "c10:ill-error-kind:" + tag); violated = True
        if not violated and len(ch) > 1 and pi in whole:
            w = whole[pi]
            if (res["tokens"], res["err"]) != (w["tokens"], w["err"]) or \
                    (res["err"] is None and (res["consumed"], res["finish"]) != (w["consumed"], w["finish"])):
                d = first_diff(res["tokens"], w["tokens"])
                bad("chunking-changes-events",
                    f"chunks {[len(c) for c in ch]}: error {res['err']} vs whole-buffer {w['err']}; normalised events differ at "
                    f"index {d}: {str(res['tokens'][d:d + 1])[:120] if d is not None else ''} vs "
                    f"{str(w['tokens'][d:d + 1])[:120] if d is not None else ''}",
                    "c10:chunking:" + tag.split(":")[0]); violated = True
        if violated:
            continue
        # ---- model vs implementation (raw lines: same events per call, same consumed counts)
        d = first_diff(io, mo)
        if d is not None and state["diffs"] < 10:
            state["diffs"] += 1
            ctx.failed_obligations.append(
                f"correspondence ContainerParser vs Jxl.Container.feed differs, file {data.hex()[:400]} chunks "
                f"{[len(c) for c in ch]} op#{d}: impl {io[d][:200]!r} model {mo[d][:200]!r}")


# ================================================================ layer above: AuxBoxList through JxlImage
ENC_LINE = ("img 2 2 8 0 1 0 1 0 0 frames 1 frame 0 1 1 0 0 0 0 0 0 0 0 0 0 1 0 0 0 0 wp 1 tr 0 pals 0 "
            "tree L 0 0 0 1 coded 0 chans 3 2 2 1 2 3 4 2 2 0 0 0 0 2 2 9 8 7 6")
IMG_TYPES = [b"Exif", b"Exif", b"Exif", b"xml ", b"xml ", b"xml ", b"jumb", b"abcd", b"jxll", b"ftyp", b"\0\0\0\1"]


def valid_codestream(ctx):
    """a small valid codestream (2x2 RGB Modular) from the Lean reference encoder"""
    out, rc, err = ctx.run_model("enc", [ENC_LINE])
    if rc != 0 or not out or not out[0].startswith("ok "):
        raise BuildError("reference encoder gave no codestream: %r %s" % (out[:1], err[-200:]))
    return bytes.fromhex(out[0].split()[1])


def stored_brotli(rng, d):
    """a Brotli stream of uncompressed meta-blocks only that decompresses to `d` (bits LSB-first:
    [WBITS 0] ISLAST 0, MNIBBLES 00, MLEN-1 (16 bits), ISUNCOMPRESSED 1, pad; raw bytes; ...; 03)"""
    if not d:
        return b"\x06"
    cuts = sorted(rng.randint(1, len(d) - 1) for _ in range(rng.choice([0, 0, 1, 2, 3]))) if len(d) > 1 else []
    parts, p = [], 0
    for c in cuts + [len(d)]:
        while c - p > 65536:
            parts.append(d[p:p + 65536]); p += 65536
        if c > p:
            parts.append(d[p:c]); p = c
    out = b""
    for i, part in enumerate(parts):
        n = len(part) - 1
        out += (((n << 4) | (1 << 20)) if i == 0 else ((n << 3) | (1 << 19))).to_bytes(3, "little") + part
    return out + b"\x03"


def gen_exif_payload(rng):
    """(payload, kind): offset field + body; mostly valid, sometimes too short / offset outside"""
    r = rng.random()
    if r < 0.08:
        return rbytes(rng, rng.randint(0, 3)), "short"
    body = rbytes(rng, rlen(rng))
    if r < 0.2:
        off = rng.choice([len(body), len(body) + 1, 2 ** 32 - 1, len(body) + rng.randint(0, 300)])
        return off.to_bytes(4, "big") + body, "offset-outside"
    if not body:
        body = rbytes(rng, rng.randint(1, 9))
    off = rng.choice([0, 0, 0, len(body) - 1, rng.randrange(len(body))])
    return off.to_bytes(4, "big") + body, "valid"


def gen_aux_img(rng):
    """one non-codestream box; `plain` = the payload the consumer must see (None: the box cannot be
    decoded, `bad` says why)"""
    r = rng.random()
    if r < 0.03:
        d = rng.choice([b"", rbytes(rng, rng.randint(1, 40))])
        return {"k": "aux", "ty": b"jbrd", "data": d, "enc": renc(rng), "plain": None, "bad": "jbrd"}
    ty = rng.choice(IMG_TYPES)
    plain = gen_exif_payload(rng)[0] if ty == b"Exif" else rbytes(rng, rlen(rng))
    if rng.random() < 0.015:
        plain = rbytes(rng, rng.randint(65000, 140000))      # several forced meta-blocks
    if rng.random() >= 0.4 or ty in (b"jxll", b"ftyp"):
        return {"k": "aux", "ty": ty, "data": plain, "enc": renc(rng), "plain": plain, "bad": None}
    z, bad = stored_brotli(rng, plain), None
    if rng.random() < 0.12:
        bad = rng.choice(["brob-truncated", "brob-truncated", "brob-trailing", "brob-empty", "brob-reserved-bit"])
        if bad == "brob-truncated":
            z = z[:rng.randrange(len(z))]
            bad = "brob-empty" if not z else bad
        elif bad == "brob-trailing":
            z = z + rbytes(rng, rng.randint(1, 5))
        elif bad == "brob-empty":
            z = b""
        else:
            z = b"\x1c" + z[1:]                               # metadata block with the reserved bit set
    return {"k": "brob", "ty": ty, "data": z, "enc": renc(rng), "plain": None if bad else plain, "bad": bad}


def gen_aux_img_good(rng):
    """like gen_aux_img, decodable boxes only (for layouts where another error is expected)"""
    while True:
        b = gen_aux_img(rng)
        if not b["bad"]:
            return b


def gen_wf_img(rng, cs):
    boxes = gen_wf(rng, cs, gen_aux_img)
    if boxes[-1]["enc"] != "eof" and rng.random() < 0.25:    # gen_wf already makes 35 % end in a to-eof box
        boxes[-1]["enc"] = "eof"
    return boxes


def exif_word(p):
    if len(p) < 4 or int.from_bytes(p[:4], "big") >= len(p) - 4:
        return "inv"
    return "D:%d:%s" % (int.from_bytes(p[:4], "big"), hx(p[4:]))


def img_truth(boxes):
    """what JxlImage must report for the file, from the boxes written (independent of the decoder)"""
    aux = [b for b in boxes if b["k"] in ("aux", "brob")]
    bad = next((i for i, b in enumerate(aux) if b.get("bad")), None)
    good = aux if bad is None else aux[:bad]
    fe = next((b for b in good if b["ty"] == b"Exif"), None)
    fx = next((b for b in good if b["ty"] == b"xml "), None)
    return {"bad": None if bad is None else aux[bad]["bad"],
            "exif": exif_word(fe["plain"]) if fe else None, "xml": "D:" + hx(fx["plain"]) if fx else None,
            "any_exif": any(b["ty"] == b"Exif" for b in aux), "any_xml": any(b["ty"] == b"xml " for b in aux),
            "any_jbrd": any(b["ty"] == b"jbrd" for b in aux)}


def truth_to_json(t):
    return t


def expand_words(line):
    """undo the `=` abbreviation; returns the word list"""
    out, last = [], None
    for w in line.split():
        if w == "=":
            out.append(last if last is not None else "=")
        else:
            out.append(w)
            if w.startswith("r/"):
                last = w
    return out


def split_state(w):
    """r/<exif>/<xml>/<jbrd> -> (exif, xml, jbrd)"""
    f = w.split("/")
    return (f[1], f[2], f[3]) if len(f) == 4 and f[0] == "r" else None


def img_sessions(rng, data, how, n_rand):
    """list of ops: ('sess', [lens]) / ('read',)"""
    n = len(data)
    ops = [("sess", [n]), ("read",)]
    if isinstance(how, list):
        return ops + [("sess", l) for l in how]
    if how == "all2":
        ops += [("sess", [k, n - k]) for k in range(0, n + 1)]
    hb = header_boundaries(data)
    for _ in range(n_rand):
        k = rng.choice([2, 2, 3, 4, 6, 9])
        cuts = sorted((rng.choice(hb) if rng.random() < 0.5 else rng.randint(0, n)) for _ in range(k - 1))
        ops.append(("sess", [b - a for a, b in zip([0] + cuts, cuts + [n])]))
    if 0 < n <= 400:
        ops.append(("sess", [1] * n))
    if n > 12 and how != "nopfx":                            # a truncated file, then finalize()
        m = rng.randint(12, n - 1)
        cuts = sorted(rng.randint(0, m) for _ in range(rng.choice([0, 1, 3])))
        ops.append(("sess", [b - a for a, b in zip([0] + cuts, cuts + [m])]))
    return ops


def evaluate_img(ctx, plan, ok, state, n_rand=3):
    """plan entries: (tag, data, truth dict | ('ill', word) | None, how)"""
    rng = ctx.rng
    lines, meta = [], []
    for pi, (tag, data, truth, how) in enumerate(plan):
        for op in img_sessions(rng, data, how, n_rand):
            if op[0] == "read":
                lines.append("read " + hx(data))
            else:
                lens = op[1]
                lines.append("sess %s %s" % (hx(data), "-" if lens == [len(data)] else ",".join(map(str, lens))))
            meta.append((pi, op))
    impl = run_lines_robust([ctx.harness_bin("c10a")], lines, per_line_timeout=20.0, batch=400)
    if ok:
        model, rc2, err2 = ctx.run_model("c10", lines)
        if rc2 != 0 or len(model) != len(lines):
            ctx.failed_obligations.append(f"model driver (aux ops) died rc={rc2} {err2[-300:]}")
            model = None
    else:
        model = None
    reported = set()
    for li, ((pi, op), line, io) in enumerate(zip(meta, lines, impl)):
        tag, data, truth, how = plan[pi]
        mo = model[li] if model else None
        lens = op[1] if op[0] == "sess" else None
        replay = {"layer": "aux", "file_hex": data.hex(), "chunk_lengths": lens, "op": line if len(line) < 4000 else line[:4000] + "...",
                  "impl": io[:3000], "model": (mo or "")[:3000], "tag": tag, "expect": truth,
                  "how": "python3 tools/check.py C10 --replay <this file>  (or: echo '<op>' | harness/target/debug/c10a ; "
                         "lean/.lake/build/bin/jxlmodel c10)"}

        def bad(kind, why, key):
            if (pi, kind) in reported:
                return
            reported.add((pi, kind))
            state["viol"] = state.get("viol", 0) + 1
            if state["viol"] <= 40:
                ctx.violation(kind, why, replay, key=key)

        if io is None or io.startswith(("panic", "crash", "hang", "bad-op")):
            bad("implementation-abnormal", "aux-box API: " + str(io)[:200], "c10:aux:abnormal:" + str(io).split()[0])
            continue
        words = expand_words(io)
        complete = op[0] == "read" or sum(lens) == len(data)
        chunks = 1 if op[0] == "read" else sum(1 for l in lens if l)
        ctx.case((data, "read" if op[0] == "read" else tuple(lens)), chunks >= 2 or op[0] == "read")
        ctx.count("aux-layer op " + ("read" if op[0] == "read" else "whole" if lens == [len(data)] else
                                     "truncated" if not complete else "2-way" if len(lens) == 2 else
                                     "bytewise" if len(lens) > 9 else "3-9 chunks"))
        violated = False
        err_words = [w for w in words if w.startswith(("E:", "fin:E:", "read:E:"))]
        states = [(i, split_state(w)) for i, w in enumerate(words) if w.startswith("r/")]
        final = states[-1][1] if states and (words[-1].startswith("r/")) and len(words) >= 2 and \
            words[-2].startswith(("fin:", "read:")) else None
        if isinstance(truth, dict):
            t = truth
            # ---- answers given at any time: Decoding or the final answer; NotFound only if final
            for i, st in states:
                last_word = final is not None and i == len(words) - 1
                if st is None:
                    bad("implementation-abnormal", "unreadable state word " + words[i][:80], "c10:aux:abnormal:word"); violated = True
                    break
                for name, got, want, anyb in (("exif", st[0], t["exif"], t["any_exif"]), ("xml", st[1], t["xml"], t["any_xml"])):
                    if got == "dec" and not (last_word and complete and words[-2] in ("fin:ok", "read:ok")):
                        continue
                    if got == "nf" and not anyb:
                        continue
                    if want is not None and got == want:
                        continue
                    if not complete and last_word:
                        continue                                 # a truncated file after finalize(): diff only
                    kind = ("aux-box-not-delivered-after-finalize" if last_word and got in ("dec", "nf") else
                            "aux-box-premature-notfound" if got == "nf" else "aux-box-wrong-data")
                    bad(kind, f"first_{name}() reports {got[:80]} at word {i} of {len(words)} "
                        f"({'after finalize' if last_word else 'while feeding'}), the file's first such box gives "
                        f"{str(want)[:80]}; op {op[0]} chunks {lens if lens and len(lens) < 12 else (len(lens) if lens else '')}",
                        "c10:aux:" + kind + ":" + name)
                    violated = True
                if not t["any_jbrd"] and last_word and complete and words[-2] in ("fin:ok", "read:ok") and st[2] != "nf":
                    bad("aux-jbrd-status", "no jbrd box in the file but jpeg_reconstruction_status() is not Unavailable "
                        "after finalize", "c10:aux:jbrd-status"); violated = True
            if complete and not violated:
                if t["bad"] is None:
                    if err_words:
                        bad("well-formed-file-rejected", f"{err_words[0]} on a well-formed file with decodable boxes; "
                            f"op {op[0]} chunks {lens if lens and len(lens) < 12 else ''}",
                            "c10:aux:wf-rejected:" + err_words[0]); violated = True
                    elif final is None:
                        bad("image-not-initialised", "valid codestream completely fed, still no image: " + io[-80:],
                            "c10:aux:uninit"); violated = True
                else:
                    want_cls = "jbrd" if t["bad"] == "jbrd" else "io"
                    if not err_words:
                        bad("undecodable-box-accepted", f"{t['bad']} box gave no error; final state {words[-1][:120]}",
                            "c10:aux:bad-accepted:" + t["bad"]); violated = True
                    elif not err_words[0].endswith("E:" + want_cls):
                        bad("undecodable-box-wrong-error", f"{t['bad']}: {err_words[0]}, expected class {want_cls}",
                            "c10:aux:bad-error:" + t["bad"]); violated = True
            ctx.count("aux-layer file " + ("bad:" + t["bad"] if t["bad"] else "good"))
        elif isinstance(truth, (list, tuple)) and truth and truth[0] == "ill":
            if complete:
                if not err_words:
                    bad("ill-formed-accepted", f"{tag} accepted by the JxlImage feeding API: {io[-120:]}",
                        "c10:aux:ill-accepted:" + tag); violated = True
                elif not err_words[0].endswith("E:" + truth[1]):
                    bad("ill-formed-wrong-error", f"{tag}: {err_words[0]}, expected {truth[1]}",
                        "c10:aux:ill-error:" + tag); violated = True
            ctx.count("aux-layer file ill")
        else:
            ctx.count("aux-layer file mutant")
        if op[0] == "sess" and lens == [len(data)]:
            state["img_files"] = state.get("img_files", 0) + 1
            if len(ctx.cov["samples"]) < 6 and state["img_files"] % 97 == 1:
                ctx.sample({"layer": "aux", "tag": tag, "file_hex": data.hex()[:200], "impl": io[:200]})
        for w in words:
            if w.startswith(("E:", "fin:", "read:")):
                ctx.count("aux-layer result " + w)
        if final:
            ctx.count("aux-layer final exif " + final[0].split(":")[0])
            ctx.count("aux-layer final xml " + final[1].split(":")[0])
        if violated or mo is None:
            continue
        # ---- model vs implementation, word by word (`u` = image not initialised: aux_boxes() unreachable)
        d = words_differ(words, expand_words(mo))
        if d == "codestream":
            ctx.count("aux-layer codestream error (not comparable)")
        elif d is not None and state["diffs"] < 10:
            mw = expand_words(mo)
            state["diffs"] += 1
            ctx.failed_obligations.append(
                f"correspondence AuxBoxList (JxlImage) vs Jxl.AuxBox model differs at word {d}: file {data.hex()[:300]} "
                f"op {line[:5]} lens {lens if lens and len(lens) < 12 else ''} impl {' '.join(words[d:d + 2])[:160]!r} "
                f"model {' '.join(mw[d:d + 2])[:160]!r}")


def words_differ(words, mw):
    """None if the implementation's words agree with the model's, else the index of the first
    difference.  `u` (image not initialised yet, aux_boxes() unreachable) matches anything; a session
    that never initialised ends in `fin:uninit`; the real Brotli / jbrd decoders may report a bad
    stream in an earlier call than the model (which reports it when the box is finalised); errors of
    the codestream decoder (mutants) are outside this model."""
    for i, a in enumerate(words):
        if a == "fin:uninit":
            return None
        if a.startswith(("E:other", "E:init")) or a in ("fin:E:other", "read:E:other", "read:E:eof"):
            return "codestream"
        if i >= len(mw):
            return i
        if a == mw[i] or a == "u":
            continue
        if a in ("E:io", "E:jbrd") and any(x in (a, "fin:" + a) for x in mw[i:]):
            return None
        return i
    return None if len(words) == len(mw) else len(words)


def mutate_img(rng, data):
    data = bytearray(data)
    for _ in range(rng.choice([1, 1, 2])):
        k, p = rng.random(), rng.randrange(len(data))
        if k < 0.5:
            data[p] ^= 1 << rng.randrange(8)
        elif k < 0.7:
            data[p] = rng.choice([0, 1, 0xff, 8, 16])
        elif k < 0.85:
            del data[p:p + rng.randint(1, 4)]
        else:
            data[p:p] = rbytes(rng, rng.randint(1, 4))
    return bytes(data)


def run_img_layer(ctx, ok, state):
    rng = ctx.rng
    cs = valid_codestream(ctx)
    ctx.notes["aux_layer_codestream"] = cs.hex()
    # ---- corpus: witnesses of this layer (`*.aux.hex`): every 2-way split, byte-wise, read
    plan = []
    cdir = os.path.join(VERIF, "corpus", "C10")
    for f in sorted(os.listdir(cdir)) if os.path.isdir(cdir) else []:
        if f.endswith(".auxhex"):
            txt, exp = "", {}
            for l in open(os.path.join(cdir, f)):
                if l.startswith("#expect "):
                    exp = json.loads(l[len("#expect "):])
                txt += l.split("#")[0]
            t = {"bad": exp.get("bad"), "exif": exp.get("exif"), "xml": exp.get("xml"),
                 "any_exif": exp.get("exif") is not None or exp.get("any_exif", False),
                 "any_xml": exp.get("xml") is not None or exp.get("any_xml", False), "any_jbrd": exp.get("any_jbrd", False)}
            plan.append(("corpus:" + f, bytes.fromhex("".join(txt.split())), t, "all2"))
    if plan:
        evaluate_img(ctx, plan, ok, state)
    batches = 8 if ctx.quick else 100
    small = 170 if ctx.quick else 400
    for _ in range(batches):
        plan = []
        for i in range(260):
            boxes = gen_wf_img(rng, cs)
            data = ser_file(boxes)
            t = img_truth(boxes)
            last = boxes[-1]
            ctx.count("aux-layer last box " + (("codestream" if last["k"] in ("jxlc", "jxlp") else last["k"]) +
                                               ("/to-eof" if last["enc"] == "eof" else "/sized")))
            for b in boxes:
                if b["k"] in ("aux", "brob"):
                    ctx.count("aux-layer box " + (b["k"] + (":" + b["bad"] if b.get("bad") else "")))
                    if b["ty"] == b"Exif" and b.get("plain") is not None:
                        ctx.count("aux-layer exif payload " + ("valid" if exif_word(b["plain"]) != "inv" else
                                                               "too-short" if len(b["plain"]) < 4 else "offset-outside"))
            plan.append(("wf", data, t, "all2" if (len(data) <= small and i < 45) else "rand"))
        for i in range(40):
            data, kind, word = gen_ill(rng, cs, gen_aux_img_good)
            plan.append(("ill:" + kind, data, ("ill", word), "nopfx"))
        for i in range(60):
            boxes = gen_wf(rng, cs, lambda r: {"k": "aux", "ty": r.choice(IMG_TYPES), "data": gen_exif_payload(r)[0],
                                               "enc": renc(r), "plain": None, "bad": None})
            plan.append(("mutant", mutate_img(rng, ser_file(boxes)), None, "rand"))
        evaluate_img(ctx, plan, ok, state)
        if any("died" in f for f in ctx.failed_obligations):
            break


def run(ctx):
    ok = ctx.lean_build(MODULES)
    if ok:
        ctx.audit(MODULES, ctx.update_lock)
        if not ctx.quick:
            ctx.leanchecker(MODULES)
    ctx.cargo_build(["c10", "c10a"])
    rng = ctx.rng
    state = {"files": 0, "diffs": 0}
    ctx.cov["rule"] = ("container files serialised from random Spec box lists (aux/brob/jxlc/jxlp, 32-bit, 64-bit and "
                       "to-end-of-file sizes, empty payloads, jxlp cut at arbitrary offsets, boxes after the codestream), "
                       "ill-formed variants (12 kinds), mutated/truncated files; each fed whole, in random chunkings aimed at "
                       "header boundaries, byte-by-byte (<=300 bytes) and in every 2-way split (small files); a case = "
                       "(file, chunking); non-trivial if the chunking has >=2 non-empty chunks and at least one box was reached; "
                       "distinct by content.  Aux-box layer: container files around one valid 2x2 codestream (jxlc or 1..6 "
                       "jxlp pieces), Exif (valid / too short / offset outside) / xml / other boxes, plain or brob with stored "
                       "Brotli streams (1..4 meta-blocks, empty, > 65536 bytes), bad streams (truncated, trailing bytes, empty, "
                       "reserved bit), garbage jbrd boxes, final box sized or to end of file; ill-formed layouts; mutants of "
                       "brob-free files; each through JxlImage whole, read(), byte-wise, random chunkings, every 2-way split "
                       "(small files) and one truncated prefix; a case = (file, op)")
    ctx.assumptions += [
        "usize = 64 bit (box sizes up to 2^64-1 are cast with `as usize`)",
        "the caller follows the documented protocol: it re-offers unconsumed bytes in front of the next chunk and stops at the first error",
        "Brotli decompression (brotli-decompressor) and jbrd parsing (jxl_jbr) are PARAMETERS of the AuxBoxList model "
        "(Codec.decompress : whole compressed stream -> Option output, Codec.jbrdOk); the theorems hold for every such pair. "
        "The correspondence run instantiates decompress with a decoder of stored-only Brotli streams (anything else = "
        "invalid) and jbrdOk = false: the generator writes only stored streams (checked against the real decoder by the "
        "oracle: the payload reported must be the bytes the generator compressed) and bad streams that are invalid for "
        "every Brotli decoder (proper prefix, trailing bytes, empty, reserved bit set); mutants are made from brob-free "
        "files only. The real decoder may report a bad stream in an earlier feed call than the model (which reports it "
        "when the box ends); both end the session with an error of the same class",
        "the codestream side of feed_bytes (frame parsing, try_init) is C09's; the aux-box campaign uses one valid "
        "codestream from the Lean reference encoder; aux_boxes() is only reachable once the image is initialised, so "
        "states before that are not observed (model words there are not compared)",
        "AuxBoxEnd / NoMoreAuxBox are only emitted once a byte after that position is offered; the Spec's `expected` says so explicitly",
    ]
    if getattr(ctx, "replay", None):
        r = json.load(open(ctx.replay))["replay"]
        if r.get("layer") == "aux":
            exp = r.get("expect")
            plan = [("replay:" + r.get("tag", ""), bytes.fromhex(r["file_hex"]), tuple(exp) if isinstance(exp, list) else exp,
                     [r["chunk_lengths"]] if r.get("chunk_lengths") else [])]
            evaluate_img(ctx, plan, ok, state, n_rand=0)
            return
        plan = [("replay:" + r.get("tag", ""), bytes.fromhex(r["file_hex"]), exp_from_json(r.get("expect")),
                 [r["chunk_lengths"]])]
        evaluate(ctx, plan, make_sessions(rng, plan, 0), ok, state)
        return
    # ---- corpus first (always, every 2-way split)
    plan = []
    cdir = os.path.join(VERIF, "corpus", "C10")
    if os.path.isdir(cdir):
        for f in sorted(os.listdir(cdir)):
            if f.endswith(".hex"):
                txt = "".join(l.split("#")[0] for l in open(os.path.join(cdir, f))).split()
                plan.append(("corpus:" + f, bytes.fromhex("".join(txt)), None, "all2"))
    evaluate(ctx, plan, make_sessions(rng, plan, 8), ok, state)
    # ---- seeded campaign in batches
    batches = 12 if ctx.quick else 150
    exhaustive_max = 140 if ctx.quick else 512
    n_sessions = 0
    for _ in range(batches):
        plan = []
        for i in range(500):
            boxes = gen_wf(rng)
            data = ser_file(boxes)
            plan.append(("wf", data, ("wf", spec_codestream(boxes), spec_aux(boxes)),
                         "all2" if (len(data) <= exhaustive_max and i < 50) else "rand"))
        for i in range(250):
            data, kind, word = gen_ill(rng)
            plan.append(("ill:" + kind, data, ("ill", word), "all2" if (len(data) <= exhaustive_max and i < 25) else "rand"))
        for i in range(350):
            data = gen_mutant(rng)
            plan.append(("mutant", data, None, "all2" if (len(data) <= exhaustive_max and i < 25) else "rand"))
        sessions = make_sessions(rng, plan, 8)
        n_sessions += len(sessions)
        evaluate(ctx, plan, sessions, ok, state)
        if ctx.failed_obligations and any("died" in f for f in ctx.failed_obligations):
            break
    ctx.notes["sessions"] = n_sessions
    ctx.notes["files"] = state["files"]
    # ---- the layer above: AuxBoxList through JxlImage
    t1 = time.time()
    run_img_layer(ctx, ok, state)
    ctx.notes["aux_layer_files"] = state.get("img_files", 0)
    ctx.notes["aux_layer_s"] = round(time.time() - t1, 1)
