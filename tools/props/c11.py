"""C11 — every prefix of a valid stream means "need more data", never corruption.
Theorems: Props/C11.lean (model: Model/Feed.lean; Gen/EofChain.lean is regenerated from the crates'
error.rs files by tools/translate_c11.py on every run).
Correspondence: (1) the generated unexpected_eof chain against the real functions on every error
value that can be named by a path; (2) the real API on every byte cut of encoder streams <= 2 KiB
(200 sampled cuts of longer ones and of the fixture): try_init answers need-more or ok, feed never
errs, render_loading_frame = image with the full dimensions or need-more-data (anything else, or a
panic, is a violation), then the rest of the bytes: final observables and renders = clean decode;
random subsets of cuts with (repeated) render attempts, same final comparison — this is the check of
the obligation `CutClean` (no non-EOF error on a truncated section, no persistent poison such as
AllGroupOffsets.has_error or a stale render cache) on the real code; (3) model vs implementation on
the states at the cuts."""
import glob, json, subprocess
from vlib import *
import planlib as pl
import feedlib as fl

MODULES = ["JxlModel.Props.C11"]


def regenerate(ctx):
    rc, out, err, _ = sh([sys.executable, os.path.join(VERIF, "tools", "translate_c11.py")])
    ctx.notes["translate_c11"] = (out + err).strip()[-300:]
    if rc != 0:
        ctx.failed_obligations.append("translate_c11.py cannot transcribe the unexpected_eof chain: " + (out + err)[-600:])
        return False
    return True


def eof_chain(ctx):
    """every value nameable by a path: real unexpected_eof() vs the generated function"""
    sys.path.insert(0, os.path.join(VERIF, "tools"))
    import translate_c11 as t
    enums = t.parse_all()
    crate_of = {lean: crate[4:] for crate, _, lean in t.CRATES}

    def paths(ty):
        out = []
        for name, pay in enums[ty]:
            c = t.lower_first(name)
            if pay == "IO":
                out += [[c + "1"], [c + "0"]]
            elif pay:
                out += [[c] + p for p in paths(pay)]
            else:
                out.append([c])
        return out
    allp = [".".join([crate_of[ty]] + p) for ty in enums for p in paths(ty)]
    impl = run_lines_robust([fl.H(ctx)], ["eof:" + p for p in allp])
    model = run_lines_robust([MODEL_EXE, "c11"], ["eof " + p for p in allp])
    n = 0
    for p, a, b in zip(allp, impl, model):
        if a == "unknown":
            ctx.count("eof-chain:not-constructible")
            continue
        n += 1
        ctx.case(("eof", p), nontrivial=True)
        ctx.count("eof-chain:" + str(a))
        if a != b:
            ctx.failed_obligations.append(f"generated unexpected_eof chain differs from the code on {p}: code {a}, model {b}")
    ctx.notes["eof_chain_values_compared"] = n


def judge(ctx, kind, what, clean, hdr_dims, script, meta, out, base, force_key=None):
    """property oracle on one script; `force_key` keys every violation of a corpus witness that is
    a listed known finding"""
    parts = (out or "crash").split(" | ")
    ops = script.split()[1:]
    ctx.case((what, meta), nontrivial=True)
    replay = dict(base, script=script if len(script) < 20000 else script[:20000] + "...", cuts=meta,
                  clean_report=fl.strip_report(clean)[:500], how="echo '<script>' | harness/target/debug/c09")
    if len(parts) != len(ops):
        ctx.violation("decoder-crashed-or-hung", (out or "crash")[:300], replay, key="crash:" + kind)
        return False
    for o, p in zip(ops, parts):
        if o == "loading":
            w = p.split()[0] if p else "?"
            if w == "img":
                f = fl.fields(p)
                dims = p.split()[1]
                iw, ih = (int(x) for x in hdr_dims.split("x"))
                ctx.count("loading:image")
                if dims != hdr_dims or f.get("px") != str(iw * ih):
                    ctx.violation("loading-render-has-wrong-dimensions", {"got": p[:80], "image": hdr_dims}, replay,
                                  key="loading-dims")
                    return False
            elif w in ("needmore", "uninit"):
                ctx.count("loading:" + w)
            else:
                key = force_key or (fl.panic_key(p) if w == "panic" else "loading:" + w)
                ctx.violation("render-loading-frame-neither-image-nor-need-more-data", p[:300], replay, key=key)
                return False
        elif o.startswith("push"):
            if fl.bad_feed(p):
                key = fl.panic_key(p) if p.startswith("panic") else "feed-error"
                ctx.violation("feed-or-init-failed-on-a-prefix-of-a-valid-stream", p[:300], replay, key=key)
                return False
            ctx.count("prefix-state:" + fl.fields(p).get("st", "?"))
    if fl.strip_report(parts[-1]) != fl.strip_report(clean):
        a, b = fl.fields(fl.strip_report(clean)), fl.fields(fl.strip_report(parts[-1]))
        diff = sorted(k for k in set(a) | set(b) if a.get(k) != b.get(k))
        ctx.violation("final-result-changed-by-prefix-attempts", {"fields": diff, "got": parts[-1][:400]}, replay,
                      key="final:" + ",".join(diff))
        return False
    return True


def cut_scripts(rng, n, quick, slicer):
    """[(meta, script)]: every cut (or samples) with one attempt, then random subsets with attempts"""
    if n <= 2048:
        cuts = list(range(1, n))
    else:
        cuts = sorted(rng.sample(range(1, n), 200))
    out = []
    for c in cuts:
        out.append(([c], f"script {slicer(0, c)} loading {slicer(c, n)} finish"))
    for _ in range(25 if quick else 120):
        k = rng.randint(2, 9)
        cs = sorted(set(rng.randint(1, n - 1) for _ in range(k))) if n > 1 else []
        ops, prev = [], 0
        for c in cs:
            ops += [slicer(prev, c), "loading"]
            if rng.random() < 0.3:
                ops.append("loading")
            prev = c
        ops += [slicer(prev, n), "finish"]
        if rng.random() < 0.3:
            ops = ["newwide"] + ops          # the same image with 32-bit Modular buffers forced (C12: same samples)
        out.append((cs, "script " + " ".join(ops)))
    return out


def model_prefix_diff(ctx, what, layout, data, cuts, outs_by_cut):
    lines = [f"script lay:{layout} push:{fl.hx(data[:c])} push:{fl.hx(data[c:])} finish" for c in cuts]
    mouts = run_lines_robust([MODEL_EXE, "c09"], lines, per_line_timeout=120)
    for c, mo in zip(cuts, mouts):
        ip = (outs_by_cut[c] or "crash").split(" | ")
        mp = (mo or "crash").split(" | ")[1:]
        if len(ip) != 4 or len(mp) != 3:
            ctx.failed_obligations.append(f"correspondence C11 model/impl: answer count differs on {what} cut {c}")
            return
        pairs = [(ip[0], mp[0], False), (ip[2], mp[1], False), (ip[3], mp[2], True)]
        for a, b, fin in pairs:
            a, b = fl.modelled(a, fin), fl.modelled(b, fin)
            ctx.count("model-compared-ops")
            if a != b:
                ctx.failed_obligations.append(f"correspondence C11 model/impl differs on {what} cut {c}: impl [{a}] model [{b}]")
                return


def check_stream(ctx, kind, data, desc, plan, quick):
    hexs = data.hex()
    n = len(data)
    base = {"kind": kind, "stream_hex": hexs if len(hexs) < 40000 else hexs[:40000] + "...", "container": desc,
            "plan": plan[:3000] if plan else None}
    clean = (run_lines_robust([fl.H(ctx)], [f"script push:{hexs} finish"])[0] or "crash").split(" | ")[-1]
    if not fl.is_clean_ok(clean):
        ctx.count("clean-decode-not-ok:" + (clean.split()[0] if clean else "none")[:40])
        return
    f = fl.fields(clean)
    hdr_dims = f["hdr"].split("/")[0]
    what = hashlib.sha1(data).hexdigest()[:12]
    scr = cut_scripts(ctx.rng, n, quick, lambda a, b: f"push:{fl.hx(data[a:b])}")
    outs = run_lines_robust([fl.H(ctx)], [s for _, s in scr], per_line_timeout=60)
    ctx.count("streams:" + kind)
    ctx.count("container:" + (desc or {}).get("mode", "bare"))
    ctx.count("frames:" + f.get("frames", "?"))
    good = True
    by_cut = {}
    for (meta, s), o in zip(scr, outs):
        if len(meta) == 1 and s.count("loading") == 1:
            by_cut[meta[0]] = o
        if not judge(ctx, kind, what, clean, hdr_dims, s, meta, o, base):
            good = False
            if len(ctx.violations) >= 12:
                return
    if good:
        good = faulted_attempts(ctx, kind, what, clean, data, base, quick)
    if good and n <= 30000:
        cuts = sorted(by_cut)
        pick = cuts if len(cuts) <= (60 if quick else 400) else sorted(ctx.rng.sample(cuts, 60 if quick else 400))
        model_prefix_diff(ctx, what, f.get("lay", "-"), data, pick, by_cut)
        if len(ctx.cov["samples"]) < 3 and len(hexs) < 700:
            ctx.sample({"kind": kind, "stream_hex": hexs, "clean": fl.strip_report(clean)})


def faulted_attempts(ctx, kind, what, clean, data, base, quick, slicer=None, n_scripts=None, cut_lo=1):
    """a render attempt on a prefix that FAILS for an outside reason (allocation refused from the k-th
    request on, hook H1) must not change the final result either: whatever the attempt kept (caches,
    parsed sections) is not allowed to come from a failed parse"""
    rng = ctx.rng
    n = len(data)
    slicer = slicer or (lambda a, b: f"push:{fl.hx(data[a:b])}")
    scripts = []
    for _ in range(n_scripts or (10 if quick else 60)):
        if n < 3:
            break
        cs = sorted(set(rng.randint(cut_lo, n - 1) for _ in range(rng.randint(1, 3))))
        ops, prev = [], 0
        for c in cs:
            ops += [slicer(prev, c), f"ff:{rng.choice([0, 1, 2, 3, 5, 8, 13, 21, 40, 80, 160])}", "loading", "ffoff"]
            if rng.random() < 0.4:
                ops.append("loading")
            prev = c
        ops += [slicer(prev, n), "finish"]
        scripts.append((cs, "script " + " ".join(ops)))
    # in small batches: a decoder that hangs costs its deadline per script; three of them end the search
    outs, dead = [], 0
    for lo in range(0, len(scripts), 6):
        part = run_lines_robust([fl.H(ctx)], [s for _, s in scripts[lo:lo + 6]], per_line_timeout=120)
        outs += part
        dead += sum(1 for (_, sc), o in zip(scripts[lo:lo + 6], part) if len((o or "crash").split(" | ")) != len(sc.split()) - 1)
        if dead >= 3:
            scripts = scripts[:len(outs)]
            break
    ok = True
    for (cs, sc), o in zip(scripts, outs):
        parts = (o or "crash").split(" | ")
        ops = sc.split()[1:]
        ctx.case(("faulted", what, tuple(cs), sc.count("ff:")), nontrivial=True)
        replay = dict(base, script=sc if len(sc) < 20000 else sc[:20000] + "...", cuts=cs,
                      clean_report=fl.strip_report(clean)[:500], how="echo '<script>' | harness/target/debug/c09")
        if len(parts) != len(ops):
            ctx.violation("decoder-crashed-or-hung", (o or "crash")[:300], replay, key="crash-faulted:" + kind)
            ok = False
            continue
        bad = next((p_ for p_ in parts if p_.startswith("panic")), None)
        if bad:
            ctx.violation("panic-in-a-failed-render-attempt", bad[:300], replay, key=fl.panic_key(bad))
            ok = False
            continue
        for o_, p_ in zip(ops, parts):
            if o_ == "loading":
                ctx.count("faulted-loading:" + (p_.split()[0] if p_ else "?")[:30])
        # after an injected failure a later render may still fail (C08 allows that); what it may not do
        # is succeed with other samples, and nothing else of the report may change
        a, b = fl.fields(fl.strip_report(clean)), fl.fields(fl.strip_report(parts[-1]))
        ra, rb = a.get("r", "-").split(","), b.get("r", "-").split(",")
        r_ok = len(ra) == len(rb) and all(y == x or y.startswith("err-") or y == "needmore" for x, y in zip(ra, rb))
        if any(y != x for x, y in zip(ra, rb)):
            ctx.count("faulted-final:a-keyframe-fails-after-the-failed-attempt")
        diff = sorted(k for k in set(a) | set(b) if a.get(k) != b.get(k) and k != "r")
        if diff or not r_ok:
            ctx.violation("final-result-changed-by-a-failed-render-attempt", {"fields": diff + ([] if r_ok else ["r"]), "got": parts[-1][:400]},
                          replay, key="final-faulted:" + ",".join(diff + ([] if r_ok else ["r"])))
            ok = False
    return ok


def check_fixture(ctx, quick):
    path = fl.FIXTURE
    n = os.path.getsize(path)
    clean = (run_lines_robust([fl.H(ctx)], [f"script pushf:{path}:0:{n} finish"], per_line_timeout=120)[0] or "crash").split(" | ")[-1]
    if not fl.is_clean_ok(clean):
        ctx.failed_obligations.append("fixture cmyk_layers.jxl is not decoded: " + clean[:200])
        return
    f = fl.fields(clean)
    offs = [int(x) for x in f["offs"].split(",")]
    rng = ctx.rng
    k = 40 if quick else 200
    data = open(path, "rb").read()
    foff = [fl.cs_to_file_offset(data, o) for o in offs]          # frame starts as file offsets
    dense = list(range(foff[0] - (6 if quick else 120), foff[0] + (3 if quick else 60)))   # end of the ICC stream / first frame header
    cuts = sorted(set([1, 2, 13, 300, n - 1] + dense + [o + d for o in foff[1:] for d in (0, 9, 60)] +
                      [rng.randint(1, n - 1) for _ in range(k // 4)] + [rng.randint(foff[0], n - 1) for _ in range(k // 2)]))
    scr = []
    for c in cuts:
        scr.append(([c], f"script pushf:{path}:0:{c} loading pushf:{path}:{c}:{n} finish"))
    for _ in range(6 if quick else 40):
        cs = sorted(set(rng.randint(offs[0] - 5, n - 1) for _ in range(rng.randint(2, 7))))
        ops, prev = [], 0
        for c in cs:
            ops += [f"pushf:{path}:{prev}:{c}", "loading"]
            prev = c
        ops += [f"pushf:{path}:{prev}:{n}", "finish"]
        scr.append((cs, "script " + " ".join(ops)))
    outs = run_lines_robust([fl.H(ctx)], [s for _, s in scr], per_line_timeout=240, batch=20)
    ctx.count("streams:fixture")
    for (meta, s), o in zip(scr, outs):
        judge(ctx, "fixture", "fixture", clean, f["hdr"].split("/")[0], s, meta, o, {"file": path})
    faulted_attempts(ctx, "fixture", "fixture", clean, data, {"file": path}, quick,
                     slicer=lambda a, b: f"pushf:{path}:{a}:{b}", n_scripts=16 if quick else 120, cut_lo=foff[0])


def run_corpus(ctx):
    for p in sorted(glob.glob(os.path.join(VERIF, "corpus", "c11", "*.json"))):
        c = json.load(open(p))
        c["scripts"] = [fl.subst(x) for x in c["scripts"]]
        clean = (run_lines_robust([fl.H(ctx)], [fl.subst(c["clean_script"])], per_line_timeout=180)[0] or "crash").split(" | ")[-1]
        outs = run_lines_robust([fl.H(ctx)], c["scripts"], per_line_timeout=180)
        ctx.count("corpus")
        if not fl.is_clean_ok(clean):
            ctx.failed_obligations.append(f"corpus {os.path.basename(p)}: clean decode fails: {clean[:200]}")
            continue
        hdr = fl.fields(clean)["hdr"].split("/")[0]
        for s, o in zip(c["scripts"], outs):
            judge(ctx, "corpus", os.path.basename(p), clean, hdr, s, c.get("what", "")[:60], o,
                  {"corpus_file": p, "what": c.get("what")}, force_key=c.get("key"))


def run(ctx):
    regenerate(ctx)
    ok = ctx.lean_build(MODULES)
    if ok:
        ctx.audit(MODULES, ctx.update_lock)
        if not ctx.quick:
            ctx.leanchecker(MODULES)
    ctx.cargo_build(["c09"])
    if not ok:
        return
    q = ctx.quick
    ctx.cov["rule"] = ("(1) every error value of the seven decoder crates that can be named by a constructor path: real "
                       "unexpected_eof() vs the generated chain; (2) streams written by the Lean reference encoder (single- "
                       "and 2..5-frame Modular images incl. reference-only / skip-progressive frames, crops, blending, "
                       "animation, multi-group frames; bare and container-wrapped) and the fixture: every byte cut of streams "
                       "<= 2 KiB, 200 sampled cuts otherwise, one script per cut = feed the prefix (+ try_init), "
                       "render_loading_frame, feed the rest, finalize and render every keyframe; plus random 2..9-cut scripts "
                       "with (repeated) render attempts at every cut; a case = (stream, cuts); non-trivial = the clean "
                       "decode accepts the stream and renders every keyframe")
    eof_chain(ctx)
    run_corpus(ctx)
    plans = fl.gen_plans(ctx.rng, 45 if q else 500, 50 if q else 560, 5 if q else 60, max_pixels=2000 if q else 40000)
    streams = fl.encode(plans)
    ctx.count("encoder-rejected-plans", len(plans) - len(streams))
    for kind, line, cs in streams:
        if ctx.rng.random() < 0.7:
            data, desc = cs, None
        else:
            data, desc = fl.wrap(ctx.rng, cs)
        if len(data) > (60000 if q else 300000):
            ctx.count("skipped-too-long-for-tier")
            continue
        check_stream(ctx, kind, data, desc, line, q)
        if len(ctx.violations) >= 12:
            break
    # VarDCT frames (LfGlobal / LfGroup / HfGlobal / pass-group section parsers, LF-frame fallback paths)
    for label, data, _jpeg in fl.synth_vardct(ctx, 5 if q else 50, max_blocks=16):
        check_stream(ctx, "vardct-jbrd", data, None, label, q)
        if len(ctx.violations) >= 12:
            break
    check_fixture(ctx, q)
    ctx.assumptions += [
        "section decoders are abstract in the theorems: the obligation CutClean (a truncated section never yields a non-EOF "
        "error; no attempt keeps an LfGlobal parsed from truncated data) is checked on the real code by this run, not proved",
        "the image returned by render_loading_frame is checked for its dimensions only (its samples are whatever has arrived)",
        "VarDCT frames (LF-frame fallback, HfGlobal / pass-group section parsers) are not generated; the Modular paths of "
        "try_parse_lf_global / lf_group / pass_group_bitstream and Modular::decode's partial rule are",
        "entropy coding of the generated streams is the encoder's prefix code; ANS streams are C04's",
        "std::io::Error is modelled by whether its kind is UnexpectedEof; payloads of error variants other than wrapped "
        "errors are dropped by the translator",
    ]
