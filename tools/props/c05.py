"""C05 — frames are composed onto the canvas exactly as the blend rules define.
Theorems: Props/C05.lean (kernel laws over an ordered field, reference bookkeeping = Spec slots,
lazy renderer = sequential compositor for every request order, keyframe detection).
Correspondence: the Lean reference encoder writes multi-frame Modular images; the real decoder
(`JxlImage::render_frame`, harness `c05`) must return, for every keyframe, exactly the canvas of the
Lean Spec compositor run at Float32 over the separately known frame contents (bit for bit: same
IEEE operations in the same order), and the same canvas for every request order, repetition and
for a fresh vs. a reused image. The Impl state machine of the model (`lazy`) is run on the same
inputs with buffer stealing switched on."""
import glob, json, os, struct
from vlib import *
import seqlib as pl
import planlib as plb

MODULES = ["JxlModel.Props.C05", "JxlModel.Props.C05Region"]
CORPUS = os.path.join(VERIF, "corpus", "c05")
TOL = 1e-6


def f32(b):
    return struct.unpack("<f", struct.pack("<I", b & 0xFFFFFFFF))[0]


def planes_close(a, b):
    """same shapes and every sample within TOL (fallback comparison only)"""
    if len(a) != len(b):
        return False
    for (w1, h1, d1), (w2, h2, d2) in zip(a, b):
        if (w1, h1) != (w2, h2) or len(d1) != len(d2):
            return False
        for x, y in zip(d1, d2):
            if x != y:
                fx, fy = f32(x), f32(y)
                if not (abs(fx - fy) <= TOL):
                    return False
    return True


def first_sample_diff(a, b):
    for c, ((w1, h1, d1), (w2, h2, d2)) in enumerate(zip(a, b)):
        if (w1, h1) != (w2, h2):
            return {"channel": c, "shape_impl": [w1, h1], "shape_spec": [w2, h2]}
        for j, (x, y) in enumerate(zip(d1, d2)):
            if x != y:
                return {"channel": c, "x": j % max(1, w1), "y": j // max(1, w1), "impl": f32(x), "spec": f32(y),
                        "impl_bits": x, "spec_bits": y}
    if len(a) != len(b):
        return {"channels_impl": len(a), "channels_spec": len(b)}
    return None


def make_orders(rng, nkf):
    """request sequences: in order, reversed, shuffled with repetitions"""
    base = list(range(nkf))
    rep = base + [rng.randrange(nkf) for _ in range(rng.randint(1, nkf + 2))] if nkf else []
    rng.shuffle(rep)
    rep2 = [rng.randrange(nkf) for _ in range(rng.randint(1, 4))] + base[::-1] if nkf else []
    out = [("in-order", 0, base), ("reversed", 0, base[::-1]), ("shuffled-repeated", 0, rep),
           ("fresh-image-per-request", 1, rep2)]
    if rng.random() < 0.15:
        # the same on a two-thread pool (references are then rendered speculatively in the background)
        out.append(("shuffled-repeated-2-threads", 0, rep[::-1]))
    return out


def check_case(ctx, tag, plan, hexs, comp, spec_line, lazy_line, lazy_order, impl_runs, expect=None, orient=1):
    """impl_runs: [(order name, fresh, order, harness answer)]. Returns True if all agreed.
    expect == 'render-error': the stream is invalid in a way only rendering can see; every request must
    end in an error (no image, no panic)."""
    replay = {"plan": plan, "codestream_hex": hexs, "spec_input": comp, "orient": orient,
              "how": "plan -> lean/.lake/build/bin/jxlmodel enc ; 'render <hex> <fresh> 0 <order>' -> "
                     "harness/target/debug/c05 (third word 2 for the 2-thread order) ; spec_input -> lean/.lake/build/bin/jxlmodel c05"}
    if expect == "render-error":
        good = True
        for name, fresh, order, ans in impl_runs:
            rp = dict(replay, order=order, fresh=fresh, order_kind=name, expect=expect)
            a = ans or "crash"
            if a.startswith("panic") or a.startswith("crash") or a == "hang":
                ctx.violation("decoder-panic-or-hang", a[:300], rp, key=tag.replace("corpus:", "").replace(".json", "") + ":panic")
                return False
            ist, _, kfs = pl.parse_keyframes(a, True)
            if ist == "ok" and any(k[0] != "kerr" for k in kfs):
                ctx.violation("invalid-stream-rendered", a[:200], rp, key=tag + ":rendered")
                good = False
        return good
    st, nkf, spec = pl.parse_keyframes(spec_line or "", False)
    if st != "ok":
        ctx.failed_obligations.append(f"Lean Spec compositor gave no answer ({st}); plan: {plan[:300]}")
        return False
    good = True
    seen = {}                                  # keyframe -> (planes, order name)
    for name, fresh, order, ans in impl_runs:
        rp = dict(replay, order=order, fresh=fresh, order_kind=name)
        if ans is None or ans.startswith("panic") or ans.startswith("crash") or ans == "hang":
            a = ans or "crash"
            site = a.split()[1] if a.startswith("panic") and len(a.split()) > 1 else a.split()[0]
            ctx.violation("decoder-panic-or-hang", a[:300], rp, key=f"{a.split()[0]}:{site}")
            return False
        ist, inkf, kfs = pl.parse_keyframes(ans, True)
        if ist != "ok":
            ctx.violation("valid-stream-rejected", ans[:200], rp, key="rejected:" + tag)
            return False
        if inkf != nkf:
            ctx.violation("keyframe-count-differs-from-spec", {"impl": inkf, "spec": nkf}, rp, key="keyframe-count")
            return False
        for k, got in zip(order, kfs):
            if got[0] == "kerr":
                ctx.violation("keyframe-render-error", {"keyframe": k, "error": got[1]}, rp, key="kerr:" + got[1])
                good = False
                continue
            planes = got[1]
            # (a) on the implementation alone: the same keyframe is the same image whenever it is asked for
            if k in seen and seen[k][0] != planes:
                d = first_sample_diff(planes, seen[k][0])
                ctx.violation("keyframe-depends-on-request-history",
                              {"keyframe": k, "this_order": name, "other_order": seen[k][1], "first_difference": d},
                              rp, key="history-dependence")
                good = False
            seen.setdefault(k, (planes, name))
            # (b) against the compositor of the format
            exp = spec[k][1] if orient == 1 else [pl.orient_plane(p, orient) for p in spec[k][1]]
            if planes != exp:
                d = first_sample_diff(planes, exp)
                if planes_close(planes, exp):
                    ctx.count("tolerance-fallback-used")
                    ctx.notes.setdefault("tolerance_fallback_cases", []).append({"plan": plan[:400], "keyframe": k, "diff": d})
                else:
                    ctx.violation("keyframe-differs-from-spec-compositor",
                                  {"keyframe": k, "order_kind": name, "first_difference": d}, rp, key="canvas:" + tag)
                    good = False
        if not good:
            return False
    # (c) the model's own Impl layer (lazy renderer with stealing) against its Spec layer
    if lazy_line is not None:
        lst, _, lz = pl.parse_keyframes(lazy_line, False)
        if lst != "ok" or [x[1] for x in lz] != [spec[k][1] for k in lazy_order]:
            ctx.failed_obligations.append(f"model: Impl.renderMany differs from Spec.run on an executed case; plan: {plan[:300]}")
            return False
    return True


def run_cases(ctx, cases, label):
    """cases: [(tag, img, frames, tags)]; a tag 'expect:<what>' is handed to check_case"""
    plans = [pl.plan_line(img, fr) for (_, img, fr, _) in cases]
    encs = run_lines_robust([MODEL_EXE, "enc"], plans, per_line_timeout=60)
    todo = []
    for (tag, img, fr, tags), plan, e in zip(cases, plans, encs):
        r = pl.parse_enc_output(e) if e and e.startswith("ok") else None
        if r is None:
            ctx.count("encoder:" + (e.split()[1] if e and len(e.split()) > 1 else "none"))
            continue
        hexs, efr = r
        comp = pl.comp_line(img, fr, [f["chans"] for f in efr])
        nkf = sum(1 for f in pl.seq_cut(img, fr) if pl.seq_is_keyframe(img, f))
        orders = make_orders(ctx.rng, max(nkf, 1))
        if any(t.startswith("expect:render-error") for t in tags):
            # one request per image only: a second request on a handle whose composition failed blocks
            # forever (finding F2 of DESIGN.md section 8, property C08), which is not what this witness is about
            orders = [("single-request", 0, [0]), ("fresh-image-per-request", 1, [0, 0])]
        lazy_order = orders[2][2] if len(orders) > 2 else orders[0][2]
        todo.append((tag, img, fr, tags, plan, hexs, comp, orders, lazy_order))
    spec_in, impl_in = [], []
    for (_, _, _, _, _, hexs, comp, orders, lazy_order) in todo:
        spec_in.append(comp)
        spec_in.append("lazy" + comp[4:] + f" orders {len(lazy_order)} " + " ".join(map(str, lazy_order)))
        for (name, fresh, order) in orders:
            impl_in.append(f"render {hexs} {fresh} {2 if name.endswith('2-threads') else 0} " + " ".join(map(str, order)))
    spec_out = run_lines_robust([MODEL_EXE, "c05"], spec_in, per_line_timeout=120)
    impl_out = run_lines_robust([ctx.harness_bin("c05")], impl_in, per_line_timeout=60)
    impl_at, acc = [], 0
    for t in todo:
        impl_at.append(acc)
        acc += len(t[7])
    # smallest plans first, so that the violations reported (and printed) first are the easiest to read
    for n, (tag, img, fr, tags, plan, hexs, comp, orders, lazy_order) in sorted(enumerate(todo), key=lambda t: len(t[1][4])):
        runs = [(name, fresh, order, impl_out[impl_at[n] + q]) for q, (name, fresh, order) in enumerate(orders)]
        vals = set()
        for f in fr:
            for c in f["chans"]:
                vals.update(c[2][:32])
        ctx.case(plan, nontrivial=len(vals) > 1 and len(fr) > 1)
        ctx.count("sequences:" + label)
        ctx.count("frames:" + str(len(fr)))
        ctx.count("colour:" + ("grey" if img["gray"] else "rgb") + f"+{len(img['ecs'])}ec")
        ctx.count("buf:" + ("i16" if img["buf16"] else "i32"))
        ctx.count("animation:" + ("on" if img.get("anim") else "off"))
        for t in tags:
            ctx.count(t)
        for (name, _, order) in orders:
            ctx.count("requests:" + name, len(order))
        expect = next((t[7:] for t in tags if t.startswith("expect:")), None)
        # the Impl layer of the model has no patches: its comparison with the Spec is for patch-free images
        lazy_ans = None if any(f.get("patches") for f in fr) else spec_out[2 * n + 1]
        good = check_case(ctx, tag, plan, hexs, comp, spec_out[2 * n], lazy_ans, lazy_order, runs, expect, img.get("orient", 1))
        if good and len(ctx.cov["samples"]) < 4 and len(plan) < 900:
            ctx.sample({"kind": tag, "plan": plan, "orders": [o[2] for o in orders]})


FIXTURE = os.path.join(REPO, "crates", "jxl-oxide-tests", "tests", "cms", "cmyk_layers.jxl")


def fixture_check(ctx):
    """the shipped layered image (4 Modular layers with alpha and black, made by another encoder): frame
    contents are not known separately, so only the implementation-side oracle applies: the keyframe is the
    same image on every request, on a reused and on a fresh JxlImage"""
    if not os.path.exists(FIXTURE):
        ctx.notes["fixture"] = "missing"
        return
    lines = [f"render @{FIXTURE} 0 0 0 0 0", f"render @{FIXTURE} 1 0 0 0"]
    out = run_lines_robust([ctx.harness_bin("c05")], lines, per_line_timeout=120)
    seen = None
    for l, a in zip(lines, out):
        rp = {"line": l, "how": "feed the line to harness/target/debug/c05"}
        if a is None or not a.startswith("ok"):
            ctx.violation("fixture-not-rendered", (a or "crash")[:300], rp, key="fixture:" + (a or "crash").split()[0])
            return
        _, nkf, kfs = pl.parse_keyframes(a, True)
        for k in kfs:
            if k[0] == "kerr":
                ctx.violation("keyframe-render-error", {"fixture": True, "error": k[1]}, rp, key="fixture:kerr")
                return
            if seen is not None and k[1] != seen:
                ctx.violation("keyframe-depends-on-request-history", {"fixture": True, "first_difference": first_sample_diff(k[1], seen)},
                              rp, key="history-dependence")
                return
            seen = k[1]
            ctx.count("requests:fixture")
    ctx.case("fixture:cmyk_layers", nontrivial=True)


def corpus_cases():
    out = []
    for p in sorted(glob.glob(os.path.join(CORPUS, "*.json"))):
        j = json.load(open(p))
        frames = [dict(f, chans=[tuple(c) for c in f["chans"]], tree=tuple(f.get("tree", ("L", 0, 0, 0, 1)))) for f in j["frames"]]
        tags = list(j.get("tags", [])) + (["expect:" + j["expect"]] if j.get("expect") else [])
        out.append(("corpus:" + os.path.basename(p), j["img"], frames, tags))
    return out


def fixed_cases():
    """hand-made sequences that pin the corner cases the random generator reaches only rarely"""
    out = []

    def fr(cw, ch, vals, **kw):
        d = {"chans": [(cw, ch, list(v)) for v in vals], "gshift": 1, "tr": [], "pals": [],
             "tree": ("L", 0, 0, 0, 1), "wp": None}
        d.update(kw)
        return d
    # straight alpha, mixed alpha = 0 (both alphas 0) next to opaque pixels; clamp on; alpha out of range
    img = {"w": 3, "h": 1, "bits": 8, "gray": True, "buf16": True, "orient": 1, "anim": None,
           "ecs": [{"ty": 0, "bits": 8, "alpha_assoc": False}]}
    f0 = fr(3, 1, [[10, 200, 255], [0, 255, 128]], is_last=False, save_ref=1, blend={"mode": 0})
    for clamp in (False, True):
        f1 = fr(3, 1, [[255, 0, 77], [0, 300, -20]], is_last=True,
                blend={"mode": 2, "alpha": 0, "clamp": clamp, "source": 1},
                ecblend=[{"mode": 2, "alpha": 0, "clamp": clamp, "source": 1}])
        out.append(("fixed:straight-mixed-alpha-zero", img, [f0, f1], ["fixed"]))
    # premultiplied, two alpha channels, colour uses #1, alpha #0 is mul-added, crop at negative offset
    img2 = {"w": 4, "h": 2, "bits": 8, "gray": False, "buf16": False, "orient": 1, "anim": (10, 1, 0, 0),
            "ecs": [{"ty": 0, "bits": 8, "alpha_assoc": False}, {"ty": 0, "bits": 8, "alpha_assoc": True}]}
    g0 = fr(4, 2, [range(0, 8), range(10, 18), range(20, 28), [255] * 8, [128] * 8], is_last=False, save_ref=2, dur=0,
            blend={"mode": 0})
    g1 = fr(3, 3, [[200] * 9, [100] * 9, [50] * 9, [64] * 9, [0, 255, 128] * 3], have_crop=True, x0=-1, y0=-1, w=3, h=3,
            is_last=False, save_ref=0, dur=2, blend={"mode": 2, "alpha": 1, "clamp": True, "source": 2},
            ecblend=[{"mode": 3, "alpha": 1, "clamp": False, "source": 2}, {"mode": 2, "alpha": 1, "clamp": True, "source": 2}])
    g2 = fr(4, 2, [[1] * 8, [2] * 8, [3] * 8, [4] * 8, [5] * 8], is_last=True, dur=1,
            blend={"mode": 1, "source": 2}, ecblend=[{"mode": 4, "clamp": True, "source": 2}, {"mode": 1, "source": 0}])
    out.append(("fixed:premultiplied-two-alphas", img2, [g0, g1, g2], ["fixed"]))
    return out


def gen_patch_image(rng, hostile=False):
    """an image whose last frames carry patch dictionaries: 1..3 reference-only frames (any size, also larger
    than the canvas, several of the same geometry in different slots) saved before the colour transform, an
    optional regular base frame, then 1..2 regular frames with 1..3 patches of 1..4 targets each (all eight patch
    blend modes, clamp, alpha channel choice, targets partly or wholly outside the frame)"""
    w, h = rng.randint(5, 22), rng.randint(4, 18)
    gray = rng.random() < 0.3
    nalpha = rng.choice([0, 1, 1, 2])
    bits = rng.choice([8, 8, 10, 12])
    ecs = [{"ty": 0, "dim_shift": 0, "bits": bits, "alpha_assoc": rng.random() < 0.4} for _ in range(nalpha)]
    if rng.random() < 0.2:
        ecs.insert(rng.randint(0, len(ecs)), {"ty": 1, "dim_shift": 0, "bits": bits, "alpha_assoc": False})
    alpha_idx = [i for i, e in enumerate(ecs) if e["ty"] == 0]
    img = {"w": w, "h": h, "bits": bits, "gray": gray, "buf16": rng.random() < 0.6, "ecs": ecs, "orient": 1, "anim": None}
    nch = (1 if gray else 3) + len(ecs)
    hi = (1 << bits) - 1

    def chans(fw, fh):
        return [(fw, fh, plb.gen_pixels(rng, fw, fh, 0, hi)) for _ in range(nch)]
    frames, refs = [], {}
    same = None
    for i in range(rng.randint(1, 3)):
        if same and rng.random() < 0.5:
            rw, rh = same                                   # the same geometry in another slot
        else:
            rw, rh = rng.randint(1, w + 6), rng.randint(1, h + 6)
            same = (rw, rh)
        slot = rng.choice([s for s in range(1, 4) if s not in refs] or [1, 2, 3])
        refs[slot] = (rw, rh)
        frames.append({"ty": 2, "gshift": rng.randrange(4), "have_crop": True, "w": rw, "h": rh, "is_last": False,
                       "save_ref": slot, "sbct": True, "chans": chans(rw, rh), "tr": [], "pals": [],
                       "tree": plb.gen_tree(rng, rng.choice([0, 1]), rng.randint(1, 3), (0, hi), nprev=0), "wp": None})
    if rng.random() < 0.5:
        frames.append({"ty": 0, "gshift": 1, "is_last": False, "save_ref": 0, "blend": {"mode": 0}, "ecblend": [{"mode": 0}] * len(ecs),
                       "chans": chans(w, h), "tr": [], "pals": [], "tree": ("L", 0, 0, 0, 1), "wp": None})
    modes_all = [0, 1, 2, 3] + ([4, 5, 6, 7] if alpha_idx else [])
    if hostile:
        modes_all = [4, 5, 6, 7]
    n_last = rng.randint(1, 2)
    for k in range(n_last):
        last = k == n_last - 1
        fw, fh, crop = w, h, {}
        if rng.random() < 0.4:
            fw, fh = rng.randint(1, w + 2), rng.randint(1, h + 2)
            crop = {"have_crop": True, "w": fw, "h": fh, "x0": rng.randint(-2, w - 1), "y0": rng.randint(-2, h - 1)}
            if crop["x0"] + fw <= 0:
                crop["x0"] = 1 - fw
            if crop["y0"] + fh <= 0:
                crop["y0"] = 1 - fh
        while fw * fh < 16:                                 # at most width*height/16 patches per frame (a profile limit)
            fw, fh = fw + 1, fh + 1
            crop.update({"w": fw, "h": fh})
        maxp = fw * fh // 16
        patches, ntargets = [], 0
        for _ in range(min(maxp, rng.randint(1, 3))):
            slot = rng.choice(sorted(refs))
            rw, rh = refs[slot]
            pw, ph = rng.randint(1, rw), rng.randint(1, rh)
            x0, y0 = rng.randint(0, rw - pw), rng.randint(0, rh - ph)
            targets = []
            for _t in range(rng.randint(1, min(4, 4 * maxp - ntargets))):
                ntargets += 1
                blend = []
                for _c in range(1 + len(ecs)):
                    m = rng.choice(modes_all)
                    a = rng.choice(alpha_idx) if alpha_idx else 0
                    if len(alpha_idx) < 2 or m < 4:
                        a = alpha_idx[0] if alpha_idx else 0       # not coded: the first alpha channel
                    blend.append((m, a, rng.random() < 0.4 if m >= 3 else False))
                # the first position is coded unsigned
                tx = rng.randint(0, fw) if not targets else rng.randint(-pw, fw)
                ty = rng.randint(0, fh) if not targets else rng.randint(-ph, fh)
                targets.append({"x": tx, "y": ty, "blend": blend})
            patches.append({"ref": slot, "x0": x0, "y0": y0, "w": pw, "h": ph, "targets": targets})
        f = {"ty": 0, "gshift": 1, "is_last": last, "chans": chans(fw, fh), "tr": [], "pals": [], "tree": ("L", 0, 0, 0, 1),
             "wp": None, "patches": patches,
             "blend": {"mode": rng.choice([0, 0, 1, 2] if alpha_idx else [0, 0, 1]), "alpha": alpha_idx[0] if alpha_idx else 0,
                       "clamp": False, "source": 0},
             "ecblend": [{"mode": rng.choice([0, 1]), "alpha": alpha_idx[0] if alpha_idx else 0, "source": 0} for _ in ecs]}
        f.update(crop)
        if not last:
            f["save_ref"] = 0
        frames.append(f)
    tags = ["patches", f"patches:alpha-channels-{len(alpha_idx)}"]
    if len(set(refs.values())) < len(refs):
        tags.append("patches:two-slots-same-geometry")
    if any(len(p["targets"]) >= 3 for f in frames for p in f.get("patches", [])):
        tags.append("patches:three-or-more-targets")
    for f in frames:
        for p in f.get("patches", []):
            for t in p["targets"]:
                for (m, _, c) in t["blend"]:
                    tags.append(f"patch-mode-e2e:{m}")
    return img, frames, sorted(set(tags))


def patch_kernels(ctx):
    """`blend::patch` (hook H2 `patch_values_probe`) against `Jxl.Blend.patchPixel` at Float32, bit
    for bit: every patch blend mode (above / below variants swap the operands), clamp, straight and
    premultiplied alpha, alpha channel before / after the channel, values below 0 and above 1"""
    rng = ctx.rng
    def fbits(x):
        return struct.unpack("<I", struct.pack("<f", x))[0]
    def val():
        r = rng.random()
        if r < 0.2:
            return rng.choice([0.0, 1.0, 0.5, -0.25, 1.5, 2.0, -1.0])
        if r < 0.8:
            return rng.random()
        return rng.uniform(-1.0, 2.5)
    lines, metas = [], []
    for _ in range(400 if ctx.quick else 12000):
        cc = rng.choice([1, 3])
        nec = rng.randint(0, 3)
        aa = [rng.choice([-1, 0, 0, 1]) for _ in range(nec)]
        npix = 4
        infos = []
        for _ in range(1 + nec):
            mode = rng.randrange(8) if nec else rng.randrange(4)
            infos.append((mode, rng.randrange(nec) if nec else 0, rng.randrange(2)))
        vals = [fbits(val()) for _ in range(2 * (cc + nec) * npix)]
        lines.append(f"patch {cc} {nec} " + " ".join(map(str, aa)) + (" " if aa else "") + f"{npix} "
                     + " ".join(f"{m} {a} {c}" for m, a, c in infos) + " " + " ".join(map(str, vals)))
        lines[-1] = " ".join(lines[-1].split())
        metas.append(infos)
    impl = run_lines_robust([ctx.harness_bin("c05")], lines, per_line_timeout=30)
    spec = run_lines_robust([MODEL_EXE, "c05"], lines, per_line_timeout=30)
    for line, infos, a, b in zip(lines, metas, impl, spec):
        ctx.case(("patch", line), nontrivial=any(m >= 4 for m, _, _ in infos))
        for m, _, c in infos:
            ctx.count(f"patch-mode:{m}{'+clamp' if c and m >= 3 else ''}")
        if a != b:
            ctx.violation("patch-arithmetic-differs-from-the-blend-rules", {"impl": (a or "")[:300], "spec": (b or "")[:300]},
                          {"op": line, "how": "echo '<op>' | harness/target/debug/c05 ; echo '<op>' | lean/.lake/build/bin/jxlmodel c05"},
                          key="c05:patch-kernel")


def run(ctx):
    ok = ctx.lean_build(MODULES)
    if ok:
        ctx.audit(MODULES, ctx.update_lock)
        if not ctx.quick:
            ctx.leanchecker(MODULES)
    ctx.cargo_build(["c05"])
    if not ok:
        return
    ctx.cov["rule"] = ("seeded multi-frame Modular images (2-6 frames, canvas 1..32 x 1..32, grey/RGB, 0-4 extra channels "
                       "of which several may be alpha with independent alpha_associated flags and bit depths, depths "
                       "1..16, narrow/wide buffers, animation on/off, orientation 1..8) written by the Lean reference encoder; per frame: "
                       "regular / skip-progressive / reference-only, crop inside / partly outside (negative and positive) / "
                       "straddling / wholly outside / covering / none, each of the 5 blend modes for colour and independently "
                       "per extra channel, clamp, alpha channel choice, source slot 0..3 (filled, empty, written several "
                       "frames earlier), save slot 0..3, duration 0 / non-zero, samples incl. 0, max, negative and above-range; "
                       "now and then is_last before the end of the file; every keyframe requested in order, reversed, "
                       "shuffled with repetitions on one image, on a fresh image per request and (15%) on a two-thread pool; "
                       "plus hand-made corner cases, the corpus witnesses and the shipped fixture cmyk_layers.jxl (request-history "
                       "oracle only); non-trivial = more than one frame and more than one sample value; distinct by plan text")
    cases = corpus_cases() + fixed_cases()
    if getattr(ctx, "replay", None):
        r = json.load(open(ctx.replay))["replay"]
        ctx.notes["replay_of"] = ctx.replay
        ctx.cov["rule"] = "replay of one recorded plan"
        enc = run_lines_robust([MODEL_EXE, "enc"], [r["plan"]], per_line_timeout=60)[0]
        pe = pl.parse_enc_output(enc) if enc and enc.startswith("ok") else None
        order = r.get("order", [0])
        ans = run_lines_robust([ctx.harness_bin("c05")],
                               [f"render {pe[0] if pe else r['codestream_hex']} {r.get('fresh', 0)} "
                                f"{2 if str(r.get('order_kind', '')).endswith('2-threads') else 0} " + " ".join(map(str, order))])[0]
        spec = run_lines_robust([MODEL_EXE, "c05"], [r["spec_input"]], per_line_timeout=120)[0]
        ctx.case(r["plan"])
        check_case(ctx, "replay", r["plan"], r["codestream_hex"], r["spec_input"], spec, None, [],
                   [(r.get("order_kind", "replay"), r.get("fresh", 0), order, ans)], r.get("expect"), r.get("orient", 1))
        return
    run_cases(ctx, cases, "corpus+fixed")
    patch_kernels(ctx)
    fixture_check(ctx)
    n = 1200 if ctx.quick else 14000
    gen = []
    for i in range(n):
        img, fr, tags = pl.gen_blend_sequence(ctx.rng, {"small": i % 3 == 0})
        gen.append(("generated", img, fr, tags))
    for lo in range(0, len(gen), 500):
        run_cases(ctx, gen[lo:lo + 500], "generated")
    # frames with patch dictionaries (reference-only sources), composed by Px.keyframesP
    pgen = [("patches",) + gen_patch_image(ctx.rng) for _ in range(150 if ctx.quick else 3000)]
    run_cases(ctx, pgen, "patches")
    # the patch-aware fold is the plain one on patch-free images (tie of keyframesP to keyframes)
    free = gen[: (60 if ctx.quick else 600)]
    plans = [pl.plan_line(img, fr) for (_, img, fr, _) in free]
    encs = run_lines_robust([MODEL_EXE, "enc"], plans, per_line_timeout=60)
    lines = []
    for (_, img, fr, _), e in zip(free, encs):
        r = pl.parse_enc_output(e) if e and e.startswith("ok") else None
        if r:
            lines.append(pl.comp_line(img, fr, [f["chans"] for f in r[1]]))
    a = run_lines_robust([MODEL_EXE, "c05"], lines, per_line_timeout=120)
    b = run_lines_robust([MODEL_EXE, "c05"], ["compp" + l[4:] for l in lines], per_line_timeout=120)
    for l, x, y in zip(lines, a, b):
        ctx.count("model:keyframesP-vs-keyframes")
        if x != y or not (x or "").startswith("ok"):
            ctx.failed_obligations.append(f"model: Px.keyframesP differs from Px.keyframes on a patch-free image: {l[:200]}")
            break
    ctx.assumptions += [
        "frame contents are known independently of the decoder: they are the planned samples of the Lean reference "
        "encoder (C03 ties decoded = planned); the expected keyframes are computed from them by Spec.run at Float32",
        "bit-for-bit comparison relies on both sides performing the same IEEE-754 binary32 operations in the same order "
        "(no fused multiply-add on either side); the 1e-6 fallback is counted under 'tolerance-fallback-used' and listed in notes",
        "not generated: VarDCT frames as layers, XYB images (colour transform before/after saving is an opaque hook in the "
        "model), upsampled frames, LF frames; patches are generated from reference-only sources only (what encoders write), "
        "their rectangle inside the source frame, float samples; orientation is applied to the Spec canvas "
        "by the check (planlib.orient_plane, the index map of FrameBuffer::from_grids), not by the Lean model",
        "reference-only frames smaller than the canvas are generated but never read as a blend source (libjxl rejects "
        "such streams; jxl-oxide's behaviour there is outside this property)",
        "header reading follows crates/jxl-frame/src/header.rs: `source` of every extra-channel blending info is coded "
        "iff the COLOUR mode does not reset the canvas, and a frame whose colour mode resets the canvas is not blended "
        "at all, whatever the extra-channel modes say (libjxl keys both on the channel's own mode; not adjudicated offline)",
    ]
