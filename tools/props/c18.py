"""C18 — the embedded ICC profile is returned byte-exactly.

Theorems: Props/C18.lean (varint, header prediction look-back, shuffles, command interpreter
round trip against the Lean encoder `encodeIcc`, size consistency, rejections).
Correspondence: profiles (the shipped test profiles, profiles synthesised by jxl-color itself,
structured and random byte strings) x plans (Lean planner steered by seeded choices, explicit
plans drawn here, plans aimed exactly at the guards of command 4) are encoded by the *Lean*
encoder and decoded by the real `jxl_color::icc::decode_icc`; malformed streams (truncation at
every byte, bit flips, cross-wired sizes, random command grammars, streams the encoder writes for
*illegal* plans) go through both decoders. The property oracle is evaluated on the
implementation's own output first; then model and implementation are compared line by line.

Not covered here (see MANIFEST note): the entropy-coded layer of `read_icc` (C04) and
`JxlImage::original_icc()` end to end (needs the codestream encoder)."""
from vlib import *
import glob

MODULES = ["JxlModel.Props.C18"]
PROFILE_DIR = os.path.join(REPO, "crates", "jxl-color", "src", "icc", "test-profiles")
CORPUS = os.path.join(VERIF, "corpus", "c18")

COMMON_TAGS = [b"rTRC", b"rXYZ", b"cprt", b"wtpt", b"bkpt", b"rXYZ", b"gXYZ", b"bXYZ", b"kXYZ",
               b"rTRC", b"gTRC", b"bTRC", b"kTRC", b"chad", b"desc", b"chrm", b"dmnd", b"dmdd",
               b"lumi"]
COMMON_DATA = [b"XYZ ", b"desc", b"text", b"mluc", b"para", b"curv", b"sf32", b"gbd "]


def hx(b):
    return bytes(b).hex() if len(b) else "-"


def unhx(s):
    return b"" if s == "-" else bytes.fromhex(s)


def varint(n, pad=0):
    out = []
    while n >= 128:
        out.append(n % 128 + 128)
        n //= 128
    out.append(n)
    for _ in range(pad):                       # non-minimal form: same value, more bytes
        if len(out) < 9:
            out[-1] |= 128
            out.append(0)
    return bytes(out)


def read_varint(b, pos):
    """the format's varint (at most 9 bytes); None if the stream ends"""
    v = 0
    for i in range(9):
        if pos >= len(b):
            return None
        c = b[pos]
        pos += 1
        v |= (c & 127) << (7 * i)
        if c < 128:
            break
    return v, pos


def declared(stream):
    r = read_varint(stream, 0)
    return None if r is None else r[0]


# ---------------------------------------------------------------------------- profiles
SYNTH = [
    "rgb d65 srgb srgb rel", "rgb d65 srgb linear per", "rgb d65 srgb g22 rel",
    "rgb d65 bt2100 pq rel", "rgb d65 bt2100 hlg per", "rgb d65 p3 srgb abs",
    "rgb dci p3 dci sat", "rgb e srgb bt709 rel", "grey d65 srgb srgb rel",
    "grey d65 srgb linear abs", "grey e srgb g18 per", "rgb d65 p3 g18 rel",
]

EDGE_LENS = [0, 1, 2, 3, 4, 5, 7, 8, 9, 12, 24, 36, 40, 41, 42, 43, 44, 45, 70, 72, 79, 80, 81, 83,
             84, 85, 100, 127, 128, 129, 130, 131, 132, 133, 135, 136, 140, 143, 144, 145, 148, 156,
             167, 168, 169, 200, 255, 256, 257, 300, 511, 512, 513, 1000]


def headerish(rng, n):
    """random bytes with the header fields the predictor looks at set to interesting values"""
    b = bytearray(rng.randbytes(n))
    def put(off, bs):
        for i, x in enumerate(bs):
            if off + i < n:
                b[off + i] = x
    if rng.random() < 0.7:
        put(0, n.to_bytes(4, "big"))
    if rng.random() < 0.7:
        put(8, b"\x04")
    if rng.random() < 0.7:
        put(12, rng.choice([b"mntrRGB XYZ ", b"mntrGRAYXYZ ", b"scnrRGB Lab ", b"mntrCMYKLab "]))
    if rng.random() < 0.8:
        put(36, b"acsp")
    put(40, rng.choice([b"APPL", b"MSFT", b"SGI ", b"SUNW", b"APPX", b"AXPL", b"MSFX", b"MXFT",
                        b"SGIX", b"SGX ", b"SUNX", b"SUXW", b"SXXX", b"SG", b"SU", b"A", b"M", b"S",
                        b"TGI ", bytes(rng.randbytes(4))]))
    if rng.random() < 0.6:
        put(68, bytes([0, 0, 246, 214, 0, 1, 0, 0, 0, 0, 211, 45]))
    if rng.random() < 0.6:
        put(80, bytes(b[4:8]))
    if rng.random() < 0.5:
        for i in range(44, min(n, 128)):
            if i not in range(68, 84):
                b[i] = 0
    return bytes(b)


def tagtable_profile(rng):
    """a profile with a plausible tag table (common and unknown tags, shared/chained/odd offsets,
    TRC and XYZ triples) and a data area holding XYZ / common-type records"""
    n_entries = rng.choice([0, 1, 2, 3, 4, 6, 9, 12, 17])
    entries = []                                    # (tag, start, size)
    table_end = 132 + 12 * n_entries
    data = bytearray()
    for _ in range(rng.randint(0, 8)):
        k = rng.random()
        if k < 0.3:
            data += b"XYZ \0\0\0\0" + rng.randbytes(12)
        elif k < 0.6:
            data += rng.choice(COMMON_DATA) + b"\0\0\0\0" + rng.randbytes(rng.choice([0, 4, 12, 40]))
        elif k < 0.8:
            step = rng.choice([1, 2, 4])
            v, d = rng.randrange(1 << 16), rng.randrange(1 << 10)
            for _ in range(rng.randint(2, 40)):
                data += (v % (1 << (8 * step))).to_bytes(step, "big")
                v += d
        else:
            data += rng.randbytes(rng.randint(0, 60))
    total = table_end + len(data)
    prev_start, prev_size = table_end, 0
    i = 0
    while i < n_entries:
        k = rng.random()
        tag = rng.choice(COMMON_TAGS) if k < 0.75 else bytes(rng.randbytes(4))
        start = prev_start + prev_size if rng.random() < 0.6 else rng.randint(0, total + 3)
        if tag in (b"rXYZ", b"gXYZ", b"bXYZ", b"kXYZ", b"wtpt", b"bkpt", b"lumi") and rng.random() < 0.8:
            size = 20
        elif rng.random() < 0.5:
            size = prev_size
        else:
            size = rng.randint(0, max(0, total - start) + 2) if rng.random() < 0.9 else rng.randrange(1 << 32)
        entries.append((tag, start, size))
        i += 1
        if tag == b"rTRC" and i + 2 <= n_entries and rng.random() < 0.7:
            entries += [(b"gTRC", start, size), (b"bTRC", start, size)]
            i += 2
        elif tag == b"rXYZ" and i + 2 <= n_entries and rng.random() < 0.7:
            entries += [(b"gXYZ", (start + size) % (1 << 32), size),
                        (b"bXYZ", (start + 2 * size) % (1 << 32), size)]
            i += 2
        prev_start, prev_size = start, size
    claimed = n_entries if rng.random() < 0.85 else rng.choice([0, n_entries + 1, 1 << 20, 1 << 31])
    body = (claimed % (1 << 32)).to_bytes(4, "big")
    for tag, s, z in entries:
        body += tag + (s % (1 << 32)).to_bytes(4, "big") + (z % (1 << 32)).to_bytes(4, "big")
    prof = bytearray(headerish(rng, 128) + body + bytes(data))
    if rng.random() < 0.8:
        prof[0:4] = len(prof).to_bytes(4, "big")
    return bytes(prof)


def smooth(rng, n):
    """sequences an order-k predictor fits: big-endian counters of width 1/2/4 with a stride"""
    out = bytearray(rng.randbytes(min(n, 140)))
    while len(out) < n:
        w = rng.choice([1, 2, 4])
        v, d, dd = rng.randrange(1 << 32), rng.randrange(1 << 12), rng.choice([0, 0, 1, 7])
        pad = rng.choice([0, 0, 1, 2, 4])
        for _ in range(rng.randint(4, 200)):
            out += (v % (1 << (8 * w))).to_bytes(w, "big") + bytes(pad)
            v += d
            d += dd
    return bytes(out[:n])


def mutate(rng, p):
    b = bytearray(p)
    for _ in range(rng.randint(1, 6)):
        if not b:
            break
        k = rng.random()
        i = rng.randrange(len(b)) if k < 0.4 or len(b) <= 132 else rng.randrange(128, min(len(b), 132 + 12 * 12))
        b[i] = rng.randrange(256) if rng.random() < 0.5 else b[i] ^ (1 << rng.randrange(8))
    if rng.random() < 0.2 and len(b) > 4:
        del b[rng.randrange(len(b)):]
    return bytes(b)


def gen_profile(rng, base):
    """base = shipped + synthesised profiles"""
    k = rng.random()
    if k < 0.12:
        return "real", rng.choice(base)
    if k < 0.27:
        return "real-mutated", mutate(rng, rng.choice(base))
    if k < 0.47:
        return "tagtable", tagtable_profile(rng)
    if k < 0.57:
        n = rng.choice(EDGE_LENS)
        return "edge-len", (headerish(rng, n) if rng.random() < 0.5 else rng.randbytes(n))
    if k < 0.72:
        return "headerish", headerish(rng, rng.randint(0, 4096))
    if k < 0.87:
        return "smooth", smooth(rng, rng.randint(129, 4096))
    return "random", rng.randbytes(rng.randint(0, 4096))


# ---------------------------------------------------------------------------- plans
def gen_choices(rng):
    n = rng.choice([0, 1, 2, 3, 5, 8, 13, 21, 40, 80])
    scale = rng.choice([4, 16, 64, 300, 2000])
    return [rng.choice([rng.randrange(8), rng.randrange(scale), rng.randrange(256)]) for _ in range(n)]


def boundary_plans(rng, n):
    """plans sitting exactly on / just inside / just outside the guards of command 4
    (`stride * 4 >= out.len()`, `stride < width`, width 3, order 3) and of the final size check"""
    out = []
    if n <= 133:
        return out
    for _ in range(6):
        pos = rng.choice([129, 130, 131, 132, 133, 136, 140, rng.randint(129, n - 1)])
        pos = min(pos, n - 1)
        w = rng.choice([1, 2, 4])
        o = rng.randrange(3)
        ln = rng.randint(0, n - pos)
        for st in {pos // 4 - 1, pos // 4, pos // 4 + 1, (pos - 1) // 4, w - 1, w, w + 1}:
            if st < 0:
                continue
            toks = ["notags", f"r:{pos - 128}", f"p:{w}:{o}:{st}:0:{ln}"]
            if pos + ln < n:
                toks.append(f"r:{n - pos - ln}")
            out.append(toks)
        out.append(["notags", f"r:{pos - 128}", f"p:3:{o}:-:0:{ln}", f"r:{n - pos - ln}"])
        out.append(["notags", f"r:{pos - 128}", f"p:{w}:3:-:0:{ln}", f"r:{n - pos - ln}"])
        out.append(["notags", f"r:{pos - 128}", f"r:{n - pos + 1}"])
        out.append(["notags", f"r:{pos - 128}", f"s4:{max(0, n - pos - 1)}"])
    return out


def explicit_plan(rng, n):
    """a plan written down here (not by the planner); mostly legal, sometimes deliberately not"""
    if n <= 128:
        return ["notags"] if rng.random() < 0.8 else ["notags", "r:%d" % rng.randint(0, 3)]
    toks, pos = ["notags"], 128
    bad = rng.random() < 0.25
    while pos < n:
        left = n - pos
        ln = min(left, rng.choice([0, 1, 2, 3, 4, 5, 7, 8, 9, 16, 33, rng.randint(0, 600)]))
        k = rng.randrange(6)
        if k == 0:
            toks.append(f"r:{ln}")
        elif k == 1:
            toks.append(f"s2:{ln}")
        elif k == 2:
            toks.append(f"s4:{ln}")
        else:
            w = rng.choice([1, 2, 4] if not bad else [1, 2, 3, 4, 0, 5])
            o = rng.choice([0, 1, 2] if not bad else [0, 1, 2, 3])
            maxs = (pos - 1) // 4
            if bad and rng.random() < 0.3:
                st = str(rng.choice([maxs + 1, w - 1 if w else 0, 1 << 40]))
            elif rng.random() < 0.4:
                st = "-"
            else:
                st = str(rng.choice([w, w + 1, maxs, rng.randint(min(w, maxs), maxs)]))
            hi = rng.choice([0, 0, rng.randrange(8)]) if not bad else rng.randrange(9)
            toks.append(f"p:{w}:{o}:{st}:{hi}:{ln}")
        pos += ln
    if bad and rng.random() < 0.5:
        toks.append(rng.choice(["r:1", "x", "c:0", "c:9"]))
    return toks


PLAN_KIND = {"r": "raw", "s2": "shuffle2", "s4": "shuffle4", "x": "xyz", "c": "common-data",
             "notags": "no-taglist", "tags": "taglist"}


def count_plan(ctx, plan):
    for t in plan.split():
        f = t.split(":")
        if f[0] == "p":
            ctx.count(f"cmd:pred-w{f[1]}-o{f[2]}-" + ("stride-implicit" if f[3] == "-" else "stride-explicit"))
        elif f[0] == "t":
            code = int(f[1])
            ctx.count("cmd:tag-" + ("explicit" if code == 1 else "trc-triple" if code == 2 else
                                    "xyz-triple" if code == 3 else "common"))
            ctx.count("cmd:tag-start-" + ("explicit" if f[2] == "1" else "implicit"))
            ctx.count("cmd:tag-size-" + ("explicit" if f[3] == "1" else "implicit"))
        elif f[0] == "tags":
            ctx.count("cmd:taglist" + ("" if f[2] == "1" else "-unterminated"))
        else:
            ctx.count("cmd:" + PLAN_KIND.get(f[0], f[0]))


# ---------------------------------------------------------------------------- malformed streams
def malformed_from(rng, stream, exhaustive_bits):
    out = []
    for cut in range(len(stream)):
        out.append(("truncate", stream[:cut]))
    nbits = len(stream) * 8
    positions = range(nbits) if exhaustive_bits else sorted(rng.sample(range(nbits), min(nbits, 200)))
    for p in positions:
        b = bytearray(stream)
        b[p // 8] ^= 1 << (p % 8)
        out.append(("bitflip", bytes(b)))
    r = read_varint(stream, 0)
    r2 = read_varint(stream, r[1]) if r else None
    if r and r2:
        osz, csz, rest = r[0], r2[0], stream[r2[1]:]
        for o2 in {osz + 1, max(0, osz - 1), osz + 12, max(0, osz - 12), 0, 127, 128, 129, 1 << 28,
                   (1 << 28) + 1, osz + (1 << 32), (1 << 63) - 1, len(rest), csz}:
            out.append(("cross-size", varint(o2) + varint(csz) + rest))
        for c2 in {csz + 1, max(0, csz - 1), 0, len(rest), len(rest) + 1, (1 << 63) - 1, osz,
                   max(0, len(rest) - min(osz, 128)), max(0, len(rest) - min(osz, 128)) + 1}:
            out.append(("cross-size", varint(osz) + varint(c2) + rest))
        out.append(("cross-size", varint(csz) + varint(osz) + rest))
        out.append(("extra-data", stream + rng.randbytes(rng.randint(1, 9))))
        # a ninth varint byte with its top bit set still ends the varint
        out.append(("varint9", b"\x80" * 8 + b"\xff" + varint(csz) + rest))
    return out


def grammar_stream(rng):
    """random command streams over the real opcode set"""
    osz = rng.choice([rng.randint(129, 400), rng.randint(0, 128), rng.randint(129, 5000)])
    cmds = bytearray()
    k = rng.random()
    ntags = 0
    if k < 0.3:
        cmds += varint(0)
    else:
        ntags = rng.choice([0, 1, 2, 3, rng.randint(0, 30), max(0, (osz - 128) // 12 + rng.choice([-1, 0, 1]))])
        cmds += varint(ntags + 1)
        for _ in range(rng.randint(0, 6)):
            code = rng.choice([1, 2, 3, rng.randint(2, 20), rng.randint(0, 63), rng.randint(21, 63)])
            flags = rng.choice([0, 0, 64, 128, 192])
            cmds.append(code | flags)
            if flags & 64:
                cmds += varint(rng.choice([rng.randint(0, osz), rng.randrange(1 << 34)]))
            if flags & 128:
                cmds += varint(rng.choice([rng.randint(0, osz), 20, 0, rng.randrange(1 << 34)]))
        if rng.random() < 0.8:
            cmds.append(rng.choice([0, 64, 128, 192]))
    for _ in range(rng.randint(0, 8)):
        c = rng.choice([1, 2, 3, 4, 4, 4, 10, rng.randint(16, 23), rng.randrange(256)])
        cmds.append(c)
        if c in (1, 2, 3):
            cmds += varint(rng.choice([rng.randint(0, 40), rng.randint(0, 400), rng.randrange(1 << 40)]))
        elif c == 4:
            fl = rng.randrange(256)
            cmds.append(fl)
            if fl & 16:
                # strides whose product with order + 1 (1..3) wraps 64 bits to a small number
                cmds += varint(rng.choice([rng.randint(0, 8), rng.randint(0, 200), (1 << 62) + 5, (1 << 63) - 1,
                                           ((1 << 64) + rng.randint(0, 40)) // 3 + rng.randint(0, 1),
                                           ((1 << 64) + 2) // 3, (1 << 62) + rng.randint(0, 3), (1 << 61) + 1]))
            cmds += varint(rng.choice([rng.randint(0, 40), rng.randint(0, 400)]))
    if rng.random() < 0.1:
        cmds = cmds[:rng.randint(0, len(cmds))]
    data = rng.randbytes(rng.choice([min(osz, 128), rng.randint(0, 700), min(osz, 128) + rng.randint(0, 500)]))
    csz = len(cmds) if rng.random() < 0.9 else rng.randint(0, len(cmds) + 3)
    return varint(osz) + varint(csz) + bytes(cmds) + data


# ---------------------------------------------------------------------------- the check
def load_corpus():
    cases = []
    for f in sorted(glob.glob(os.path.join(CORPUS, "*.txt"))):
        for line in open(f):
            w = line.split()
            if len(w) >= 2 and not line.startswith("#"):
                cases.append((os.path.basename(f) + ":" + w[0], unhx(w[1])))
    return cases


def short(h, n=80):
    return h if len(h) <= n else h[:n] + f"...({len(h) // 2} bytes)"


PER_KEY = {}


def report(ctx, kind, detail, rep, key):
    """at most three replay files per kind of failure; the rest are only counted"""
    PER_KEY[key] = PER_KEY.get(key, 0) + 1
    ctx.count("violations:" + key)
    if PER_KEY[key] > 3:
        return True
    return ctx.violation(kind, detail, rep, key=key)


def impl_oracle(ctx, what, stream, out, expect=None, extra=None):
    """the property, evaluated on the implementation's own answer. True if violated."""
    how = f"echo 'decode {hx(stream)}' | {ctx.harness_bin('c18')}"
    rep = {"op": "decode " + hx(stream), "impl": out, "how": how, "source": what}
    rep.update(extra or {})
    if out.startswith("panic"):
        site = out.split()[1] if len(out.split()) > 1 else "?"
        site = re.sub(r"^.*/crates/", "", site).split("_")[0]
        return report(ctx, "implementation-panics", out, rep, "c18:panic:" + site)
    if out.startswith("ok "):
        got = unhx(out.split()[1])
        d = declared(stream)
        if d is not None and len(got) != d:
            rep["declared_size"], rep["returned_size"] = d, len(got)
            return report(ctx, "ok-with-length-different-from-declared-size",
                          f"declared {d}, returned {len(got)} bytes", rep, "c18:ok-size-mismatch")
    if expect is not None and out != "ok " + hx(expect):
        rep["expected"] = "ok " + hx(expect)
        return report(ctx, "embedded-profile-not-returned-byte-exactly",
                      "decode_icc(encodeIcc plan profile) != profile", rep, "c18:roundtrip")
    return False


def replay(ctx):
    body = json.load(open(ctx.replay))
    op = body["replay"]["op"]
    impl, rc, err = ctx.run_impl("c18", [op])
    out = impl[0] if impl else f"died rc={rc}"
    print("replay:", short(op, 200), "->", short(out, 200))
    exp = body["replay"].get("expected")
    stream = unhx(op.split()[1])
    impl_oracle(ctx, "replay", stream, out,
                expect=unhx(exp.split()[1]) if exp else None)
    ctx.case(op)


def run(ctx):
    ok = ctx.lean_build(MODULES)
    if ok:
        ctx.audit(MODULES, ctx.update_lock)
        if not ctx.quick:
            ctx.leanchecker(MODULES)
    ctx.cargo_build(["c18"])
    if getattr(ctx, "replay", None):
        return replay(ctx)
    rng = ctx.rng
    n_pairs = 4000 if ctx.quick else 40000
    n_grammar = 6000 if ctx.quick else 60000
    n_malformed_bases = 12 if ctx.quick else 120
    ctx.cov["rule"] = (
        "valid half: (profile, plan) pairs; profiles = the shipped ICC test profiles, profiles synthesised "
        "by jxl-color's colour_encoding_to_icc, mutated copies, synthetic tag tables, header-like, "
        "predictor-friendly and uniform random byte strings of 0..4 KiB (thorough: also 200 KiB); plans = "
        "Lean planner steered by seeded choices (tag list on/off, shortcuts on/off, raw/shuffle2/shuffle4/"
        "predicted runs of every width/order/stride) and explicit plans drawn here; each pair is encoded "
        "by the Lean encoder and decoded by the real decode_icc and by the model. malformed half: every "
        "truncation, bit flips, cross-wired sizes of small valid streams + random command grammars + "
        "streams encoded from illegal plans (incl. command-4 guards hit exactly: stride*4 = out.len(), "
        "stride = width-1, width 3, order 3, total one byte off) + the corpus. A valid case is non-trivial if the profile is longer than the header and the plan uses a "
        "command other than a raw copy; a malformed case if the implementation got past the size checks. "
        "get_icc_ctx: the full (b1,b2) table at idx 129 plus boundary indices.")

    # ---- profiles -----------------------------------------------------------------------
    shipped = [open(f, "rb").read() for f in sorted(glob.glob(os.path.join(PROFILE_DIR, "*.icc")))]
    if len(shipped) < 7:
        ctx.failed_obligations.append(f"expected 7 shipped ICC test profiles in {PROFILE_DIR}, found {len(shipped)}")
    so, rc, err = ctx.run_impl("c18", ["synth " + s for s in SYNTH])
    synth = []
    for s, o in zip(SYNTH, so):
        if o.startswith("ok "):
            synth.append(unhx(o.split()[1]))
        else:
            ctx.notes["synth " + s] = o[:200]          # colour_encoding_to_icc is C19's subject
    base = shipped + synth
    ctx.count("profiles:shipped", len(shipped))
    ctx.count("profiles:synthesised", len(synth))

    pairs = []                                          # (source, profile, plan tokens)
    for p in base:                                      # every real profile under the natural plans
        for mode in range(8):
            pairs.append(("real", p, [f"auto:{mode}:"]))
        for _ in range(3):
            pairs.append(("real", p, [f"auto:{rng.randrange(8)}:" + ",".join(map(str, gen_choices(rng)))]))
    for n in EDGE_LENS:                                 # every edge length once, natural plan
        pairs.append(("edge-len", headerish(rng, n), [f"auto:{rng.randrange(8)}:"]))
    for _ in range(12 if ctx.quick else 120):           # guards of command 4, exactly on the boundary
        src, p = gen_profile(rng, base)
        for plan in boundary_plans(rng, len(p)):
            pairs.append((src, p, plan))
    while len(pairs) < n_pairs:
        src, p = gen_profile(rng, base)
        for _ in range(rng.choice([1, 1, 2, 3])):
            if rng.random() < 0.12:
                pairs.append((src, p, explicit_plan(rng, len(p))))
            else:
                pairs.append((src, p, [f"auto:{rng.randrange(8)}:" + ",".join(map(str, gen_choices(rng)))]))
    if not ctx.quick:
        for i in range(8):
            p = smooth(rng, 200 * 1024 + rng.randrange(7)) if i % 2 else rng.randbytes(200 * 1024 + i)
            ch = []
            for _ in range(rng.choice([4, 12, 40])):
                ch += [rng.randrange(7), rng.randrange(60000), rng.randrange(216), rng.randrange(1 << 20)]
            pairs.append(("huge", p, [f"auto:{rng.randrange(8)}:" + ",".join(map(str, ch))]))
            pairs.append(("huge", p, ["auto:0:"]))

    enc_lines = ["encode " + " ".join(plan) + " " + hx(p) for _, p, plan in pairs]
    enc_out, rc, err = ctx.run_model("c18", enc_lines) if ok else ([], 1, "model not built")
    if rc != 0 or len(enc_out) != len(enc_lines):
        ctx.failed_obligations.append(f"model driver (encode) died rc={rc} {err[-300:]}")
        enc_out = []

    valid = []                                          # (source, profile, plan text, stream)
    illegal = []                                        # streams the encoder wrote for illegal plans
    for (src, p, plan), o in zip(pairs, enc_out):
        head, _, ptxt = o.partition(" | ")
        w = head.split()
        if w and w[0] == "ok":
            stream = unhx(w[1])
            valid.append((src, p, ptxt, stream))
            if rng.random() < 0.03:                     # same stream with padded varints
                r = read_varint(stream, 0)
                r2 = read_varint(stream, r[1])
                padded = varint(r[0], rng.randint(1, 8)) + varint(r2[0], rng.randint(1, 8)) + stream[r2[1]:]
                valid.append((src + "+padded-varints", p, ptxt, padded))
        elif w and w[0] == "nocover":
            ctx.count("plan:rejected-by-PlanCovers")
            illegal.append(("illegal-plan", unhx(w[1])))
        else:
            ctx.failed_obligations.append(f"model driver: unexpected encode answer {o[:100]!r} for plan {plan}")

    # ---- malformed ----------------------------------------------------------------------
    malformed = [("corpus:" + n, s) for n, s in load_corpus()] + illegal
    small = [v for v in valid if 129 <= len(v[1]) <= 220 and len(v[3]) <= 400]
    rng.shuffle(small)
    for i, v in enumerate(small[:n_malformed_bases]):
        for kind, s in malformed_from(rng, v[3], exhaustive_bits=(i < 2 or not ctx.quick)):
            malformed.append((kind, s))
    tiny = [v for v in valid if len(v[1]) <= 128][:3]
    for v in tiny:
        for kind, s in malformed_from(rng, v[3], exhaustive_bits=False):
            malformed.append((kind, s))
    for _ in range(n_grammar):
        malformed.append(("grammar", grammar_stream(rng)))
    for _ in range(200 if ctx.quick else 3000):
        malformed.append(("random-bytes", rng.randbytes(rng.randint(0, 300))))

    # ---- get_icc_ctx --------------------------------------------------------------------
    ctx_lines = [f"ctx 129 {b1} {b2}" for b1 in range(256) for b2 in range(256)]
    for idx in [0, 1, 2, 17, 18, 127, 128, 130, 1000, 1 << 28, (1 << 32) + 5]:
        for _ in range(200):
            ctx_lines.append(f"ctx {idx} {rng.randrange(256)} {rng.randrange(256)}")

    lines = ["decode " + hx(s) for *_, s in valid] + ["decode " + hx(s) for _, s in malformed] + ctx_lines
    impl, rc, err = ctx.run_impl("c18", lines)
    if rc != 0 or len(impl) != len(lines):
        ctx.failed_obligations.append(f"harness c18 died rc={rc} after {len(impl)} of {len(lines)} lines {err[-300:]}")
        return
    if ok:
        model, rc2, err2 = ctx.run_model("c18", lines)
        if rc2 != 0 or len(model) != len(lines):
            ctx.failed_obligations.append(f"model driver (decode) died rc={rc2} {err2[-300:]}")
            model = impl
    else:
        model = impl

    diffs = 0
    def compare(i, what):
        nonlocal diffs
        if impl[i] != model[i]:
            diffs += 1
            if diffs <= 10:
                ctx.failed_obligations.append(
                    f"correspondence decode_icc vs Jxl.Icc.decodeIcc differs ({what}): op {short(lines[i], 300)!r} "
                    f"impl {short(impl[i], 120)!r} model {short(model[i], 120)!r}")

    # valid half
    for i, (src, p, ptxt, s) in enumerate(valid):
        toks = ptxt.split()
        nontriv = len(p) > 128 and any(not t.startswith(("r:", "notags")) for t in toks)
        ctx.case((p, ptxt, s), nontriv)
        ctx.count("profile:" + src)
        ctx.count("profile-size:" + ("<=128" if len(p) <= 128 else "<=1KiB" if len(p) <= 1024 else
                                     "<=4KiB" if len(p) <= 4096 else ">4KiB"))
        count_plan(ctx, ptxt)
        if i < 2 or (nontriv and len(ctx.cov["samples"]) < 5 and rng.random() < 0.02):
            ctx.sample({"profile": short(hx(p)), "plan": ptxt[:300], "encoded": short(hx(s)),
                        "impl": short(impl[i])})
        if impl_oracle(ctx, "valid:" + src, s, impl[i], expect=p,
                       extra={"profile": hx(p), "plan": ptxt}):
            continue
        compare(i, "valid stream")
    # malformed half
    off = len(valid)
    for j, (kind, s) in enumerate(malformed):
        i = off + j
        o = impl[i]
        res = " ".join(o.split()[:2]) if not o.startswith("ok") else "ok"
        ctx.count("malformed:" + kind.split(":")[0])
        ctx.count("impl-answer:" + res)
        ctx.case(s, nontrivial=not any(k in o for k in ("cmdsize", "outsize", "toolarge")) and o != "err short")
        if impl_oracle(ctx, "malformed:" + kind, s, o):
            continue
        compare(i, kind)
    # context function
    off += len(malformed)
    bad_ctx = [k for k in range(len(ctx_lines)) if impl[off + k] != model[off + k]]
    for k in bad_ctx[:5]:
        ctx.failed_obligations.append(f"correspondence get_icc_ctx vs Jxl.Icc.getIccCtx differs: {ctx_lines[k]!r} "
                                      f"impl {impl[off + k]!r} model {model[off + k]!r}")
    seen = set()
    for k in range(len(ctx_lines)):
        v = impl[off + k]
        seen.add(v)
        if not v.isdigit() or int(v) > 40:
            ctx.violation("icc-context-out-of-range", f"{ctx_lines[k]} -> {v}",
                          {"op": ctx_lines[k], "impl": v}, key="c18:ctx-range")
            break
    ctx.count("ctx:lines", len(ctx_lines))
    ctx.count("ctx:distinct-contexts-seen", len(seen))
    ctx.cov["evaluations"] += len(ctx_lines)
    if diffs > 10:
        ctx.failed_obligations.append(f"... and {diffs - 10} more decode differences")
    rejected = [sm for j, (kind, sm) in enumerate(malformed)
                if model[len(valid) + j].startswith("err") and impl[len(valid) + j].startswith("err") and 0 < len(sm) <= 400]
    end_to_end(ctx, shipped, rejected)
    ctx.notes["valid_pairs"] = len(valid)
    ctx.notes["malformed_streams"] = len(malformed)
    ctx.notes["error_kind_comparison"] = ("exact: the model mirrors the order of checks in decode_icc, so the "
                                          "first error raised is compared by kind (13 kinds), not just ok/err")
    ctx.assumptions += [
        "usize/u64 = 64 bit; bytes are modelled as naturals < 256",
        "decode_icc is modelled with finding F6 repaired (end of commands inside the tag list falls through "
        "to the final size check); the unrepaired witness stays in corpus/c18",
        "the entropy-coded layer of read_icc (enc_size limits, 41-context varint symbols) belongs to C04; "
        "here only get_icc_ctx is tied, as a pure function",
        "JxlImage::original_icc() end to end: profiles are embedded by the Lean stream encoder (ICC command "
        "encoder + C04 entropy encoder, prefix and ANS) and read back through the real JxlImage",
        "non-minimal (padded) varints are exercised by the correspondence run only; the round-trip theorem "
        "uses the minimal-length varint writer",
    ]


def end_to_end(ctx, shipped, rejected=()):
    """embedded profile == JxlImage::original_icc(), through the whole codestream: Lean ICC command
    encoder (all planner modes) + Lean entropy encoder (prefix / ANS) + image header + one frame"""
    ctx.cargo_build(["img"])
    rng = ctx.rng
    profs = list(shipped)
    for _ in range(30 if ctx.quick else 150):
        base = bytearray(rng.choice(shipped))
        for _ in range(rng.randint(1, 12)):
            base[rng.randrange(len(base))] = rng.randrange(256)
        profs.append(bytes(base))
    for _ in range(10 if ctx.quick else 150):
        profs.append(bytes(rng.randrange(256) for _ in range(rng.choice([1, 2, 127, 128, 129, 144, 300, 1000]))))
    frame = ("frames 1 frame 0 1 1 0 0 0 0 0 0 0 0 0 0 1 0 0 0 0 wp 1 tr 0 pals 0 tree L 0 0 0 1 coded 0 "
             "chans 3 2 2 1 2 3 4 2 2 0 0 0 0 2 2 9 8 7 6")
    lines, meta = [], []
    # coder 0/1 prefix/ANS, 2/3 + LZ77, 4/5 + LZ77 with distances beyond the decoded count. For the
    # last kind the profile's tail is made to repeat the first bytes of its own encoded stream, so
    # that a copy "from symbol 0" exists (two passes through the Lean ICC command encoder).
    # 6/7: LZ77 whose final copy runs past enc_size (the reader stops inside it); the profile's last
    # bytes repeat the ones before so that the greedy parse ends with a copy.
    choice = [(p, rng.randrange(8), rng.randrange(8)) for p in profs]
    choice = [((p[:-8] + p[-16:-8]) if c >= 6 and len(p) >= 160 else p, c, m) for p, c, m in choice]
    idx = [i for i, (p, c, m) in enumerate(choice) if c in (4, 5) and len(p) >= 160]
    enc1 = run_lines_robust([MODEL_EXE, "c18"], [f"encode auto:{choice[i][2]}: {choice[i][0].hex()}" for i in idx],
                            per_line_timeout=60)
    for i, e in zip(idx, enc1):
        if e and e.startswith("ok "):
            head = bytes.fromhex(e.split()[1])[:4]
            p, c, m = choice[i]
            choice[i] = (p[:-4] + head, c, m)
    enc2 = run_lines_robust([MODEL_EXE, "c18"], [f"encode auto:{choice[i][2]}: {choice[i][0].hex()}" for i in idx],
                            per_line_timeout=60)
    for i, e in zip(idx, enc2):
        if e and e.startswith("ok "):
            b = bytes.fromhex(e.split()[1])
            if b.find(b[:3], 1) > 0:
                ctx.count("e2e:stream-repeats-its-start(over-long-distance-possible)")
    for p, ans, mode in choice:
        gray = 1 if p[16:20] == b"GRAY" else 0
        fr = frame if not gray else frame.replace("chans 3 2 2 1 2 3 4 2 2 0 0 0 0 2 2 9 8 7 6", "chans 1 2 2 1 2 3 4")
        lines.append(f"img 2 2 8 0 1 {gray} 1 0 0 icc {ans} {mode} {p.hex()} {fr}")
        meta.append((p, ans, mode))
    encs = run_lines_robust([MODEL_EXE, "enc"], lines, per_line_timeout=60)
    todo = [(m, e.split()[1]) for m, e in zip(meta, encs) if e and e.startswith("ok")]
    outs = run_lines_robust([ctx.harness_bin("img")], [f"icc {h}" for _, h in todo], per_line_timeout=30)
    for ((p, ans, mode), h), o in zip(todo, outs):
        ctx.case(("e2e", p, ans, mode), nontrivial=len(p) > 128)
        ctx.count("e2e:coder-" + ["prefix", "ans", "prefix+lz77", "ans+lz77", "prefix+lz77-overlong", "ans+lz77-overlong",
                                    "prefix+lz77-copy-past-end", "ans+lz77-copy-past-end"][ans])
        rep = {"profile_hex": p.hex(), "codestream_hex": h, "coder": ans, "plan_mode": mode,
               "how": "echo 'icc <codestream hex>' | harness/target/debug/img"}
        if not o or o.startswith("panic") or o.startswith("crash") or o == "hang":
            ctx.violation("original-icc-panicked", (o or "")[:200], rep, key="c18:e2e-panic")
        elif o.startswith("err") and o.endswith("channel-mismatch"):
            # the only image-level rejection of a decodable profile: grey profile in a colour image or
            # the reverse (RenderContextBuilder::build); not the ICC codec's business
            ctx.count("e2e:image-rejected-profile(channel-mismatch)")
        elif o.startswith("err"):
            ctx.violation("image-with-valid-icc-stream-rejected", o[:120], rep, key="c18:e2e-valid-rejected")
        elif o != "ok " + p.hex():
            ctx.violation("original-icc-differs-from-embedded", o[:120], rep, key="c18:e2e")
    ctx.notes["e2e_embedded_profiles"] = len(todo)
    # rejection end to end: a command stream decode_icc rejects (model and code agree on that above),
    # embedded as is, must make the image fail to open -- not open without a profile
    rej = list(rejected)
    rng.shuffle(rej)
    rej = rej[:40 if ctx.quick else 600]
    rl = [f"img 2 2 8 0 1 0 1 0 0 iccraw {len(sm)} {' '.join(str(b) for b in sm)} {frame}" for sm in rej]
    encs = run_lines_robust([MODEL_EXE, "enc"], rl, per_line_timeout=60)
    todo = [(sm, e.split()[1]) for sm, e in zip(rej, encs) if e and e.startswith("ok")]
    outs = run_lines_robust([ctx.harness_bin("img")], [f"icc {h}" for _, h in todo], per_line_timeout=30)
    for (sm, h), o in zip(todo, outs):
        ctx.case(("e2e-rej", sm), nontrivial=True)
        rep = {"encoded_icc_stream_hex": sm.hex(), "codestream_hex": h,
               "how": "echo 'icc <codestream hex>' | harness/target/debug/img"}
        if not o or o.startswith("panic") or o.startswith("crash") or o == "hang":
            ctx.violation("original-icc-panicked", (o or "")[:200], rep, key="c18:e2e-panic")
        elif o.startswith("err"):
            ctx.count("e2e:malformed-stream-rejects-image")
        else:
            ctx.violation("image-opens-although-its-icc-stream-is-rejected-by-decode_icc", o[:120], rep,
                          key="c18:e2e-malformed-accepted")
    ctx.notes["e2e_rejected_streams"] = len(todo)
