"""C19 — colour descriptions round-trip through the synthesised ICC profile; transfer curves
invert and are monotone; converting to the same encoding is a no-op.

Theorems: Props/C19.lean (structural ICC synthesis / recognition, enum logic, s15Fixed16,
transfer curves over the reals, no-op detection).
Correspondence (harness/src/bin/c19.rs vs `jxlmodel c19`):
 (a) colour_encoding_to_icc -> ColorEncodingWithProfile::with_icc on every named enum combination
     and on seeded custom chromaticities / gamma values; the property oracle is evaluated on the
     implementation's own answer first, then the bytes are compared with the model's profile
     (the model repeats the f32 arithmetic operation for operation, so the comparison is exact;
     the PQ/HLG tables come from the platform's pow/exp and may differ by one unit);
 (b) transfer kernels through ColorTransform on dense grids (8-wide, 4-wide and scalar lanes),
     round trip / monotonicity / agreement with the Float model within the tolerances below;
 (c) identity conversions are no-ops and bit-exact;
 (F5) rendered_icc() on crafted headers.
Tolerances ("small tolerance" of the property text, stated once here):
  power-law curves (gamma, DCI, BT.709), sRGB and HLG: |dec(enc x) - x| <= 1e-5*|x| + 2e-7
      (2e-7: samples <= 1e-7 are flushed to 0 by apply_gamma; f32 spacing near 1 is 6e-8);
  PQ: 1e-4*|x| + 1e-6*(10000/intensity_target) — the rational approximation of the EOTF has an
      absolute error of about 6e-7 of the 10000-nit range near black (0.006 nit);
  monotone: f(x2) >= f(x1) for grid neighbours x1 < x2, no slack; inversions of a few f32 units
      in the polynomial approximations are reported as findings with a hard bound of 1e-6 relative.
"""
import struct
from vlib import *

MODULES = ["JxlModel.Props.C19"]

f2b = lambda f: struct.unpack('>I', struct.pack('>f', f))[0]
b2f = lambda b: struct.unpack('>f', struct.pack('>I', b))[0]
h2d = lambda h: struct.unpack('>d', bytes.fromhex(h))[0]

CS = ["rgb", "gray"]
WP = {"d65": (312700, 329000), "e": (333333, 333333), "dci": (314000, 351000)}
PR = {"srgb": (639999, 330010, 300004, 600003, 150002, 59997),
      "bt2100": (708000, 292000, 170000, 797000, 131000, 46000),
      "p3": (680000, 320000, 265000, 690000, 150000, 60000)}
TF_NAMED = ["bt709", "linear", "srgb", "pq", "dci", "hlg"]
STD_WHITES = list(WP.values()) + [(345700, 358500), (332420, 347430), (299020, 314850)]
STD_GAMUTS = list(PR.values()) + [(640000, 330000, 210000, 710000, 150000, 60000)]
XY_MIN, XY_MAX = -2097152, 2097151      # 22-bit UnpackSigned field of a header


def site(s):
    """`panic <path>:<line>_<msg>` -> `<crate>/src/<file>:<line>`"""
    m = re.search(r"(jxl-[a-z-]+/src/[\w/.]+:\d+)", s)
    return m.group(1) if m else s[:60]


def canon_impl(line):
    """bring the harness's panic lines to the model's vocabulary"""
    if line.startswith("panic "):
        if "synthesize.rs" in line:
            if "not_yet_implemented" in line:
                return "panic xyb"
            if "divide_by_zero" in line:
                return "panic gamma-zero"
            if "Unknown_color_space" in line:
                return "panic cs-unknown"
            if "explicit_panic" in line:
                return "panic tf-unknown"
        if "parse.rs" in line and "overflow" in line:
            return "panic overflow"
        if "convert.rs" in line and "explicit_panic" in line:
            return "panic hlg-grey"
    return line


# ---------------------------------------------------------------------------------------------
# (a) synthesis -> recognition
# ---------------------------------------------------------------------------------------------
def xy_of(tok, table):
    if tok.startswith("c:"):
        return [int(v) for v in tok.split(":")[1:]]
    return list(table[tok])


def near_std(vals, stds, r):
    return any(all(abs(a - b) <= r for a, b in zip(vals, s)) for s in stds)


def nominal(w):
    """well-conditioned domain: white point within 0.02 of a standard white (D65, E, DCI, D50,
    D55, D75) and every primary within 0.02 of the same primary of a standard gamut"""
    cs, wp, pr = w[1], w[2], w[3]
    if wp.startswith("c:") and not near_std(xy_of(wp, WP), STD_WHITES, 20000):
        return False
    if cs == "rgb" and pr.startswith("c:"):
        p = xy_of(pr, PR)
        for k in range(3):
            if not any(abs(p[2 * k] - g[2 * k]) <= 20000 and abs(p[2 * k + 1] - g[2 * k + 1]) <= 20000
                       for g in STD_GAMUTS):
                return False
    return True


def exponent(tf):
    """decode exponent (ICC gamma) of a pure-power transfer function token, else None"""
    if tf == "linear":
        return 1.0
    if tf == "dci":
        return 2.6
    if tf.startswith("g:"):
        _, g, inv = tf.split(":")
        g = int(g)
        if g == 0:
            return None
        return 1e7 / g if inv == "1" else g / 1e7
    return None


def in_gamma_domain(tf):
    """gamma values a header can carry after validation (1e7/8192 <= g <= 1e7, inverted) and the
    non-inverted API form with the same range of exponents (1 <= gamma <= 8192)"""
    if not tf.startswith("g:"):
        return True
    _, g, inv = tf.split(":")
    g = int(g)
    if inv == "1":
        return g <= 10_000_000 and g * 8192 >= 10_000_000
    return 10_000_000 <= g <= 4_294_967_295


def rt_oracle(w, res):
    """the property on the implementation's answer. Returns None or (key, why)."""
    cs, wp, pr, tf, ri = w[1:6]
    ill = not nominal(w)
    cls = "xy-precision:ill-conditioned" if ill else None
    if res[0] == "panic":
        return "panic:" + site(" ".join(res)), "panic in synthesis or recognition"
    if res[0] != "enum":
        return (cls or "roundtrip:not-recognised"), "synthesised profile is not recognised: " + " ".join(res)
    _, cs2, wp2, pr2, tf2, ri2 = res
    if cs2 != cs or ri2 != ri:
        return "roundtrip:cs-intent", f"colour space / intent changed to {cs2} {ri2}"
    # transfer function
    if tf.startswith("g:"):
        a, b = exponent(tf), exponent(tf2)
        if b is None or abs(a - b) > 1e-4 * a:
            return "roundtrip:gamma", f"gamma {a!r} came back as {tf2} ({b!r})"
    elif tf2 != tf:
        return "roundtrip:named-tf", f"transfer function {tf} came back as {tf2}"
    # white point
    a, b = xy_of(wp, WP), xy_of(wp2, WP)
    dw = max(abs(p - q) for p, q in zip(a, b))
    if not wp.startswith("c:"):
        if wp2 != wp:
            return "roundtrip:named-wp", f"white point {wp} came back as {wp2}"
    elif dw > 100:
        if cls:
            return cls, f"white point off by {dw}e-6"
        return ("xy-precision:nominal" if dw <= 200 else "roundtrip:custom-wp"), f"white point off by {dw}e-6 ({wp2})"
    if cs == "rgb":
        a, b = xy_of(pr, PR), xy_of(pr2, PR)
        dp = max(abs(p - q) for p, q in zip(a, b))
        if not pr.startswith("c:"):
            if pr2 != pr:
                return (cls or "roundtrip:named-primaries"), f"primaries {pr} came back as {pr2}"
        elif dp > 100:
            if cls:
                return cls, f"primaries off by {dp}e-6"
            return ("xy-precision:nominal" if dp <= 200 else "roundtrip:custom-primaries"), f"primaries off by {dp}e-6 ({pr2})"
    elif pr2 != "srgb":
        return "roundtrip:grey-primaries", f"grey profile came back with primaries {pr2}"
    return None


def gen_rt(ctx, n_custom, n_gamma):
    rng = ctx.rng
    lines = []
    for cs in CS:
        for wp in WP:
            for pr in PR:
                for tf in TF_NAMED:
                    for ri in range(4):
                        lines.append(f"rt {cs} {wp} {pr} {tf} {ri}")

    def near(std, r):
        return [v + rng.randint(-r, r) for v in std]

    def any_xy():
        k = rng.random()
        if k < 0.5:
            return [rng.randint(1000, 800000), rng.randint(1000, 900000)]
        if k < 0.8:
            return [rng.randint(XY_MIN, XY_MAX), rng.randint(XY_MIN, XY_MAX)]
        e = [0, 1, -1, XY_MIN, XY_MAX, 333333, 312700, 329000, 1000000]
        return [rng.choice(e), rng.choice(e)]

    def tf_tok():
        k = rng.random()
        if k < 0.5:
            return rng.choice(TF_NAMED)
        if k < 0.8:
            return "g:%d:1" % rng.choice([rng.randint(1221, 10_000_000), rng.randint(1221, 40000),
                                          1221, 1222, 23283, 23284, 10_000_000, 9_999_999, 4545455, 3846154])
        return "g:%d:0" % rng.choice([rng.randint(10_000_000, 4_294_967_295), 10_000_000, 10_000_001,
                                      22_000_000, 26_000_000, 4_294_967_295, 4_294_967_263, 4_294_967_264])

    for i in range(n_custom):
        cs = rng.choice(["rgb", "rgb", "gray"])
        k = rng.random()
        if k < 0.6:          # nominal domain
            r = rng.choice([20000, 20000, 5000, 150, 101, 99])
            wp = "c:%d:%d" % tuple(near(rng.choice(STD_WHITES), r)) if rng.random() < 0.8 else rng.choice(list(WP))
            if rng.random() < 0.8:
                p = []
                for c in range(3):
                    g = rng.choice(STD_GAMUTS)
                    p += near(g[2 * c:2 * c + 2], r)
                pr = "c:" + ":".join(map(str, p))
            else:
                pr = rng.choice(list(PR))
        else:                # anything a header can carry
            wp = "c:%d:%d" % tuple(any_xy()) if rng.random() < 0.7 else rng.choice(list(WP))
            pr = "c:" + ":".join(map(str, any_xy() + any_xy() + any_xy())) if rng.random() < 0.7 else rng.choice(list(PR))
        if cs == "gray" and rng.random() < 0.8:
            pr = "srgb"
        lines.append(f"rt {cs} {wp} {pr} {tf_tok()} {rng.randint(0, 3)}")
    # gamma sweep over the whole admissible range, both representations
    gs = [1221, 1222, 1230, 2000, 23282, 23283, 23284, 23285, 65536, 152588, 1000000, 3846153, 3846154, 3846155,
          4545454, 4545455, 5000000, 9999998, 9999999, 10000000]
    gs += [rng.randint(1221, 10_000_000) for _ in range(n_gamma)]
    gs += [int(10 ** rng.uniform(3.09, 7.0)) for _ in range(n_gamma)]
    for g in gs:
        g = min(max(g, 1221), 10_000_000)
        lines.append(f"rt {rng.choice(CS)} d65 srgb g:{g}:1 {rng.randint(0, 3)}")
    gn = [10_000_000, 10_000_001, 10_000_076, 10_000_077, 22_000_000, 25_999_938, 26_000_000, 26_000_061,
          4_294_967_295, 4_294_967_263, 4_294_967_264, 4_294_967_262]
    gn += [rng.randint(10_000_000, 4_294_967_295) for _ in range(n_gamma)]
    gn += [int(10 ** rng.uniform(7.0, 9.63)) for _ in range(n_gamma)]
    for g in gn:
        g = min(max(g, 10_000_000), 4_294_967_295)
        lines.append(f"rt {rng.choice(CS)} d65 srgb g:{g}:0 {rng.randint(0, 3)}")
    return lines


def icc_fields(h):
    """offsets of (tag signature, offset, size) in a profile given as hex"""
    b = bytes.fromhex(h)
    n = int.from_bytes(b[128:132], "big")
    return b, [(b[132 + 12 * i:136 + 12 * i], int.from_bytes(b[136 + 12 * i:140 + 12 * i], "big"),
                int.from_bytes(b[140 + 12 * i:144 + 12 * i], "big")) for i in range(n)]


def profiles_agree(hi, hm):
    """exact, or equal except PQ/HLG table entries that differ by one unit"""
    if hi == hm:
        return "exact"
    if len(hi) != len(hm):
        return None
    bi, tags = icc_fields(hi)
    bm = bytes.fromhex(hm)
    lut = set()
    for sig, off, size in tags:
        if sig[1:] == b"TRC" and bi[off:off + 4] == b"curv" and size > 14:
            lut.update(range(off + 12, off + size))
    for i in range(len(bi)):
        if bi[i] != bm[i] and i not in lut:
            return None
    for sig, off, size in tags:
        if sig[1:] == b"TRC" and bi[off:off + 4] == b"curv" and size > 14:
            for j in range(off + 12, off + size, 2):
                if abs(int.from_bytes(bi[j:j + 2], "big") - int.from_bytes(bm[j:j + 2], "big")) > 1:
                    return None
    return "lut-1"


def structural_check(h):
    """the implementation's profile obeys the layout the structural theorem states for the model"""
    b, tags = icc_fields(h)
    if int.from_bytes(b[0:4], "big") != len(b):
        return "size field != length"
    for sig, off, size in tags:
        if off % 4 or off + size > len(b) or off < 132 + 12 * len(tags):
            return f"tag {sig!r} at {off}+{size} not inside/aligned"
    names = [t[0] for t in tags]
    need = [b"desc", b"cprt", b"wtpt"] + ([b"kTRC"] if b[16:20] == b"GRAY" else
                                          [b"chad", b"rTRC", b"gTRC", b"bTRC", b"rXYZ", b"gXYZ", b"bXYZ"])
    for n in need:
        if n not in names:
            return f"required tag {n!r} missing"
    if b[16:20] == b"RGB ":
        t = {s: (o, z) for s, o, z in tags}
        if not (t[b"rTRC"] == t[b"gTRC"] == t[b"bTRC"]):
            return "TRC data not shared"
    return None


def part_a(ctx, ok):
    lines = gen_rt(ctx, 12000 if ctx.quick else 150000, 600 if ctx.quick else 8000)
    impl, rc, err = ctx.run_impl("c19", lines)
    if rc != 0 or len(impl) != len(lines):
        ctx.failed_obligations.append(f"harness c19 died in part (a) rc={rc} {err[-300:]}")
        return []
    model = None
    if ok:
        model, rc2, err2 = ctx.run_model("c19", lines)
        if rc2 != 0 or len(model) != len(lines):
            ctx.failed_obligations.append(f"model driver died in part (a) rc={rc2} {err2[-300:]}")
            model = None
    profiles = []
    ndiff = 0
    for i, (l, o) in enumerate(zip(lines, impl)):
        w = l.split()
        res = o.split(" => ")[-1].split()
        dom = in_gamma_domain(w[4])
        nom = nominal(w)
        ctx.case(l, nontrivial=True)
        ctx.count("rt " + ("nominal" if nom else "extended") + (" custom" if "c:" in l or "g:" in l else " named"))
        ctx.count("rt result " + (res[0] if res[0] != "err" else " ".join(res[:2])))
        if " => " in o:
            hexprof = o.split(" => ")[0]
            if len(profiles) < 400 or i % 7 == 0:
                profiles.append(hexprof)
            bad = structural_check(hexprof)
            if bad:
                ctx.violation("synthesised-profile-malformed", bad, {"line": l, "impl": o[:400]}, key="structure:" + bad[:20])
        if dom:
            v = rt_oracle(w, res)
            if v:
                key, why = v
                ctx.count("rt finding " + key)
                ctx.violation("roundtrip", why, {"line": l, "impl_result": " ".join(res),
                                                 "how": "echo LINE | harness/target/debug/c19"}, key=key)
        if i < 2 or (len(ctx.cov["samples"]) < 4 and "c:" in l):
            ctx.sample({"line": l, "impl": " ".join(res)})
        if model is not None:
            m = model[i]
            oi = canon_impl(o)
            if oi != m:
                agree = None
                if " => " in oi and " => " in m and oi.split(" => ")[1] == m.split(" => ")[1]:
                    agree = profiles_agree(oi.split(" => ")[0], m.split(" => ")[0])
                if agree:
                    ctx.count("rt model " + agree)
                else:
                    ndiff += 1
                    if ndiff <= 5:
                        ctx.failed_obligations.append(
                            f"correspondence colour_encoding_to_icc/with_icc vs model differs on {l!r}: impl {oi[-120:]!r} model {m[-120:]!r}")
            else:
                ctx.count("rt model exact")
    return profiles


# ---------------------------------------------------------------------------------------------
# recognition of damaged profiles (model vs implementation only)
# ---------------------------------------------------------------------------------------------
def part_parse(ctx, ok, profiles):
    rng = ctx.rng
    lines = []
    n = 2000 if ctx.quick else 25000
    for _ in range(n):
        if not profiles:
            break
        b = bytearray(bytes.fromhex(rng.choice(profiles)))
        k = rng.random()
        if k < 0.35:        # flip bytes in header / tag table / small tags
            for _ in range(rng.randint(1, 3)):
                pos = rng.randrange(min(len(b), 700))
                b[pos] = rng.choice([0, 1, 0xff, b[pos] ^ (1 << rng.randrange(8)), rng.randrange(256)])
        elif k < 0.5:       # truncate / extend, with or without fixing the size field
            cut = rng.choice([rng.randrange(len(b) + 1), 127, 128, 131, 132, len(b) - 1])
            b = b[:cut] + bytes(rng.randint(0, 3))
            if rng.random() < 0.6 and len(b) >= 4:
                b[0:4] = len(b).to_bytes(4, "big")
        elif k < 0.65:      # tag table values
            nt = int.from_bytes(b[128:132], "big")
            if nt:
                t = rng.randrange(nt)
                f = rng.choice([4, 8])
                v = rng.choice([0, 1, 3, 12, 13, 14, 20, 44, len(b), len(b) - 4, 2 ** 31, 2 ** 32 - 1, rng.randrange(len(b))])
                b[132 + 12 * t + f:132 + 12 * t + f + 4] = v.to_bytes(4, "big")
        elif k < 0.75:      # tag count
            v = rng.choice([0, 1, 2, 100, 357913941, 357913942, 2 ** 32 - 1, rng.randrange(20)])
            b[128:132] = v.to_bytes(4, "big")
        elif k < 0.9:       # rename a tag
            nt = int.from_bytes(b[128:132], "big")
            if nt:
                t = rng.randrange(nt)
                b[132 + 12 * t:136 + 12 * t] = rng.choice([b"A2B0", b"chrm", b"kTRC", b"rTRC", b"gXYZ", b"wtpt", b"chad",
                                                           b"cicp", b"view", b"pre1", b"xTRC", b"kXYZ", b"B2D3", b"zzzz"])
        else:               # colour space / intent bytes
            b[16:20] = rng.choice([b"CMYK", b"GRAY", b"RGB ", b"Lab ", b"3CLR"])
            b[0x43] = rng.choice([0, 1, 2, 3, 4, 255])
        lines.append("parse " + (bytes(b).hex() or "-"))
    # every short length, size field corrected: header only, header + part of the tag count, one tag short
    for hx_ in (profiles[:2] if profiles else []):
        full = bytes.fromhex(hx_)
        for cut in list(range(0, 150)) + [len(full) - 1]:
            b = bytearray(full[:cut])
            if len(b) >= 4:
                b[0:4] = len(b).to_bytes(4, "big")
            lines.append("parse " + (bytes(b).hex() or "-"))
    # the profiles that ship with the crate
    tp = os.path.join(REPO, "crates/jxl-color/src/icc/test-profiles")
    shipped = []
    if os.path.isdir(tp):
        for f in sorted(os.listdir(tp)):
            shipped.append(open(os.path.join(tp, f), "rb").read().hex())
            lines.append("parse " + shipped[-1])
    if not lines:
        return shipped
    impl, rc, err = ctx.run_impl("c19", lines)
    if rc != 0 or len(impl) != len(lines):
        ctx.failed_obligations.append(f"harness c19 died in parse part rc={rc} {err[-300:]}")
        return shipped
    for l, o in zip(lines, impl):
        ctx.case(l, nontrivial=not o.startswith("enum"))
        if o.startswith("panic"):
            ctx.violation("with_icc-panics-on-a-damaged-profile", o[:200],
                          {"line": l, "how": "echo '<line>' | harness/target/debug/c19"}, key="c19:parse-" + o.split()[1][:60] if len(o.split()) > 1 else "c19:parse-panic")
        ctx.count("parse " + " ".join(canon_impl(o).split()[:2]))
    if ok:
        model, rc2, err2 = ctx.run_model("c19", lines)
        if rc2 != 0 or len(model) != len(lines):
            ctx.failed_obligations.append(f"model driver died in parse part rc={rc2} {err2[-300:]}")
            return shipped
        nd = 0
        for l, o, m in zip(lines, impl, model):
            if canon_impl(o) != m:
                nd += 1
                if nd <= 5:
                    ctx.failed_obligations.append(
                        f"correspondence with_icc vs model differs on a damaged profile ({len(l) // 2} bytes, sha1 "
                        f"{hashlib.sha1(l.encode()).hexdigest()[:10]}): impl {canon_impl(o)!r} model {m!r}")
                    json.dump({"line": l, "impl": o, "model": m},
                              open(os.path.join(ctx.work, f"parse-diff-{nd}.json"), "w"))
    return shipped


# ---------------------------------------------------------------------------------------------
# (b) transfer kernels
# ---------------------------------------------------------------------------------------------
CURVES = {  # token -> (branch points linear side, branch points encoded side, kind)
    "srgb": ([0.0031308], [0.04045], "srgb"),
    "bt709": ([0.018], [0.081], "power"),
    "dci": ([1e-7], [1e-7, 0.00203], "gamma"),
    "g:4545455:1": ([1e-7], [1e-7], "gamma"),
    "g:22000000:0": ([1e-7], [1e-7], "gamma"),
    "g:10000000:1": ([1e-7], [1e-7], "gamma"),
    "g:3333333:1": ([1e-7], [1e-7], "gamma"),
    "pq": ([1e-4], [0.0338, 0.0342], "pq"),
    "hlg": ([1 / 12], [0.5], "hlg"),
}
IT = {"-": 255.0, "5640": 100.0, "70e2": 10000.0, "63d0": 1000.0}


def grid(rng, n, branch, lo=-0.25, hi=1.25):
    g = set()
    for i in range(n + 1):
        g.add(f2b(lo + (hi - lo) * i / n))
    for _ in range(n // 4):
        g.add(f2b(rng.uniform(lo, hi)))
    for b in branch + [0.0, 1.0]:
        bb = f2b(b)
        for d in range(-24, 25):
            g.add((bb + d) & 0xffffffff if bb + d >= 0 else f2b(-b2f(-(bb + d))))
    for k in range(-100, 1):
        for v in (2.0 ** (k / 4), -2.0 ** (k / 4)):
            if lo <= v <= hi:
                g.add(f2b(v))
    g.update([0x80000000, 1, 0x00800000])
    # -0.0 sorts before +0.0
    vals = sorted({b for b in g if b2f(b) == b2f(b) and lo <= b2f(b) <= hi}, key=lambda b: (b2f(b), 0 if b >> 31 else 1))
    return vals


def rt_tol(kind, x, it):
    if kind == "pq":
        return 1e-4 * abs(x) + 1e-6 * (10000.0 / it)
    return 1e-5 * abs(x) + 2e-7


def model_tol(kind, m, it, enc):
    """|impl - model| allowed: the kernels are approximations, the model is the curve itself"""
    if kind == "pq":
        return (1e-4 * abs(m) + 2e-6) if enc else (1e-4 * abs(m) + 1e-6 * (10000.0 / it))
    return 1e-5 * abs(m) + 2e-6


def tf_call(ctx, op, tf, d, it, n, bits, model=False):
    line = f"{op} {tf} {d} {it} {n} " + " ".join(f"{b:08x}" for b in bits)
    out, rc, err = (ctx.run_model("c19", [line]) if model else ctx.run_impl("c19", [line]))
    if rc != 0 or len(out) != 1:
        return None, line
    return out[0], line


def finite(v):
    return v == v and abs(v) != float("inf")


def part_b(ctx, ok):
    rng = ctx.rng
    n = 4000 if ctx.quick else 60000
    for tf, (br_lin, br_enc, kind) in CURVES.items():
        its = ["-"] + (["5640"] if kind in ("pq", "hlg") else [])
        for it in its:
            itv = IT[it]
            xs = grid(rng, n, br_lin)
            X = [b2f(b) for b in xs]
            o, line = tf_call(ctx, "tf", tf, "enc", it, 13, xs)
            if o is None or o.startswith(("panic", "err", "bad")):
                ctx.violation("tf-kernel-failed", f"{tf} enc: {o}", {"line": line[:300]},
                              key="panic:" + site(o or ""))
                continue
            ew = o.split()
            E = [[int(ew[3 * i + k], 16) for k in range(3)] for i in range(len(xs))]
            e0 = [e[0] for e in E]
            o2, line2 = tf_call(ctx, "tf", tf, "dec", it, 13, e0)
            if o2 is None or o2.startswith(("panic", "err", "bad")):
                ctx.violation("tf-kernel-failed", f"{tf} dec: {o2}", {"line": line2[:300]},
                              key="panic:" + site(o2 or ""))
                continue
            dw = o2.split()
            D = [[b2f(int(dw[3 * i + k], 16)) for k in range(3)] for i in range(len(xs))]
            ctx.count(f"tf {tf} it={itv:g} samples", len(xs))
            # round trip (the property's first clause), every lane
            worst = {}
            for x, e, d in zip(X, E, D):
                ctx.cov["evaluations"] += 1
                neg = x < 0
                for k in range(3):
                    errv = abs(d[k] - x) if finite(d[k]) else float("inf")
                    tol = rt_tol(kind, x, itv)
                    if errv > tol:
                        if kind == "gamma" and neg:
                            key = "tf-domain:gamma-negative-clamped"
                        elif kind == "hlg" and neg:
                            key = "tf-domain:hlg-negative"
                        elif kind == "srgb" and errv <= 1e-3 * abs(x) + 2e-6:
                            key = "tf-tolerance:srgb"
                        elif kind == "pq" and errv <= 2e-2 * abs(x) + 1e-6 * (10000.0 / itv):
                            key = "tf-tolerance:pq-branch-switch"
                        else:
                            key = f"tf-roundtrip:{tf}"
                        if key not in worst or errv > worst[key][0]:
                            worst[key] = (errv, x, b2f(e[k]), d[k], k, tol)
            for key, (errv, x, e, d, k, tol) in worst.items():
                ctx.violation("tf-roundtrip", f"{tf} it={itv:g}: dec(enc({x!r})) = {d!r} (enc = {e!r}), error {errv:.3e} > {tol:.3e}, lane {k}",
                              {"tf": tf, "it": it, "x_bits": f"{f2b(x):08x}", "how": f"tf {tf} enc {it} 13 <bits> then tf {tf} dec"}, key=key)
            # lanes agree (scalar and vector paths)
            for name, vals, args in (("enc", [[b2f(v) for v in e] for e in E], X), ("dec", D, [b2f(b) for b in e0])):
                wl = None
                for a, v in zip(args, vals):
                    if all(finite(t) for t in v):
                        dl = max(abs(v[0] - v[1]), abs(v[0] - v[2]))
                        if dl > 1e-5 * abs(v[0]) + 2e-7 and (wl is None or dl > wl[0]):
                            wl = (dl, a, v)
                if wl:
                    ctx.violation("tf-lanes-disagree", f"{tf} {name} it={itv:g}: input {wl[1]!r} gives {wl[2]} on the 8-wide/4-wide/scalar paths",
                                  {"tf": tf, "dir": name, "x_bits": f"{f2b(wl[1]):08x}"}, key=f"tf-lanes:{tf}:{name}")
            # monotone, encode direction (grid is sorted by input)
            mono_check(ctx, tf, "enc", itv, X, [[b2f(v) for v in e] for e in E], kind)
            # monotone, decode direction on its own dense grid
            es = grid(rng, n, br_enc, hi=1.02 if kind == "pq" else 1.25)
            o3, line3 = tf_call(ctx, "tf", tf, "dec", it, 13, es)
            if o3 and not o3.startswith(("panic", "err", "bad")):
                w3 = o3.split()
                D3 = [[b2f(int(w3[3 * i + k], 16)) for k in range(3)] for i in range(len(es))]
                mono_check(ctx, tf, "dec", itv, [b2f(b) for b in es], D3, kind)
            else:
                D3 = None
            # the Float model
            if ok:
                for d_, inp, outv in (("enc", xs, [[b2f(v) for v in e] for e in E]), ("dec", es, D3)):
                    if outv is None:
                        continue
                    mo, ml = tf_call(ctx, "tf", tf, d_, it, 13, inp, model=True)
                    if mo is None or mo.startswith(("panic", "bad")):
                        ctx.failed_obligations.append(f"model driver failed on tf {tf} {d_}: {mo}")
                        continue
                    mv = [h2d(h) for h in mo.split()]
                    worstm = {}
                    for b, v, m in zip(inp, outv, mv):
                        x = b2f(b)
                        if not finite(m):
                            if all(finite(t) for t in v) and not (kind in ("hlg",) and x < 0):
                                worstm.setdefault("model-nan", (0, x, v, m))
                            continue
                        if kind == "hlg" and x < 0:
                            continue
                        dv = max(abs(t - m) if finite(t) else float("inf") for t in v)
                        if dv > model_tol(kind, m, itv, d_ == "enc"):
                            if kind == "srgb" and d_ == "enc" and dv <= 1e-3 * abs(m) + 2e-6:
                                key = "tf-tolerance:srgb"
                            elif kind == "pq" and d_ == "enc" and dv <= 1e-3:
                                key = "tf-tolerance:pq-branch-switch"
                            else:
                                key = "diff"
                            if key not in worstm or dv > worstm[key][0]:
                                worstm[key] = (dv, x, v, m)
                    for key, (dv, x, v, m) in worstm.items():
                        msg = f"{tf} {d_} it={itv:g}: kernel({x!r}) = {v} but the curve gives {m!r} (|diff| {dv:.3e})"
                        if key.startswith("tf-tolerance"):
                            ctx.violation("tf-kernel-vs-curve", msg, {"tf": tf, "dir": d_, "x_bits": f"{f2b(x):08x}"}, key=key)
                        else:
                            ctx.failed_obligations.append("correspondence transfer kernel vs Float model: " + msg)
    # the one-channel path gives the same numbers as three equal channels (HLG included: its OOTF mixes R = G = B)
    for tf in list(CURVES):
        xs = grid(rng, 200, [])
        for d_ in ("enc", "dec"):
            a, _ = tf_call(ctx, "tf", tf, d_, "-", 13, xs)
            g, lineg = tf_call(ctx, "tfg", tf, d_, "-", 13, xs)
            ctx.case(("tfg", tf, d_), True)
            if g is None or g.startswith("panic"):
                ctx.violation("grey-transfer-panics", f"grey {tf} {d_}: {g}", {"line": lineg[:200]},
                              key="panic:" + site(g or ""))
                if ok:
                    mg, _ = tf_call(ctx, "tfg", tf, d_, "-", 13, xs, model=True)
                    if canon_impl(g or "") != mg:
                        ctx.failed_obligations.append(f"correspondence grey {tf} {d_}: impl {canon_impl(g or '')!r} model {mg!r}")
            elif a != g:       # HLG too: since the grey-HLG repair the one-channel path is R = G = B by construction
                ctx.violation("grey-path-differs", f"{tf} {d_}: one-channel result differs from the RGB one",
                              {"line": lineg[:200]}, key=f"tf-grey:{tf}")


def mono_check(ctx, tf, d_, itv, args, vals, kind):
    worst = {}
    for k in range(3):
        prev = None
        for a, v in zip(args, vals):
            y = v[k]
            if kind == "hlg" and a < 0:
                continue
            if not finite(y):
                worst.setdefault("nan", (0, a, a, y, y, k))
                continue
            if prev is not None and y < prev[1]:
                drop = prev[1] - y
                big = drop > 1e-6 * abs(y) + 1e-12
                if not big:
                    key = f"monotone-ulp:{tf}:{d_}"
                elif kind == "pq" and d_ == "dec" and abs(a) < 1e-2 and drop <= 1e-7 * (10000.0 / itv):
                    key = "monotone:pq-dec-near-black"
                elif tf == "bt709" and d_ == "dec" and 0.0809 < a < 0.0814:
                    key = "monotone:bt709-dec-breakpoint"
                else:
                    key = f"monotone:{tf}:{d_}"
                if key not in worst or drop > worst[key][0]:
                    worst[key] = (drop, prev[0], a, prev[1], y, k)
            prev = (a, y)
    for key, (drop, a1, a2, y1, y2, k) in worst.items():
        ctx.violation("tf-not-monotone", f"{tf} {d_} it={itv:g}: f({a1!r}) = {y1!r} > f({a2!r}) = {y2!r} (lane {k})",
                      {"tf": tf, "dir": d_, "x1_bits": f"{f2b(a1):08x}", "x2_bits": f"{f2b(a2):08x}"}, key=key)


# ---------------------------------------------------------------------------------------------
# (c) identity conversion
# ---------------------------------------------------------------------------------------------
def rand_bits(rng, n):
    out = []
    for _ in range(n):
        k = rng.random()
        if k < 0.7:
            out.append(f2b(rng.uniform(-0.5, 1.5)))
        elif k < 0.9:
            out.append(rng.getrandbits(32))
        else:
            out.append(rng.choice([0, 0x80000000, 0x7f800000, 0xff800000, 0x7fc00000, 1, 0x3f800000, 0x7f7fffff]))
    return out


def part_c(ctx, ok, profiles, shipped):
    rng = ctx.rng
    lines = []
    n = 900 if ctx.quick else 10000
    for _ in range(n):
        cs = rng.choice(["rgb", "gray", "xyb"])
        wp = rng.choice(list(WP) + ["c:%d:%d" % (rng.randint(XY_MIN, XY_MAX), rng.randint(XY_MIN, XY_MAX))])
        pr = rng.choice(list(PR) + ["c:" + ":".join(str(rng.randint(XY_MIN, XY_MAX)) for _ in range(6))])
        tf = rng.choice(TF_NAMED + ["unknown", "g:%d:1" % rng.randint(1, 16777215), "g:%d:0" % rng.randint(1, 2 ** 32 - 1)])
        npx = rng.choice([1, 3, 8, 13, 64, 257])
        bits = rand_bits(rng, rng.randint(1, 40))
        lines.append(f"ident {cs} {wp} {pr} {tf} {rng.randint(0, 3)} {npx} " + " ".join(f"{b:08x}" for b in bits))
    pool = list(shipped) + profiles[:200]
    for _ in range(n // 3):
        if not pool:
            break
        h = rng.choice(pool)
        if rng.random() < 0.5:       # make it unrecognisable so that it stays an ICC-described encoding
            b = bytearray(bytes.fromhex(h))
            nt = int.from_bytes(b[128:132], "big")
            t = rng.randrange(nt)
            b[132 + 12 * t:136 + 12 * t] = b"zzzz"
            h = bytes(b).hex()
        bits = rand_bits(rng, rng.randint(1, 40))
        lines.append(f"identicc {h} {rng.choice([1, 8, 13, 100])} " + " ".join(f"{b:08x}" for b in bits))
    impl, rc, err = ctx.run_impl("c19", lines)
    if rc != 0 or len(impl) != len(lines):
        ctx.failed_obligations.append(f"harness c19 died in part (c) rc={rc} {err[-300:]}")
        return
    model = None
    if ok:
        model, rc2, err2 = ctx.run_model("c19", lines)
        if rc2 != 0 or len(model) != len(lines):
            ctx.failed_obligations.append(f"model driver died in part (c) rc={rc2} {err2[-300:]}")
            model = None
    for i, (l, o) in enumerate(zip(lines, impl)):
        ctx.case(l[:200], True)
        ctx.count("ident " + l.split()[0] + " " + o.split()[0])
        if o.startswith("err"):
            continue                       # a profile the parser rejects describes nothing
        if not (o.startswith("noop=1 same=1")):
            ctx.violation("identity-conversion-not-noop", f"{o}", {"line": l[:400]},
                          key="panic:" + site(o) if o.startswith("panic") else "identity")
        if model is not None and canon_impl(o) != model[i]:
            ctx.failed_obligations.append(f"correspondence identity conversion: {l[:100]!r} impl {o!r} model {model[i]!r}")
    # whole-image check: render, request the encoding the image already has, render again
    for name in ("mod_min.jxl", "doc_example_stub.jxl"):
        p = os.path.join(VERIF, "design-probes", "inputs", name)
        if os.path.exists(p):
            out, rc, err = ctx.run_impl("c19", ["jxlident " + open(p, "rb").read().hex()])
            ctx.case(("jxlident", name), True)
            ctx.count("jxlident " + (out[0].split()[0] if out else "died"))
            if not out or not (out[0].startswith("same=1") or out[0].startswith("err")):
                ctx.violation("identity-conversion-changes-image", f"{name}: {out}", {"file": p},
                              key="panic:" + site(out[0]) if out and out[0].startswith("panic") else "identity-image")


# ---------------------------------------------------------------------------------------------
# F5 and the header path: rendered_icc() of crafted headers
# ---------------------------------------------------------------------------------------------
class BW:
    def __init__(self):
        self.bits = []

    def u(self, n, v):
        for i in range(n):
            self.bits.append((v >> i) & 1)

    def enum(self, v):
        if v == 0:
            self.u(2, 0)
        elif v == 1:
            self.u(2, 1)
        elif v < 18:
            self.u(2, 2); self.u(4, v - 2)
        else:
            self.u(2, 3); self.u(6, v - 18)

    def xy(self, s):
        v = 2 * s if s >= 0 else -2 * s - 1
        if v < 524288:
            self.u(2, 0); self.u(19, v)
        elif v < 1048576:
            self.u(2, 1); self.u(19, v - 524288)
        elif v < 2097152:
            self.u(2, 2); self.u(20, v - 1048576)
        else:
            self.u(2, 3); self.u(21, v - 2097152)

    def bytes(self):
        while len(self.bits) % 8:
            self.bits.append(0)
        return bytes(sum(self.bits[i + j] << j for j in range(8)) for i in range(0, len(self.bits), 8))


WPV = {"d65": 1, "e": 10, "dci": 11}
PRV = {"srgb": 1, "bt2100": 9, "p3": 11}
TFV = {"bt709": 1, "unknown": 2, "linear": 8, "srgb": 13, "pq": 16, "dci": 17, "hlg": 18}
CSV = {"rgb": 0, "gray": 1, "xyb": 2, "unknown": 3}


def header(cs, wp, pr, tf, ri):
    w = BW()
    w.u(16, 0x0aff)
    w.u(1, 0); w.u(2, 0); w.u(9, 7); w.u(3, 1)        # 8x8
    w.u(1, 0); w.u(1, 0)                              # metadata not default, no extra fields
    w.u(1, 0); w.u(2, 0); w.u(1, 1); w.u(2, 0)        # 8 bit, 16-bit buffers, no extra channels
    w.u(1, 0)                                         # xyb_encoded = false
    w.u(1, 0); w.u(1, 0)                              # colour encoding: not default, no ICC
    w.enum(CSV[cs])
    if cs != "xyb":
        if wp.startswith("c:"):
            w.enum(2)
            for v in wp.split(":")[1:]:
                w.xy(int(v))
        else:
            w.enum(WPV[wp])
    if cs not in ("xyb", "gray"):
        if pr.startswith("c:"):
            w.enum(2)
            for v in pr.split(":")[1:]:
                w.xy(int(v))
        else:
            w.enum(PRV[pr])
    if tf.startswith("g:"):
        w.u(1, 1); w.u(24, int(tf.split(":")[1]))
    else:
        w.u(1, 0); w.enum(TFV[tf])
    w.enum(ri)
    w.u(2, 0); w.u(1, 1)                              # extensions, default_m
    body = w.bytes()
    f = BW()
    f.u(1, 1)                                         # frame header all default
    f.u(1, 0)
    return body + f.bytes() + bytes([0, 0])


def part_f5(ctx):
    rng = ctx.rng
    cases = []
    for name, fixed in (("xyb_enum", False), ("cs_unknown", True), ("tf_unknown", True), ("gamma_zero", True)):
        p = os.path.join(VERIF, "design-probes", "inputs", name + ".jxl")
        if os.path.exists(p):
            cases.append((name, open(p, "rb").read(), "reject" if fixed else None))
    # crafted headers: every named combination once, plus seeded custom ones and invalid gammas
    for cs in CS:
        for wp in WP:
            for pr in (PR if cs == "rgb" else ["srgb"]):
                for tf in TF_NAMED:
                    ri = rng.randint(0, 3)
                    cases.append((f"hdr {cs} {wp} {pr} {tf} {ri}", header(cs, wp, pr, tf, ri), ["rt", cs, wp, pr, tf, str(ri)]))
    for _ in range(700 if ctx.quick else 8000):
        cs = rng.choice(CS)
        w0 = rng.choice(STD_WHITES)
        wp = "c:%d:%d" % (w0[0] + rng.randint(-20000, 20000), w0[1] + rng.randint(-20000, 20000))
        g0 = rng.choice(STD_GAMUTS)
        pr = "c:" + ":".join(str(v + rng.randint(-20000, 20000)) for v in g0) if cs == "rgb" else "srgb"
        tf = rng.choice(TF_NAMED + ["g:%d:1" % rng.randint(1221, 10_000_000)] * 3)
        ri = rng.randint(0, 3)
        cases.append((f"hdr {cs} {wp} {pr} {tf} {ri}", header(cs, wp, pr, tf, ri), ["rt", cs, wp, pr, tf, str(ri)]))
    for g in (0, 1, 1220, 10_000_001, 16777215):
        cases.append((f"hdr-invalid-gamma {g}", header("rgb", "d65", "srgb", f"g:{g}:1", 1), "reject"))
    for cs, tf in (("unknown", "srgb"), ("rgb", "unknown"), ("gray", "unknown"), ("unknown", "unknown")):
        cases.append((f"hdr-undescribable {cs} {tf}", header(cs, "d65", "srgb", tf, 1), "reject"))
    cases.append(("hdr xyb", header("xyb", "d65", "srgb", "srgb", 1), None))
    lines = ["jxl " + b.hex() for _, b, _ in cases]
    impl, rc, err = ctx.run_impl("c19", lines)
    if rc != 0 or len(impl) != len(lines):
        ctx.failed_obligations.append(f"harness c19 died in the header part rc={rc} {err[-300:]}")
        return
    for (name, data, expect), o in zip(cases, impl):
        ctx.case(("jxl", name), True)
        ctx.count("jxl " + o.split()[0])
        replay = {"file_hex": data.hex(), "what": name, "how": "echo 'jxl <hex>' | harness/target/debug/c19  (JxlImage::builder().read -> rendered_icc())"}
        if o.startswith("panic"):
            ctx.violation("rendered_icc-panics", f"{name}: {o}", replay, key="panic:" + site(o))
        elif expect == "reject":
            if not o.startswith("err"):
                ctx.violation("undescribable-header-accepted", f"{name}: {o}", replay, key="header-accepted:" + name.split()[0])
        elif isinstance(expect, list):
            if not o.startswith("ok "):
                ctx.violation("valid-header-rejected", f"{name}: {o}", replay, key="header-rejected")
                continue
            v = rt_oracle(expect, o.split()[2:])
            if v:
                ctx.violation("roundtrip-through-rendered_icc", v[1], replay, key=v[0])


def run(ctx):
    ok = ctx.lean_build(MODULES)
    if ok:
        ctx.audit(MODULES, ctx.update_lock)
        if not ctx.quick:
            ctx.leanchecker(MODULES)
    ctx.cargo_build(["c19"])
    ctx.cov["rule"] = (
        "(a) every named enum combination (2 colour spaces x 3 white points x 3 primaries x 6 transfer functions x 4 "
        "intents) and seeded custom xy / gamma encodings (60% in the well-conditioned domain around standard whites and "
        "gamuts incl. values 99..150e-6 from a named point, 40% anywhere in the 22-bit field incl. extremes; gamma over "
        "[1221,1e7] inverted and [1e7,2^32) plain, log- and uniformly distributed plus rounding edges) through "
        "colour_encoding_to_icc -> with_icc; (b) transfer kernels through ColorTransform on grids of >=4000 points in "
        "[-0.25,1.25] plus +-24 f32 neighbours of every branch point, powers of two down to 2^-25 and values up to 4, "
        "13 copies per value so the 8-wide, 4-wide and scalar paths all run; (c) identity ColorTransforms on random "
        "buffers incl. NaN/inf patterns, and two whole images; damaged profiles (byte flips, truncation, tag table "
        "edits) for the recognition model; crafted codestream headers through JxlImage::rendered_icc(). "
        "A case counts as non-trivial when it is not a plain named-enum success; distinct by input line")
    profiles = part_a(ctx, ok)
    shipped = part_parse(ctx, ok, profiles)
    part_b(ctx, ok)
    part_c(ctx, ok, profiles, shipped)
    part_f5(ctx)
    ctx.assumptions += [
        "f32 kernel tolerances are measured on grids, not proved; the theorems are about the curves over the reals",
        "the chromaticity arithmetic (Bradford adaptation, matrix inverse) is f32 in both directions; the model "
        "repeats it at Float32 and is compared byte for byte, its accuracy (custom xy within 1e-4) is measured",
        "gamma domain: what a validated header can carry (1e7/8192 <= g <= 1e7) and the plain form with gamma >= 1",
        "PQ/HLG curv tables depend on the platform's pow/exp; model and implementation may differ by one unit",
        "x86-64 with AVX2+FMA: the NEON and SSE2 kernels are not exercised",
    ]
