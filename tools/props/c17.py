"""C17 — JPEG reconstruction. Theorems: Props/C17.lean (bit writer refines its spec for every write
sequence, has_ff_byte for all 64-bit values, canonical Huffman build + prefix-freeness, status
decision logic). Correspondence: (a) op sequences on the real BitWriter vs model vs spec,
(b) HuffmanCode::build on valid and degenerate tables vs model, (c) hostile / truncated jbrd boxes
through JxlImage fed in chunks (status at every step, reconstruct_jpeg at the end).

NOT exercised by anything here: end-to-end "reconstructed file == original JPEG" (needs a
JPEG->JPEG XL transcoder or fixtures; neither exists offline)."""
import glob
from vlib import *
from props.c17_craft import *

MODULES = ["JxlModel.Props.C17"]
NOT_E2E = ("end-to-end JPEG byte-exactness (reconstructed file == original JPEG) is exercised on synthetic "
           "transcodes only: harness/src/synth.rs writes three-component JPEGs (sampling factors 1 or 2 per component "
           "and direction: 4:4:4, 4:2:0, 4:2:2, 4:4:0 and unusual mixes) and grey JPEGs, of sizes that are and are not "
           "multiples of the MCU (padding blocks included), interleaved and not, with an independent encoder "
           "that follows the IJG library's entropy coder -- baseline (four scan layouts, extra zero runs) and "
           "progressive (spectral selection, successive approximation, seeded scan scripts, end-of-band runs "
           "incl. runs over 32767 blocks and runs ended early by the correction-bit buffer or by choice), restart "
           "intervals, Annex K or seeded Huffman tables in one or several DHT segments, recorded padding bits, "
           "JFIF / Exif / comment segments -- and carries the same coefficients in a VarDCT frame of DCT8 blocks "
           "(jpeg_upsampling set from the factors, whole MCUs coded) with a jbrd box; sampling factors 3 and 4, "
           "grey JPEGs with factors other than 1x1, 16-bit quantisation tables, extra zero runs in "
           "refinement scans, ICC APP2 segments, larger varblocks and integer chroma-from-luma with non-trivial "
           "factors are NOT covered")
M64 = (1 << 64) - 1
CORPUS = os.path.join(VERIF, "corpus", "c17")


# ---------------------------------------------------------------------------------- (a) bit writer
def rand_word(rng):
    k = rng.random()
    if k < 0.3:
        return M64
    if k < 0.6:
        return int.from_bytes(bytes(rng.choice([0xff, 0xff, 0xff, 0x00, 0xfe, 0x7f, 0x80, rng.randrange(256)])
                                    for _ in range(8)), "big")
    if k < 0.68:
        return 0
    return rng.getrandbits(64)


def gen_bw_seq(rng, n):
    """-> (ops [(kind, bits, len)], wf: every huff op has nothing below its top len bits)"""
    ops, valid, wf = [], 0, True
    panicky = rng.random() < 0.06
    sloppy = rng.random() < 0.08
    for _ in range(n):
        k = rng.random()
        if k < 0.25:
            ln = rng.randint(0, 16)
        elif k < 0.45:
            ln = rng.randint(0, 63)
        elif k < 0.75:                                   # aim at the flush boundary
            ln = min(64, max(0, 64 - valid + rng.choice([-2, -1, 0, 0, 0, 1, 2, 8])))
        elif k < 0.9:
            ln = rng.choice([1, 7, 8, 9, 15, 16, 17, 31, 32, 33, 56, 62, 63])
        else:
            ln = 64
        kind = "h" if rng.random() < 0.5 else "r"
        if ln == 64 and valid == 0 and not panicky:
            ln = 63                                      # shift by 64 panics; only in panicky sequences
        if kind == "r" and panicky and rng.random() < 0.1:
            ln = rng.randint(65, 255)
        w = rand_word(rng)
        if kind == "h":
            if not (sloppy and rng.random() < 0.3):
                w = w & (M64 ^ ((1 << (64 - ln)) - 1)) if ln < 64 else w
            elif ln < 64 and w & ((1 << (64 - ln)) - 1):
                wf = False
        ops.append((kind, w, ln))
        if (kind == "r" and ln > 64) or (ln == 64 and valid == 0 and not (kind == "r" and ln == 0)):
            valid = 0                                    # both sides restart after a panic
        else:
            valid = (valid + ln) % 64
    return ops, wf


def py_panics(kind, ln, valid):
    return (kind == "r" and ln > 64) or (ln == 64 and valid == 0)


def py_spec(ops):
    """the property, computed independently: concat MSB-first, zero-pad, pack big-endian, stuff"""
    bits = []
    for kind, b, l in ops:
        if kind == "h":
            bits += [(b >> (63 - i)) & 1 for i in range(l)]
        else:
            bits += [(b >> (l - 1 - i)) & 1 for i in range(l)]
    nbits = len(bits)
    while len(bits) % 8:
        bits.append(0)
    out = bytearray()
    for i in range(0, len(bits), 8):
        v = 0
        for j in range(8):
            v = (v << 1) | bits[i + j]
        out.append(v)
        if v == 0xff:
            out.append(0)
    return bytes(out), nbits


def bw_campaign(ctx, ok, n_seq):
    lines, cases = [], []          # case: (first line idx, ops-since-last-panic, wf, pad idx, fin idx, all ops)
    for s in range(n_seq):
        ops, wf = gen_bw_seq(ctx.rng, ctx.rng.randint(1, 40) if s % 3 else ctx.rng.randint(1, 6))
        start = len(lines)
        lines.append("bw new")
        live, valid, panics = [], 0, []
        for kind, b, l in ops:
            lines.append(f"bw {kind} {b:016x} {l}")
            if py_panics(kind, l, valid):
                panics.append(len(lines) - 1)
                live, valid = [], 0
            else:
                live.append((kind, b, l))
                valid = (valid + l) % 64
        lines.append("bw pad")
        pad_idx = len(lines) - 1
        nb = sum(l for _, _, l in live)
        pad = (8 - nb % 8) % 8
        mode = ctx.rng.choice(["none", "ones", "zeros", "rand"])
        if pad and mode != "none":                       # what flush_bit_writer does before finalize
            v = {"ones": 0xffffffff, "zeros": 0, "rand": ctx.rng.getrandbits(32)}[mode]
            lines.append(f"bw r {v:016x} {pad}")
            live.append(("r", v, pad))
        lines.append("bw fin")
        cases.append((start, live, wf, pad_idx, len(lines) - 1, ops, panics, pad))
    impl, rc, err = ctx.run_impl("c17", lines)
    if rc != 0 or len(impl) != len(lines):
        ctx.failed_obligations.append(f"harness c17 (bit writer) died rc={rc} {err[-300:]}")
        return
    model = impl
    spec_out = None
    if ok:
        model, rc2, err2 = ctx.run_model("c17", lines)
        if rc2 != 0 or len(model) != len(lines):
            ctx.failed_obligations.append(f"model driver c17 died rc={rc2} {err2[-300:]}")
            model = impl
        sl = ["spec " + " ".join(f"{k}:{b:016x}:{l}" for k, b, l in live) for _, live, *_ in cases]
        spec_out, rc3, err3 = ctx.run_model("c17", sl)
        if rc3 != 0 or len(spec_out) != len(sl):
            ctx.failed_obligations.append(f"model driver c17 (spec) died rc={rc3} {err3[-300:]}")
            spec_out = None
    for ci, (start, live, wf, pad_idx, fin_idx, ops, panics, pad) in enumerate(cases):
        seg_l, seg_i, seg_m = lines[start:fin_idx + 1], impl[start:fin_idx + 1], model[start:fin_idx + 1]
        flushed = any("new=" in o and not o.endswith("new=-") for o in seg_i)
        stuffed = "ff00" in seg_i[-1]
        ctx.case(tuple(seg_l), flushed or stuffed)
        ctx.count("bw:seq")
        ctx.count("bw:ops", len(ops))
        if panics:
            ctx.count("bw:seq-with-precondition-panic")
        if stuffed:
            ctx.count("bw:finalize-with-stuffing")
        ctx.count(f"bw:padding={pad}")
        if ci < 2:
            ctx.sample({"bitwriter": seg_l[:8], "impl": seg_i[:8]})
        replay = {"lines": seg_l, "impl": seg_i, "model": seg_m,
                  "how": "feed lines to harness/target/debug/c17 (and to lean/.lake/build/bin/jxlmodel c17)"}
        bad = None
        for p in range(len(seg_l)):
            exp_panic = (start + p) in panics
            if (seg_i[p] == "panic") != exp_panic:
                bad = f"write {seg_l[p]!r}: panic={seg_i[p] == 'panic'} but the documented precondition says {exp_panic}"
                break
        if bad is None and wf:
            want, nbits = py_spec(live)
            got = seg_i[-1]
            if got != "ok " + (want.hex() or "-"):
                bad = f"finalize gives {got} but the spec (concat, pad, pack, stuff) gives {want.hex() or '-'}"
            elif seg_i[pad_idx - start] != f"ok {pad}":
                bad = f"padding_bits gives {seg_i[pad_idx - start]} expected {pad}"
        if bad:
            ctx.violation("bitwriter-violates-spec", bad, replay, key="bitwriter:spec")
            continue
        d = first_diff(seg_i, seg_m)
        if d is not None:
            ctx.failed_obligations.append(
                f"correspondence BitWriter vs Jxl.JpegBits differs at {seg_l[d]!r}: impl {seg_i[d]!r} model {seg_m[d]!r}")
        elif spec_out is not None and wf and spec_out[ci] != seg_i[-1]:
            ctx.failed_obligations.append(
                f"Jxl.JpegBits.spec differs from the real finalize on {seg_l[:6]}...: spec {spec_out[ci]!r} impl {seg_i[-1]!r}")


def ff_campaign(ctx, ok, n):
    words = [0, M64, 0xff, 0xff << 56, 0x0100, 0xff00, 0x00ff00, 0xfeff, 0xfffe, 0x0101010101010101,
             0x8080808080808080, 0x7f7f7f7f7f7f7f7f, 0xfefefefefefefefe, 0x0100000000000000,
             0x00ffffffffffffff, 0x0001000100010001]
    for pos in range(8):
        for nb in (0x00, 0x01, 0x7f, 0x80, 0xfe, 0xff):
            for fill in (0x00, 0x01, 0xfe, 0x80):
                words.append(int.from_bytes(bytes(nb if i == pos else fill for i in range(8)), "big"))
    while len(words) < n:
        words.append(rand_word(ctx.rng))
    lines = [f"ff {w:016x}" for w in words]
    impl, rc, err = ctx.run_impl("c17", lines)
    model = ctx.run_model("c17", lines)[0] if ok else impl
    if rc != 0 or len(impl) != len(lines) or len(model) != len(lines):
        ctx.failed_obligations.append(f"harness/model c17 (ff) died rc={rc} {err[-200:]}")
        return
    for w, l, i, m in zip(words, lines, impl, model):
        want = any(((w >> (8 * k)) & 0xff) == 0xff for k in range(8))
        ctx.case(l, want)
        ctx.count(f"ff:{i}")
        if i != str(want).lower():
            ctx.violation("has_ff_byte-wrong", f"{l}: {i}, a 0xFF byte is {'present' if want else 'absent'}",
                          {"lines": [l], "impl": [i], "how": "feed to harness/target/debug/c17"}, key="bitwriter:has_ff_byte")
        elif i != m:
            ctx.failed_obligations.append(f"correspondence has_ff_byte differs on {l}: impl {i} model {m}")


# ------------------------------------------------------------------------------------ (b) Huffman
def gen_code_lengths(rng, n_leaves):
    """lengths (<=16) of a prefix code with n_leaves leaves (Kraft sum == 1), by splitting leaves"""
    leaves = [0]
    while len(leaves) < n_leaves:
        cand = [i for i, l in enumerate(leaves) if l < 16]
        if not cand:
            break
        i = rng.choice(cand) if rng.random() < 0.6 else max(cand, key=lambda i: -leaves[i])
        l = leaves.pop(i)
        leaves += [l + 1, l + 1]
    return sorted(leaves)


def gen_valid_table(rng):
    n_sym = rng.choice([1, 1, 2, 3, 5, 12, 16, 40, 162, 255, rng.randint(1, 255)])
    lens = gen_code_lengths(rng, n_sym + 1)
    if len(lens) < 2:
        lens = [1, 1]
    if rng.random() < 0.4 and len(lens) > 2:             # Kraft sum < 1: drop leaves (not the sentinel)
        for _ in range(rng.randint(1, max(1, len(lens) // 4))):
            if len(lens) > 2:
                lens.pop(rng.randrange(len(lens) - 1))
    counts = [0] * 17
    for l in lens:
        counts[l] += 1
    if any(c > 255 for c in counts):
        return gen_valid_table(rng)
    syms = rng.sample(range(256), len(lens) - 1)
    return counts, syms + [0]                            # sentinel 256 is stored as `256 as u8`


def gen_degenerate_table(rng):
    counts, values = gen_valid_table(rng)
    k = rng.randrange(8)
    if k == 0:
        counts, values = [0] * 17, []
    elif k == 1:
        counts = [0] * 17; counts[rng.randint(1, 16)] = 1; values = [rng.randrange(256)]
    elif k == 2:
        counts[0] = rng.randint(1, 3); values = [rng.randrange(256) for _ in range(counts[0])] + values
    elif k == 3:
        values = values + [rng.randrange(256) for _ in range(rng.randint(1, 3))]      # more values than counts
    elif k == 4:
        values = values[:rng.randrange(len(values))]                                  # fewer values than counts
    elif k == 5:                                                                      # over-subscribed
        counts = [0] * 17; counts[rng.randint(1, 3)] = rng.randint(9, 40)
        values = [rng.randrange(256) for _ in range(sum(counts))]
    elif k == 6 and len(values) > 2:
        values[rng.randrange(len(values) - 1)] = values[rng.randrange(len(values) - 1)]   # duplicate symbol
    else:
        counts = [rng.choice([0, 0, 0, 1, 2, 255]) for _ in range(17)]
        values = [rng.randrange(256) for _ in range(max(0, sum(counts) + rng.choice([-1, 0, 0, 1])))]
    return counts, values


def t81_codes(counts):
    """ITU-T T.81 Annex C, figures C.1/C.2 on the counts without the sentinel"""
    sizes = [l for l in range(1, 17) for _ in range(counts[l])][:-1]
    codes, code, si, k = [], 0, sizes[0] if sizes else 0, 0
    while k < len(sizes):
        while k < len(sizes) and sizes[k] == si:
            codes.append(code); code += 1; k += 1
        code <<= 1; si += 1
    return sizes, codes


def huff_campaign(ctx, ok, n):
    tables = []
    for i in range(n):
        tables.append((gen_valid_table(ctx.rng), True) if i % 3 else (gen_degenerate_table(ctx.rng), False))
    tables += [(([0, 0, 1, 5, 1, 1, 1, 1, 1, 2, 0, 0, 0, 0, 0, 0, 0], list(range(12)) + [0]), True)]   # T.81 K.3 DC luma + sentinel
    lines = ["huff " + " ".join(map(str, c + v)) for (c, v), _ in tables]
    impl, rc, err = ctx.run_impl("c17", lines)
    model = ctx.run_model("c17", lines)[0] if ok else impl
    if rc != 0 or len(impl) != len(lines) or len(model) != len(lines):
        ctx.failed_obligations.append(f"harness/model c17 (huffman) died rc={rc} {err[-200:]}")
        return
    for ((counts, values), valid), l, i, m in zip(tables, lines, impl, model):
        ctx.case(l, valid and sum(counts) > 2)
        ctx.count("huff:" + ("valid" if valid else "degenerate") + ":" + i.split()[0])
        replay = {"lines": [l], "impl": [i], "model": [m], "how": "feed to harness/target/debug/c17"}
        if valid:
            sizes, codes = t81_codes(counts)
            want = {}
            for s, ln, c in zip(values, sizes, codes):
                want[s] = (ln, c << (64 - ln))
            got = {}
            if i.startswith("ok"):
                for e in i.split()[1:]:
                    s, ln, b = e.split(":")
                    got[int(s)] = (int(ln), int(b, 16))
            words = sorted((format(b >> (64 - ln), f"0{ln}b") for ln, b in got.values()))
            prefix = any(words[k + 1].startswith(words[k]) for k in range(len(words) - 1))
            if got != want or prefix or not i.startswith("ok"):
                ctx.violation("huffman-build-not-canonical",
                              f"valid table counts={counts}: built {i[:200]} expected T.81 Annex C codes"
                              + (" (not prefix-free)" if prefix else ""), replay, key="huffman:canonical")
                continue
            if len(ctx.cov["samples"]) < 5 and sum(counts) > 4:
                ctx.sample({"huffman": l[:80], "impl": i[:120]})
        if i != m:
            ctx.failed_obligations.append(f"correspondence HuffmanCode::build vs Jxl.JpegBits.build differs on {l[:120]!r}: impl {i[:120]!r} model {m[:120]!r}")
    ctx.notes["huffman_build_panics_on_degenerate_tables"] = (
        "build() panics (index out of bounds / shift overflow / slice split) on tables with <= 1 value, a "
        "non-zero count for length 0, or counts exceeding the values; model and code agree on exactly which. "
        "Reached here through hook H6 only: in the decoder the call sits behind a valid VarDCT frame "
        "(JpegBitstreamReconstructor::process_next, DHT marker), which cannot be produced offline, so no "
        "file witness exists; recorded as a latent defect argued from the model, not as a violation")


# --------------------------------------------------------------------------- (c) jbrd via JxlImage
def load_codestreams():
    cs = {}
    for name, modular in (("cs_mod_min.jxl", True), ("cs_vardct_hdr_xyb.jxl", False)):
        cs[name] = (open(os.path.join(CORPUS, name), "rb").read(), modular)
    return cs


def gen_header(rng, hostile):
    h = default_header()
    h["is_gray"] = rng.randrange(2)
    pool = [0xc0, 0xc2, 0xc4, 0xda, 0xdb, 0xdd, 0xe0, 0xe1, 0xe2, 0xee, 0xfe, 0xff, 0xd0, 0xc9, 0xc5]
    h["markers"] = [rng.choice(pool) for _ in range(rng.choice([0, 0, 1, 2, 3, 5, 8]))] + [0xd9]
    for m in h["markers"]:
        if 0xe0 <= m <= 0xef:
            ty = rng.choice([0, 0, 1, 1, 2, 3])
            good = {0: [1, 2, 10, 200], 1: [17, 18, 100, 3000], 2: [9, 10, 50], 3: [32, 33, 60]}[ty]
            bad = {0: [1], 1: [16, 1, 5, 12], 2: [8, 1, 4], 3: [31, 1, 20]}[ty]
            h["app"].append((ty, rng.choice(bad) if hostile and rng.random() < 0.35 else rng.choice(good)))
        elif m == 0xfe:
            h["com"].append(rng.choice([1, 2, 5, 100]))
        elif m == 0xff:
            h["intermarker"].append(rng.choice([0, 1, 5, 300]))
        elif m == 0xda:
            nc = rng.randint(1, 4)
            h["scans"].append({"ss": rng.randrange(64), "se": rng.randrange(64), "al": rng.randrange(16),
                               "ah": rng.randrange(16),
                               "comps": [(rng.randrange(4), rng.randrange(4), rng.randrange(4)) for _ in range(nc)],
                               "last": rng.choice([0, 1, 2, 3, 10]),
                               "reset": [rng.choice([0, 1, 9, 41, 1000]) for _ in range(rng.choice([0, 0, 1, 3]))],
                               "ezr": [(rng.choice([1, 2, 5, 20, 275]), rng.choice([0, 1, 9, 41]))
                                       for _ in range(rng.choice([0, 0, 1, 2]))]})
    h["restart_interval"] = rng.choice([0, 1, 8, 65535])
    h["quant"] = [(rng.randrange(2), rng.randrange(4), rng.randrange(2)) for _ in range(rng.randint(1, 4))]
    h["comp_type"] = rng.randrange(4)
    ncomp = {0: 1, 1: 3, 2: 3}.get(h["comp_type"]) or rng.randint(1, 4)
    h["comp_ids"] = [rng.randrange(256) for _ in range(ncomp)]
    h["q_idx"] = [rng.randrange(4) for _ in range(ncomp)]
    huff = []
    for _ in range(rng.choice([2, 4, 4, 5, 9])):
        (counts, values) = gen_degenerate_table(rng) if rng.random() < 0.5 else gen_valid_table(rng)
        if len(values) != sum(counts):                   # the format cannot express a mismatch
            values = (values + [0] * sum(counts))[:sum(counts)]
        if sum(counts) > 40:                             # keep files small
            counts, values = [0, 1, 1] + [0] * 14, [3, 0]
        values = [256 if (k == len(values) - 1 and v == 0) else v for k, v in enumerate(values)]
        huff.append((rng.randrange(2), rng.randrange(4), rng.randrange(2), counts, values))
    h["huff"] = huff
    h["tail"] = rng.choice([0, 0, 1, 10, 300])
    if rng.random() < 0.3:
        nb = rng.choice([0, 1, 7, 8, 9, 40])
        h["padding"] = (nb, [rng.randrange(256) for _ in range(nb // 8 + 1)])
    return h


def gen_jbrd_case(rng, css):
    """-> dict(file, cuts, info) ; info is what the oracle may rely on"""
    hostile = rng.random() < 0.5
    h = gen_header(rng, hostile)
    hdr = encode_header(h)
    n = expected_data_len(h)
    dv = rng.choice(["exact", "exact", "exact", "short", "long", "empty", "garbage", "cut"])
    raw = bytes(rng.randrange(256) for _ in range(n))
    if dv == "exact":
        comp = brotli_stored(raw)
    elif dv == "short":
        comp = brotli_stored(raw[:max(0, n - rng.randint(1, 5))]); dv = "exact" if n == 0 else dv
    elif dv == "long":
        comp = brotli_stored(raw + bytes(rng.randint(1, 5)))
    elif dv == "empty":
        comp = brotli_stored(b""); dv = "exact" if n == 0 else "short"
    elif dv == "garbage":
        comp = bytes(rng.randrange(256) for _ in range(rng.randint(0, 12)))
    else:
        full = brotli_stored(raw)
        comp = full[:rng.randrange(len(full))]
    payload = hdr + comp
    mutated = False
    if rng.random() < 0.25:
        b = bytearray(payload)
        for _ in range(rng.randint(1, 3)):
            if b:
                b[rng.randrange(len(b))] ^= 1 << rng.randrange(8)
        payload, mutated = bytes(b), True
    csname = rng.choice(sorted(css))
    cs, modular = css[csname]
    mode = lambda: "x" if rng.random() < 0.1 else "n"
    layout = rng.choice(["jc", "jc", "cj", "cj", "pjp", "c", "jjc"])
    boxes = []
    if layout == "pjp":
        k = rng.randint(2, len(cs) - 1)
        boxes = [(b"jxlp", struct.pack(">I", 0) + cs[:k], mode()), (b"jbrd", payload, mode()),
                 (b"jxlp", struct.pack(">I", 0x80000001) + cs[k:], mode())]
    else:
        for c in layout:
            boxes.append((b"jbrd", payload, mode()) if c == "j" else (b"jxlc", cs, mode()))
    icc, exif_len, xmp_len = expected_lens(h)
    # metadata boxes, sometimes of exactly the promised size
    for ty, want in ((b"Exif", exif_len), (b"xml ", xmp_len)):
        if rng.random() < 0.45:
            ln = want if (want > 0 and rng.random() < 0.6) else rng.choice([0, 1, 3, 4, 5, 20])
            body = bytes(rng.randrange(256) for _ in range(max(0, ln)))
            if ty == b"Exif":
                off = rng.choice([0, 0, 0, 1, ln, 2 ** 32 - 1])
                body = struct.pack(">I", off)[:rng.choice([4, 4, 4, 4, 2])] + body
            if rng.random() < 0.3:
                bx = (b"brob", ty + (brotli_stored(body) if rng.random() < 0.8 else body), mode())
            else:
                bx = (ty, body, mode())
            boxes.insert(rng.randrange(len(boxes) + 1), bx)
    to_eof = rng.random() < 0.1
    if to_eof:
        ty, p, _ = boxes[-1]
        boxes[-1] = (ty, p, "e")
    f, spans = container(boxes)
    truncated = rng.random() < 0.2
    if truncated:
        f = f[:rng.randrange(len(SIG), len(f))]
    jb = [s for s in spans if s[0] == b"jbrd"]
    csb = [s for s in spans if s[0] in (b"jxlc", b"jxlp")]
    interesting = sorted({0} | {x + d for s in spans for x in s[1:] for d in (-1, 0, 1)}
                         | ({jb[0][2] + len(hdr) + d for d in (-1, 0, 1)} if jb else set()))
    cuts = set(rng.sample(interesting, min(len(interesting), rng.randint(0, 8))))
    cuts |= {rng.randrange(len(f) + 1) for _ in range(rng.randint(0, 6))}
    if rng.random() < 0.1:
        cuts = set(range(0, len(f) + 1))
    cuts = sorted(c for c in cuts if 0 < c <= len(f))
    info = {"header": h, "hdr_len": len(hdr), "data": dv, "mutated": mutated, "layout": layout,
            "modular": modular, "cs": csname, "jbrd_spans": jb, "cs_end": max(s[3] for s in csb),
            "truncated": truncated, "to_eof": to_eof, "file_len": len(f), "underflow": app_underflows(h),
            "exact": (not mutated and not truncated and not to_eof and len(jb) <= 1
                      and dv in ("exact", "short", "long") and not app_underflows(h))}
    return {"file": f, "cuts": cuts, "info": info}


def split_status(rest):
    """'A:CC00/1/01' or 'panic@file:12:CC00/1/01' -> (status, facts)"""
    if "/" in rest and ":" in rest:
        st, facts = rest.rsplit(":", 1)
        return st, facts
    return rest, None


REPORTED = set()


def report(ctx, kind, detail, replay, key):
    """one replay file per defect (key); further inputs reaching the same defect are only counted"""
    ctx.count(f"violation-inputs:{key}")
    if key in REPORTED:
        return True
    REPORTED.add(key)
    ctx.violation(kind, detail, replay, key=key)
    return True


def jbrd_oracle(ctx, case, line, out):
    """the property on the implementation's own answers; returns True if a violation was reported"""
    info = case["info"]
    replay = {"lines": [line], "impl": [out], "file_hex": case["file"].hex(), "cuts": case["cuts"],
              "how": "echo the line | harness/target/debug/c17  (jbrd <file-hex> <chunk end offsets>)"}
    sites = sorted(set(re.findall(r"panic@([^ ,:]+:\d+)", out)))
    for s in sites:
        report(ctx, "panic-on-hostile-jbrd", f"panic at {s} ({info['layout']}, data={info['data']}, "
               f"mutated={info['mutated']}, truncated={info['truncated']})", replay, f"panic:{s}")
        ctx.count(f"jbrd:panic:{s}")
    if sites:
        return True
    kv = dict(p.split("=", 1) for p in out.split(" "))
    observed = []
    for s in kv["steps"].split(","):
        if s:
            cut, rest = s.split(":", 1)
            observed.append((int(cut),) + split_status(rest) + (False,))
    if kv["status"] != "U":
        observed.append((info["file_len"],) + split_status(kv["status"]) + (True,))
    jb = info["jbrd_spans"]
    for cut, st, facts, final in observed:
        if st != "A":
            continue
        why = key = None
        # after finalize() a truncated file may legitimately be complete in content (only Brotli's end
        # marker missing): then only a missing header byte is held against the answer
        incomplete = (not jb or cut < jb[0][3]) if not final or not info["truncated"] else \
            (not jb or (not info["mutated"] and cut < jb[0][2] + info["hdr_len"]))
        if incomplete:
            why, key = f"Available after {cut} bytes but the jbrd box ends at {jb[0][3] if jb else 'nowhere'}", "status:available-jbrd-incomplete"
        elif not info["mutated"] and not info["truncated"] and info["data"] in ("short", "long") and len(jb) == 1:
            why, key = "Available although the jbrd data section has not the length its header promises", "status:available-jbrd-length-mismatch"
        elif info["modular"] or (facts and facts.split("/")[2] in ("01", "00", "10")):
            why, key = "Available for a frame that is not a normal VarDCT frame (the code's own frame check calls it Invalid while the box is arriving)", "status:available-incompatible-frame"
        elif facts and facts.split("/")[1] == "0":
            why, key = f"Available after {cut} bytes while no frame is completely loaded (reconstruct_jpeg can only answer FrameDataIncomplete)", "status:available-frame-incomplete"
        if why:
            return report(ctx, "status-available-too-early", why, replay, key)
    if kv["recon"].startswith("ok"):
        return report(ctx, "reconstruct-succeeded-without-vardct-data",
                      "reconstruct_jpeg returned Ok although no VarDCT image data exists in any generated file",
                      replay, "recon:ok-without-vardct")
    return False


def jbrd_model_lines(case, out):
    """for cases whose structure is known exactly: (model line, impl status) per initialised step"""
    info = case["info"]
    h = info["header"]
    jb = info["jbrd_spans"]
    app = ",".join(f"{t}:{l}" for t, l in h["app"]) or "-"
    kv = dict(p.split("=", 1) for p in out.split(" "))
    length_ok = info["data"] == "exact"
    res = []
    steps = [s for s in kv["steps"].split(",") if s]
    for s in steps:
        cut, rest = s.split(":", 1)
        cut = int(cut)
        st, facts = split_status(rest)
        if facts is None:
            continue
        hp = bool(jb) and cut >= jb[0][2] + info["hdr_len"]
        done = bool(jb) and length_ok and cut > jb[0][3]
        res.append((f"status {int(hp)}{int(done)}00 {app} " + facts_to_args(facts), st))
    if kv["status"] != "U" and kv["feed"] == "ok":
        st, facts = split_status(kv["status"])
        if facts is not None:
            hp = bool(jb)
            fin_ok = kv["fin"] == "ok"
            done = bool(jb) and length_ok
            res.append((f"status {int(hp)}{int(done)}{int(fin_ok)}{int(not fin_ok)} {app} " + facts_to_args(facts), st))
    return res


def facts_to_args(facts):
    a, frames, frame0 = facts.split("/")
    return f"{a[0]} {a[1]} {a[2]} {a[3]} {frames} {frame0}"


def jbrd_campaign(ctx, ok, n_cases):
    css = load_codestreams()
    cases = []
    # corpus first: every witness, whole and in small chunks
    for p in sorted(glob.glob(os.path.join(CORPUS, "*.jxl"))):
        if os.path.basename(p).startswith("cs_"):
            continue
        f = open(p, "rb").read()
        info = {"header": default_header(), "hdr_len": 0, "data": "?", "mutated": True, "layout": "corpus:" + os.path.basename(p),
                "modular": "modular" in os.path.basename(p), "cs": "?", "jbrd_spans": find_spans(f, b"jbrd"), "cs_end": len(f), "truncated": False,
                "to_eof": False, "file_len": len(f), "underflow": False, "exact": False}
        for cuts in ([], list(range(1, len(f) + 1)), list(range(7, len(f), 7))):
            cases.append({"file": f, "cuts": cuts, "info": info})
    for _ in range(n_cases):
        cases.append(gen_jbrd_case(ctx.rng, css))
    lines = ["jbrd " + (c["file"].hex() or "-") + "".join(f" {x}" for x in c["cuts"]) for c in cases]
    # a worker per batch: a hang or abort costs one batch, not the run
    impl = []
    B = 400
    for b in range(0, len(lines), B):
        o, rc, err = ctx.run_impl("c17", lines[b:b + B], timeout=600)
        if rc != 0 or len(o) != len(lines[b:b + B]):
            bad = lines[b + len(o)] if len(o) < len(lines[b:b + B]) else "?"
            ctx.violation("harness-died-on-hostile-jbrd", f"rc={rc} {err[-300:]}",
                          {"lines": [bad], "how": "feed to harness/target/debug/c17"}, key="abort:jbrd")
            return
        impl += o
    mlines, mwant = [], []
    for c, l, o in zip(cases, lines, impl):
        info = c["info"]
        kv = dict(p.split("=", 1) for p in o.split(" "))
        sts = [split_status(s.split(":", 1)[1])[0] for s in kv["steps"].split(",") if s]
        nontriv = any(s in "AMIN" for s in sts) and len(sts) > 1
        ctx.case(l, nontriv)
        ctx.count("jbrd:cases")
        ctx.count(f"jbrd:layout={info['layout'].split(':')[0]}")
        ctx.count(f"jbrd:data={info['data']}")
        ctx.count("jbrd:feed=" + kv["feed"].split("@")[0])
        ctx.count("jbrd:fin=" + kv["fin"].split("@")[0])
        ctx.count("jbrd:recon=" + kv["recon"].split("@")[0].split(":")[0] + ":" + kv["recon"].split(":")[-1][:28])
        for s in set(sts):
            ctx.count(f"jbrd:status-seen={s[:5]}")
        if len(ctx.cov["samples"]) < 6 and nontriv and info["exact"]:
            ctx.sample({"jbrd": l[:100] + "...", "impl": o[:300]})
        if jbrd_oracle(ctx, c, l, o):
            continue
        if info["exact"] and ok:
            for ml, st in jbrd_model_lines(c, o):
                mlines.append(ml); mwant.append((st, l, o))
    if mlines:
        mo, rc, err = ctx.run_model("c17", mlines)
        if rc != 0 or len(mo) != len(mlines):
            ctx.failed_obligations.append(f"model driver c17 (status) died rc={rc} {err[-200:]}")
            return
        ctx.count("jbrd:status-decisions-compared-with-model", len(mlines))
        for ml, m, (st, l, o) in zip(mlines, mo, mwant):
            ctx.count(f"status:model={m}")
            if m != st:
                ctx.failed_obligations.append(
                    f"correspondence jpeg_reconstruction_status vs Jxl.JpegBits.status differs: {ml!r} -> model {m} impl {st}; replay line {l[:80]}...")
                break


def find_spans(f, ty):
    """(ty, start, payload_start, end) of top-level boxes of a container file (best effort)"""
    out, i = [], len(SIG)
    if not f.startswith(SIG):
        return out
    while i + 8 <= len(f):
        sz, t = struct.unpack(">I4s", f[i:i + 8])
        hs = 8
        if sz == 1 and i + 16 <= len(f):
            sz = struct.unpack(">Q", f[i + 8:i + 16])[0]; hs = 16
        if sz == 0:
            sz = len(f) - i
        if sz < hs:
            break
        if t == ty:
            out.append((t, i, i + hs, i + sz))
        i += sz
    return out


def lens_campaign(ctx, ok, n):
    """expected_*_len accessors (H6) on crafted headers vs the model; underflow = panic = violation"""
    hs = []
    for ty, base in ((1, 17), (2, 9), (3, 32)):
        for l in (1, base - 1, base, base + 1, 65536):
            h = default_header(); h["markers"] = [0xe2, 0xd9]; h["app"] = [(ty, l)]
            hs.append(h)
    while len(hs) < n:
        hs.append(gen_header(ctx.rng, True))
    lines = ["lens " + (encode_header(h) + brotli_stored(b"")).hex() for h in hs]
    impl, rc, err = ctx.run_impl("c17", lines)
    if rc != 0 or len(impl) != len(lines):
        ctx.failed_obligations.append(f"harness c17 (lens) died rc={rc} {err[-200:]}")
        return
    ml = ["lens " + (",".join(f"{t}:{l}" for t, l in h["app"]) or "-") for h in hs]
    model = ctx.run_model("c17", ml)[0] if ok else None
    for k, (h, l, i) in enumerate(zip(hs, lines, impl)):
        ctx.case(l, bool(h["app"]))
        ctx.count("lens:" + i.split()[0].split("@")[0])
        replay = {"lines": [l], "impl": [i], "app_markers": h["app"], "how": "feed to harness/target/debug/c17"}
        m = re.search(r"panic@([^ ,:]+:\d+)", i)
        if m:
            report(ctx, "panic-in-expected-len", f"app markers {h['app']}: {i}", replay, f"panic:{m.group(1)}")
            continue
        icc, exif, xmp = expected_lens(h)
        # a Huffman code with a code of length 0 or without any value is rejected by the header parser
        huff_bad = any(c[0] != 0 or sum(c) == 0 for (_a, _i, _l, c, _v) in h["huff"])
        if app_underflows(h) or huff_bad:
            want = "err:jbr-Bitstream"
        else:
            want = (f"ok app={','.join(f'{t}:{x}' for t, x in h['app']) or '-'} data={expected_data_len(h)} "
                    f"icc={icc} exif={exif} xmp={xmp}")
        if i != want:
            if app_underflows(h) and not huff_bad and i.startswith("ok "):
                # accepted without underflow (only the first Exif/XMP marker is looked at): no defect of the code,
                # but not what the modelled (repaired) parser does
                ctx.failed_obligations.append(f"correspondence AppMarker::parse vs appMarkerOk differs on {h['app']}: impl {i!r}")
            else:
                report(ctx, "jbrd-header-lengths-wrong", f"got {i!r} expected {want!r}", replay, "jbrd:expected-len")
            continue
        if model is not None:
            mw = (f"ok={'false' if app_underflows(h) else 'true'} icc={icc if icc >= 0 and not any(t == 1 and x < 17 for t, x in h['app']) else 'panic'} "
                  f"exif={exif if exif >= 0 else 'panic'} xmp={xmp if xmp >= 0 else 'panic'}")
            if model[k] != mw:
                ctx.failed_obligations.append(f"correspondence expected_*_len vs model differs on {h['app']}: model {model[k]!r} expected {mw!r}")


def sjpeg_line(rng, big=False):
    """`sjpeg <seed> <width> <height> <sampling> <script> <ri> <tables> <style> <resets> <ezr> <pad> <feed>`
    (harness/src/bin/c17e.rs). About two thirds of the subsampled cases use one interleaved scan of all
    components (the layout the known MCU-geometry defect of the decoder does not reach)."""
    if big:
        w, h = rng.choice([(264, 24), (520, 33), (300, 270), (257, 257), (1030, 17), (40, 515)])
    else:
        w, h = rng.choice([(8, 8), (16, 16), (1, 1), (17, 9), (9, 17), (15, 33), (24, 40), (33, 31), (48, 16), (100, 75),
                           (64, 64), (250, 20), (31, 100), (7, 64), (129, 8), (32, 32), (23, 23)])
    samp = rng.choice(["420"] * 6 + ["422"] * 3 + ["440"] * 3 + ["g"] * 3 +
                      ["444", "444", "x221211", "x211221", "x111122", "x122111", "x212112", "x112121", "x112222"])
    if samp in ("g", "444") or rng.random() < 0.35:
        script = rng.choice(["b", "bs", "bm", "bc", "br", "A", "B", "R", "R"])
    else:
        script = "b"
    mcus = -(-w // 16)
    ri = rng.choice([0, 0, 1, 2, 3, 7, mcus, 2 * mcus + 1, 1000])
    tables = rng.choice(["c", "cs"]) if script in "ABR" else rng.choice(["k", "c", "cs"])
    ezr = rng.choice([0, 0, 1, 2, 4, 8]) if script[0] == "b" else 0
    feed = rng.choice(["w", "w", "7", "64", "1000"]) if w * h <= 10000 else rng.choice(["w", "4096"])
    return (f"sjpeg {rng.randrange(1, 10 ** 6)} {w} {h} {samp} {script} {ri} {tables} {rng.choice('nnqz')} "
            f"{rng.choice([0, 0, 1, 3, 8])} {ezr} {rng.choice('dznrn')} {feed}")


def e2e_campaign(ctx, n):
    """reconstructed file == original JPEG, byte for byte, on synthetic lossless transcodes (see NOT_E2E
    for what they cover): the original is written by an independent baseline encoder, the container by
    a minimal transcoder (both harness/src/synth.rs), `reconstruct_jpeg` by the code under test"""
    ctx.cargo_build(["c17e"])
    rng = ctx.rng
    lines = []
    for i in range(n):
        bw, bh = rng.choice([(1, 1), (2, 1), (1, 3), (3, 3), (5, 3), (4, 4), (8, 2), (7, 5), (9, 9), (16, 3)])
        scans = rng.choice(["i", "i", "s", "s", "m", "r"])
        pad = rng.choice(["d", "d", "z", "a", "r", "n", "n"])
        ezr = rng.choice([0, 0, 1, 2, 4, 8])
        meta = rng.choice(["-", "-", "e", "E", "x", "c", "ec", "ex", "Ex", "ecx"])
        feed = rng.choice(["w", "w", "1", "7", "64", "333", "4096"]) if bw * bh <= 25 else rng.choice(["w", "64", "4096"])
        lines.append(f"jpeg {rng.randrange(1, 10 ** 6)} {bw} {bh} {scans} {pad} {ezr} {meta} {feed}")
    # progressive scans (spectral selection, successive approximation, seeded scripts), restart
    # intervals, seeded Huffman tables in one or several DHT segments, end-of-band runs ended early
    # (correction-bit buffer, an encoder's own choice) and runs beyond 32767 blocks
    for i in range(n):
        big = i % 25 == 24
        bw, bh = (rng.randrange(150, 200), rng.randrange(185, 200)) if big else \
            (rng.choice([1, 2, 3, 5, 8, 17, 33, 40]), rng.choice([1, 2, 3, 4, 9, 31, 35]))
        script = rng.choice(["b", "bs", "A", "B", "B", "R", "R", "R"])
        ri = rng.choice([0, 0, 1, 2, 3, 7, bw, bw * 2 + 1, 1000])
        tables = rng.choice(["c", "cs"]) if script in "ABR" else rng.choice(["k", "c", "cs"])
        style = "e" if big else rng.choice("nnqz")
        resets = rng.choice([0, 0, 1, 3, 8])
        pad = rng.choice("dznr")
        feed = "w" if big else rng.choice(["w", "w", str(rng.choice([1, 7, 64, 1000]))])
        if feed == "1" and bw * bh > 64:
            feed = "64"
        lines.append(f"pjpeg {rng.randrange(1, 10 ** 6)} {bw} {bh} {script} {ri} {tables} {style} {resets} {pad} {feed}")
    # an end-of-band run that crosses 32767 blocks with nothing to end it early (no restart interval, no
    # reset point, first passes of a progressive script): always one per script kind, not left to the draw
    # (seeded: c17-eobrun-saturation-off-by-one needs >= 32768 consecutive empty blocks)
    for script in ["A", "B"]:
        lines.append(f"pjpeg {rng.randrange(1, 10 ** 6)} {rng.randrange(182, 200)} {rng.randrange(182, 200)} {script} 0 c e 0 d w")
    # chroma subsampling and grey: sampling factors 1 or 2 per component and direction, sizes in pixels that
    # are / are not multiples of the MCU (padding blocks at the right and bottom edge, several groups),
    # scans interleaved or not, restart intervals, extra zero runs, padding bits, progressive scripts
    # witness of the repaired defect (scan MCU geometry taken from the scan's own components): always replayed
    lines.append("sjpeg 1 16 16 420 bs 0 k n 0 0 d w")
    for i in range(n):
        lines.append(sjpeg_line(rng, big=i % 16 == 15))
    outs = run_lines_robust([ctx.harness_bin("c17e")], lines, per_line_timeout=120)
    for l, o in zip(lines, outs):
        w = l.split()
        o = o or "crash"
        ctx.case(("e2e", l), nontrivial=True)
        if w[0] == "sjpeg":
            facts = dict(x.split("=", 1) for x in o.split() if "=" in x)
            lesser = facts.get("lesser-scans", "?")
            ctx.count("e2e:sampling-" + w[4]); ctx.count("e2e:sub-script-" + w[5])
            ctx.count("e2e:sub-restart-" + ("none" if w[6] == "0" else "some"))
            ctx.count("e2e:sub-mcu-padding-" + ("none" if facts.get("pad", "0") == "0" else "some"))
            ctx.count("e2e:sub-scans-without-a-largest-factor-component-" + ("none" if lesser == "0" else "some"))
            ctx.count("e2e:sub-size-" + ("several-groups" if int(w[2]) > 256 or int(w[3]) > 256 else "one-group"))
            if int(w[10]):
                ctx.count("e2e:sub-with-extra-zero-runs")
        elif w[0] == "pjpeg":
            ctx.count("e2e:script-" + w[4]); ctx.count("e2e:restart-" + ("none" if w[5] == "0" else "some"))
            ctx.count("e2e:tables-" + w[6]); ctx.count("e2e:blocks-" + w[7]); ctx.count("e2e:padding-" + w[9])
            ctx.count("e2e:feed-" + ("whole" if w[10] == "w" else "chunked"))
            if "early-run-ends=" in o and not o.endswith("early-run-ends=0"):
                ctx.count("e2e:with-early-run-ends")
            if int(w[2]) * int(w[3]) > 32767:
                ctx.count("e2e:more-than-32767-blocks")
        else:
            ctx.count("e2e:scans-" + w[4]); ctx.count("e2e:padding-" + w[5]); ctx.count("e2e:meta-" + w[7])
            ctx.count("e2e:feed-" + ("whole" if w[8] == "w" else "chunked"))
            if int(w[6]):
                ctx.count("e2e:with-extra-zero-runs")
        rep = {"lines": [l], "impl": [o], "how": "echo '<line>' | harness/target/debug/c17e (spec in harness/src/bin/c17e.rs)"}
        if o.startswith("ok"):
            continue
        if o.startswith("diff"):
            ctx.violation("reconstructed-jpeg-differs-from-the-original", o, rep, key="c17:e2e-diff")
        elif o.startswith("status"):
            ctx.violation("reconstruction-not-available-for-a-complete-transcode", o, rep, key="c17:e2e-status")
        elif o.startswith("err"):
            ctx.violation("reconstruction-of-a-valid-transcode-fails", o, rep, key="c17:e2e-" + o.split()[1][:30])
        else:
            ctx.violation("reconstruction-panicked-or-hung", o[:200], rep, key="c17:e2e-panic")


def run(ctx):
    ctx.assumptions += [
        NOT_E2E,
        "write_huffman's callers pass a left-aligned code with nothing below its top `len` bits (HuffmanCode::build "
        "produces exactly that); lengths: write_huffman len <= 64 and not 64 into an empty accumulator, write_raw len <= 64 "
        "(the scan encoder never exceeds 63); outside that the real code panics and the model says so",
        "u64/usize are 64 bit; HuffmanCode::build's next_code stays below 2^29, so the model's unbounded Nat equals the u64",
        "jpeg_reconstruction_status is modelled as a pure function of the facts it reads; the jbrd arrival facts "
        "(header parsed / box complete and length-checked) are derived by the generator from the file layout",
        "the status logic modelled is the repaired one (fix-F4, fix-jbrd-status-incomplete, fix-status-frame-check)",
    ]
    ok = ctx.lean_build(MODULES)
    if ok:
        ctx.audit(MODULES, ctx.update_lock)
        if not ctx.quick:
            ctx.leanchecker(MODULES)
    ctx.cargo_build(["c17"])
    if getattr(ctx, "replay", None):
        body = json.load(open(ctx.replay))
        lines = body["replay"]["lines"]
        out, rc, err = ctx.run_impl("c17", lines)
        print("\n".join(out))
        if out == body["replay"].get("impl"):        # the recorded failing answer is reproduced
            ctx.violation("replayed", body.get("detail"), body["replay"], key=body.get("key"))
        else:
            print("replay: the recorded failing answer is no longer produced")
        return
    k = 1 if ctx.quick else 10
    ctx.cov["rule"] = (
        "seeded: (a) write sequences on the real BitWriter (lengths 0..64 aimed at the 64-bit flush boundary, words "
        "rich in 0xFF bytes, every padding remainder, explicit ones/zeros/random padding or none) compared with the "
        "Lean model step by step and with an independent Python evaluation of the spec; has_ff_byte on boundary words; "
        "(b) HuffmanCode::build on Kraft-respecting tables (checked against ITU-T T.81 Annex C and prefix-freeness) and "
        "degenerate tables (panic sets compared with the model); (c) crafted container files with hostile/valid jbrd "
        "headers, stored-Brotli data of right/wrong length, metadata boxes, bit flips and truncation, fed in chunks cut at "
        "box and header boundaries: status after every chunk, finalize, reconstruct_jpeg; status decisions of exactly-known "
        "files compared with the Lean status function. A case is non-trivial if it flushed/stuffed (a), is a valid table "
        "with > 2 entries (b), or saw at least two status answers (c); distinct by content. " + NOT_E2E)
    jbrd_campaign(ctx, ok, 14000 * k)        # corpus (past failures, design-probe witnesses) runs first
    e2e_campaign(ctx, 160 * k)
    lens_campaign(ctx, ok, 500 * k)
    bw_campaign(ctx, ok, 5000 * k)
    ff_campaign(ctx, ok, 5000 * k)
    huff_campaign(ctx, ok, 1500 * k)
