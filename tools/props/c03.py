"""C03 — lossless Modular. Theorems: Props/C03.lean. Correspondence: the Lean reference encoder
(Spec leaf selection, forward transforms) writes images; the real decoder must return exactly the
original samples (property oracle, on the implementation alone) and must agree with the Lean
decoder model (flattened trees, table compilation) on the same tokens."""
from vlib import *
import json, os
import planlib as pl

MODULES = ["JxlModel.Props.C03"]


def make_cases(ctx, n_general, n_table, n_pal, n_multi):
    cases = []
    for _ in range(n_general):
        img, fr = pl.gen_modular_image(ctx.rng)
        cases.append(("general", img, fr))
    for _ in range(n_table):
        img, fr, kind = pl.gen_table_image(ctx.rng)
        cases.append((kind, img, fr))
    for _ in range(n_pal):
        img, fr, kind = pl.gen_palette_image(ctx.rng)
        cases.append((kind, img, fr))
    for _ in range(max(20, n_table // 3)):
        img, fr, kind = pl.gen_fast_lossless_image(ctx.rng)
        cases.append((kind, img, fr))
    # the specialised decoders (single gradient leaf, gradient / simple / previous-channel lookup tables,
    # the RLE fast path) on samples that span the whole 31-bit range with hard edges: W + N - NW leaves
    # 32 bits there, which the general path computes in 64 (seeded: c03-i32-grad-clamped-wraps)
    for k in range(max(16, n_table // 4)):
        b = ctx.rng.choice([24, 30, 31, 31])
        st = ["edges", "edges", "noise", "stripes"]
        if k % 2:
            img, fr, kind = pl.gen_fast_lossless_image(ctx.rng, bits=b, styles=st)
        else:
            img, fr, kind = pl.gen_table_image(ctx.rng, kind=ctx.rng.choice(["gradient-table", "gradient-table", "simple-table", "prevchan-table", "mixed-table"]), bits=b, styles=st)
        cases.append(("deep-" + kind, img, fr))
    for _ in range(n_multi):
        img, fr = pl.gen_modular_image(ctx.rng, {"multi_group": True})
        cases.append(("multi-group", img, fr))
    for _ in range(max(12, n_multi)):
        img, fr, kind = pl.gen_dimshift_image(ctx.rng)
        cases.append((kind, img, fr))
    for _ in range(max(12, n_multi)):
        img, fr, kind = pl.gen_lz_const_channel_image(ctx.rng)
        cases.append((kind, img, fr))
    return cases


def compare(ctx, kind, line, enc, dec_line, opts=""):
    """returns True if everything agreed"""
    hexs, frames = enc
    exp = frames[0]["chans"]
    model = frames[0]["model"]
    replay = {"plan": line, "codestream_hex": hexs, "decode_opts": opts,
              "how": "echo 'decode <hex> <opts>' | harness/target/debug/img ; plan -> lean/.lake/build/bin/jxlmodel enc"}
    if dec_line.startswith("panic") or dec_line.startswith("crash") or dec_line == "hang":
        site = dec_line.split()[1] if dec_line.startswith("panic") and len(dec_line.split()) > 1 else dec_line.split()[0]
        ctx.violation("decoder-panic-or-hang", dec_line[:300], replay, key=f"{dec_line.split()[0]}:{site}")
        return False
    st, kfs = pl.parse_img_output(dec_line)
    if st != "ok" or not kfs or not isinstance(kfs[0], list):
        ctx.violation("valid-stream-rejected", dec_line[:200], replay, key="rejected:" + kind)
        return False
    got = [(c[1], c[2], c[3]) for c in kfs[0]]
    kinds = {c[0] for c in kfs[0]}
    if kind.startswith("ec-dim-shift"):
        # channels stored at reduced resolution come back upsampled (floats): compare the others
        iw, ih = exp[0][0], exp[0][1]
        keep = [k for k, e in enumerate(exp) if (e[0], e[1]) == (iw, ih)]
        if len(got) != len(exp) or any(kfs[0][k][0] != "i" for k in keep):
            ctx.violation("valid-stream-rejected", dec_line[:200], replay, key="rejected:" + kind)
            return False
        bad = next((k for k in keep if got[k] != exp[k]), None)
        if bad is not None:
            ctx.violation("decoded-samples-differ-from-encoded", {"first_bad_channel": bad}, replay, key="samples:" + kind)
            return False
        return True
    if kinds != {"i"}:
        ctx.failed_obligations.append(f"harness returned non-integer buffers for a single Modular frame ({kinds})")
        return False
    if got != exp:
        bad = next((i for i, (g, e) in enumerate(zip(got, exp)) if g != e), None)
        detail = {"first_bad_channel": bad, "model_decoder_agrees_with_impl": model == got,
                  "expected_head": exp[bad][2][:16] if bad is not None and bad < len(exp) else None,
                  "got_head": got[bad][2][:16] if bad is not None and bad < len(got) else None}
        ctx.violation("decoded-samples-differ-from-encoded", detail, replay, key="samples:" + kind)
        return False
    if model is None or model != got:
        ctx.failed_obligations.append(
            f"correspondence decoder model vs jxl-modular differs ({kind}); plan: {line[:400]}")
        return False
    return True


def run(ctx):
    ok = ctx.lean_build(MODULES)
    if ok:
        ctx.audit(MODULES, ctx.update_lock)
        if not ctx.quick:
            ctx.leanchecker(MODULES)
    ctx.cargo_build(["img"])
    q = ctx.quick
    cases = make_cases(ctx, 500 if q else 12000, 300 if q else 6000, 300 if q else 6000, 24 if q else 300)
    ctx.cov["rule"] = ("seeded structured Modular images (sizes 1..40 and multi-group up to 3x3 groups, gray/RGB, "
                       "0-2 extra channels, depths 1..31, narrow/wide buffers, random MA trees over all properties "
                       "incl. previous-channel ones, all 14 predictors, weighted-predictor parameters, RCT 0..41, "
                       "default/explicit squeeze, explicit/implicit/delta palettes, decision chains that compile to "
                       "lookup tables incl. redundant decisions and 1022/1023 spans) written by the Lean reference "
                       "encoder and decoded by the real decoder; non-trivial = more than one distinct sample value; "
                       "distinct by plan text")
    # minimised past failures: codestream + the samples it must decode to; always replayed first
    cpath = os.path.join(VERIF, "corpus", "c03", "cases.jsonl")
    if os.path.exists(cpath):
        cs = [json.loads(l) for l in open(cpath) if l.strip()]
        outs = run_lines_robust([ctx.harness_bin("img")], [f"decode {c['codestream_hex']}" for c in cs], per_line_timeout=30)
        for c, o in zip(cs, outs):
            ctx.case(("corpus", c["codestream_hex"]), nontrivial=True)
            ctx.count("kind:corpus")
            o = o or "crash"
            st, kfs = pl.parse_img_output(o) if o.startswith("ok") else (o, None)
            got = [[ch[1], ch[2], ch[3]] for ch in kfs[0]] if kfs and isinstance(kfs[0], list) else None
            if got != c["expect"]:
                ctx.violation("corpus-witness-fails-again", {"name": c["name"], "answer": o[:200]},
                              {"codestream_hex": c["codestream_hex"], "expected": c["expect"],
                               "how": "echo 'decode <hex>' | harness/target/debug/img"}, key="corpus:" + c["name"][:20])
    lines = [pl.plan_line(img, fr) for (_, img, fr) in cases]
    encs = run_lines_robust([MODEL_EXE, "enc"], lines, per_line_timeout=60) if ok else []
    if not ok:
        return
    todo = []
    for (kind, img, fr), line, e in zip(cases, lines, encs):
        try:
            r = pl.parse_enc_output(e) if e and e.startswith("ok") else None
        except (IndexError, ValueError, AssertionError):
            r = None
            ctx.count("encoder:unparsable-output")
        if r is None:
            ctx.count("encoder:" + (e.split()[1] if e and len(e.split()) > 1 else "none"))
            continue
        todo.append((kind, img, line, r))
    dec_in = [f"decode {r[0]}" for (_, _, _, r) in todo]
    dec = run_lines_robust([ctx.harness_bin("img")], dec_in, per_line_timeout=30)
    for (kind, img, line, r), d in zip(todo, dec):
        vals = set()
        for c in r[1][0]["chans"]:
            vals.update(c[2][:64])
        ctx.case(line, nontrivial=len(vals) > 1)
        ctx.count("kind:" + kind)
        ctx.count(f"entropy-mode:{r[1][0].get('ent', 0)}")
        ctx.count("bits:" + str(img["bits"]))
        ctx.count("buf:" + ("i16" if img["buf16"] else "i32"))
        if r[1][0]["num_groups"] > 1:
            ctx.count("multi-group-frames")
        for p in r[1][0]["paths"]:
            ctx.count("path:" + p)
        d = d or "crash"
        st0, kf0 = pl.parse_img_output(d) if d.startswith("ok") else (d, None)
        same = kf0 and isinstance(kf0[0], list) and ([(c[1], c[2], c[3]) for c in kf0[0]] == r[1][0]["chans"]
                                                       or kind.startswith("ec-dim-shift"))
        if not same:
            # confirm in a fresh process before reporting (a loaded machine can cut a batch short)
            d2 = run_lines_robust([ctx.harness_bin("img")], [f"decode {r[0]}"], per_line_timeout=120)[0] or "crash"
            if d2 != d:
                ctx.count("decode-answer-not-reproduced")
                ctx.notes.setdefault("unreproduced", []).append({"plan": line[:300], "first": d[:80], "second": d2[:80]})
            d = d2
        good = compare(ctx, kind, line, r, d)
        if good and len(ctx.cov["samples"]) < 4 and len(line) < 700:
            ctx.sample({"kind": kind, "plan": line, "codestream_hex": r[0]})
    # both buffer widths on the narrow-eligible part (C12 does this in depth)
    ctx.assumptions += [
        "the reference encoder is independent of the decoder by construction of definitions (Spec leaf selection, "
        "forward transforms), not by authorship; there is no libjxl in the sandbox",
        "entropy coding in these streams is the fixed-length prefix code of Model/Enc/EntropyV0 (C04 covers the rest)",
        "flattened-tree = tree, predictor-state = grid neighbours, the transform chain (inverse of forward under "
        "chainOk) and the group partition are theorems (Props/C03.lean); their composition inside encodeFrame into "
        "one end-to-end statement is tied by this differential run, not (yet) by theorem",
        "extra channels with dim_shift > 0 and float samples are not generated yet",
    ]
