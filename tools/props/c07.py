"""C07 — output does not depend on threads, scheduling or repetition.
Theorems: Props/C07.lean (fork-join task model: confluence of independent jobs under every
permutation / step interleaving, partitions as functions of geometry, error-slot presence,
none() = any pool, handle cache, lazy tables, offset cache, scratch, noise seeds).
Correspondence (testing): encoder-made Modular images (multi-group with RCT + squeeze so that the
16-row band jobs and the group jobs all occur; multi-frame with blending; animation; extra
channels; Gabor/EPF; single-section frames for the offset cache) and the fixture are decoded and
rendered by the real crates under JxlThreadPool::none() and rayon pools of 1,2,3,4,8,16 threads,
repeatedly, re-rendered on one image, and by 4 caller threads on one JxlImage: every sample dump
must be bit-identical. Ok/Err outcome under injected allocation failures (hook H1) must be the same
for every configuration. Source pins tie the modelled partition functions and error-slot
discipline to the text of /repo."""
import threading
from concurrent.futures import ThreadPoolExecutor
from vlib import *
import planlib as pl

MODULES = ["JxlModel.Props.C07", "JxlModel.Props.C07Nat"]
POOLS = [0, 1, 2, 3, 4, 8, 16]
FIXTURE = os.path.join(REPO, "crates/jxl-oxide-tests/tests/cms/cmyk_layers.jxl")
CORPUS = os.path.join(VERIF, "corpus", "c07")


# ------------------------------------------------------------------------------------------------
# generators
def _chans(rng, w, h, bits, n, lo=None, hi=None):
    lo = 0 if lo is None else lo
    hi = (1 << bits) - 1 if hi is None else hi
    return [(w, h, pl.gen_pixels(rng, w, h, lo, hi)) for _ in range(n)]


def _img(rng, w, h, bits, gray, nec, anim=None, alpha=True):
    ecs = []
    for i in range(nec):
        ecs.append({"ty": 0 if (alpha and i == 0) else rng.choice([1, 3, 15, 16]), "dim_shift": 0,
                    "bits": bits, "alpha_assoc": rng.random() < 0.3})
    buf16 = bits <= 12 and rng.random() < 0.75
    d = {"w": w, "h": h, "bits": bits, "gray": gray, "buf16": buf16, "ecs": ecs,
         "orient": rng.choice([1, 1, 1] + list(range(1, 9)))}
    if anim:
        d["anim"] = anim
    return d


def _tree(rng, bits, nch):
    return pl.gen_tree(rng, rng.choice([0, 1, 2, 3]), rng.randint(1, 4), (0, (1 << bits) - 1),
                       nprev=min(2, nch - 1))


def _transforms(rng, gray, nch, force=None):
    """RCT and/or squeeze; `force` = 'both' makes sure the band jobs of both occur"""
    trs = []
    r = rng.random()
    want_rct = not gray and (force == "both" or r < 0.6)
    want_sq = force == "both" or r > 0.5
    if want_rct:
        trs.append(("rct", 0, rng.choice([6, 6, rng.randrange(42)])))
    if want_sq:
        if rng.random() < 0.6:
            trs.append(("sq", []))
        else:
            trs.append(("sq", [(rng.random() < 0.5, True, 0, nch) for _ in range(rng.randint(1, 3))]))
    return trs


MG_DIMS = [(130, 20), (20, 130), (129, 129), (200, 40), (257, 17), (17, 257), (140, 140), (256, 33), (150, 18)]
BIG_DIMS = [(257, 257), (300, 258), (258, 270)]


def gen_bands(rng, dims=None, force="both"):
    w, h = dims or rng.choice(MG_DIMS)
    bits = rng.choice([8, 8, 10, 12, 16])
    gray = rng.random() < 0.15
    nec = rng.choice([0, 0, 1])
    img = _img(rng, w, h, bits, gray, nec)
    nch = (1 if gray else 3) + nec
    fr = {"gshift": 0, "chans": _chans(rng, w, h, bits, nch), "tr": _transforms(rng, gray, nch, force),
          "pals": [], "tree": _tree(rng, bits, nch), "wp": None}
    return img, [fr]


def gen_ec(rng):
    w, h = rng.choice(MG_DIMS)
    bits = rng.choice([8, 10, 12])
    nec = rng.choice([1, 2, 2])
    img = _img(rng, w, h, bits, rng.random() < 0.3, nec)
    nch = (1 if img["gray"] else 3) + nec
    fr = {"gshift": 0, "chans": _chans(rng, w, h, bits, nch), "tr": _transforms(rng, img["gray"], nch),
          "pals": [], "tree": _tree(rng, bits, nch), "wp": None}
    return img, [fr]


def gen_filters(rng):
    w, h = rng.choice([(130, 20), (140, 40), (129, 129), (40, 140), (200, 24)])
    bits = rng.choice([8, 8, 10])
    img = _img(rng, w, h, bits, rng.random() < 0.2, rng.choice([0, 0, 1]))
    nch = (1 if img["gray"] else 3) + len(img["ecs"])
    gab, epf = rng.choice([(True, 0), (False, 1), (False, 2), (True, 3), (True, 2), (False, 3)])
    fr = {"gshift": 0, "chans": _chans(rng, w, h, bits, nch), "tr": _transforms(rng, img["gray"], nch),
          "pals": [], "tree": _tree(rng, bits, nch), "wp": None, "gab": gab, "epf": epf}
    return img, [fr]


def gen_upsampling(rng):
    ups = rng.choice([2, 2, 4])
    w, h = rng.choice([(260, 40), (40, 262), (264, 264)]) if ups == 2 else rng.choice([(520, 40), (40, 524)])
    bits = 8
    img = _img(rng, w, h, bits, rng.random() < 0.3, 0)
    img["orient"] = 1
    nch = 1 if img["gray"] else 3
    cw, ch = -(-w // ups), -(-h // ups)
    fr = {"gshift": 0, "ups": ups, "chans": _chans(rng, cw, ch, bits, nch), "tr": _transforms(rng, img["gray"], nch),
          "pals": [], "tree": _tree(rng, bits, nch), "wp": None}
    return img, [fr]


def gen_features(rng):
    """noise (seeded per group) and splines over several groups, sometimes with patches from a reference-only frame"""
    w, h = rng.choice([(140, 40), (40, 140), (130, 129), (264, 30)])
    img = _img(rng, w, h, 8, False, 0)
    lut, sp = pl.gen_features(rng, w, h, noise=rng.random() < 0.8, splines=rng.random() < 0.6)
    fr = {"gshift": 0, "chans": _chans(rng, w, h, 8, 3), "tr": _transforms(rng, False, 3), "pals": [],
          "tree": _tree(rng, 8, 3), "wp": None}
    if lut:
        fr["noise"] = lut
    if sp:
        fr["splines"] = sp
    frames = [fr]
    if rng.random() < 0.4:
        rw, rh = rng.randint(4, 40), rng.randint(4, 40)
        ref = {"ty": 2, "gshift": 1, "have_crop": True, "w": rw, "h": rh, "is_last": False, "save_ref": 1, "sbct": True,
               "chans": _chans(rng, rw, rh, 8, 3), "tr": [], "pals": [], "tree": ("L", 0, 0, 0, 1), "wp": None}
        pw, ph = rng.randint(1, rw), rng.randint(1, rh)
        fr["patches"] = [{"ref": 1, "x0": rng.randint(0, rw - pw), "y0": rng.randint(0, rh - ph), "w": pw, "h": ph,
                          "targets": [{"x": rng.randint(0, w - 1) if k == 0 else rng.randint(-pw, w), "y": rng.randint(0, h - 1) if k == 0 else rng.randint(-ph, h),
                                       "blend": [(rng.choice([1, 2, 3]), 0, False)]} for k in range(rng.randint(1, 4))]}]
        frames = [ref, fr]
    return img, frames


def gen_multiframe(rng, anim):
    w, h = rng.choice([(140, 40), (130, 30), (40, 140), (129, 129), (64, 64), (200, 20), (33, 17)])
    bits = rng.choice([8, 8, 10, 12, 16])
    nec = rng.choice([0, 1, 1, 2])
    gray = rng.random() < 0.2
    img = _img(rng, w, h, bits, gray, nec,
               anim=(rng.choice([10, 24, 1000]), 1, rng.randrange(3), 0) if anim else None)
    nch = (1 if gray else 3) + nec
    nfr = rng.randint(2, 4)
    frames = []
    for k in range(nfr):
        last = k == nfr - 1
        ty = 2 if (k < nfr - 1 and rng.random() < 0.2) else 0          # 2 = reference only
        crop = k > 0 and rng.random() < (0.15 if ty == 2 else 0.5)
        fw, fh, x0, y0 = w, h, 0, 0
        if crop:
            fw, fh = rng.randint(1, w), rng.randint(1, h)
            x0, y0 = rng.randint(-8, w - 1), rng.randint(-8, h - 1)
        modes = [0, 1, 1, 2, 3, 4] if nec else [0, 1, 1, 4]
        mode = 0 if k == 0 else rng.choice(modes)
        f = {"ty": ty, "gshift": 0, "have_crop": crop, "x0": x0, "y0": y0, "w": fw if crop else 0, "h": fh if crop else 0,
             "chans": _chans(rng, fw, fh, bits, nch), "tr": _transforms(rng, gray, nch) if rng.random() < 0.6 else [],
             "pals": [], "tree": _tree(rng, bits, nch), "wp": None,
             "is_last": last, "dur": (rng.choice([0, 1, 1, 3]) if anim else 0),
             "save_ref": 0 if last else rng.randrange(4),
             "blend": {"mode": mode, "alpha": 0, "clamp": rng.random() < 0.3, "source": rng.randrange(4)},
             "ecblend": [{"mode": rng.choice([0, 1, 4] + ([2, 3] if nec else [])), "alpha": 0,
                          "clamp": rng.random() < 0.3, "source": rng.randrange(4)} for _ in range(nec)]}
        if ty == 2:
            f["save_ref"] = rng.randint(1, 3)
        frames.append(f)
    return img, frames


def make_cases(ctx):
    q = ctx.quick
    n = lambda a, b: a if q else b
    rng = ctx.rng
    cases = []
    for _ in range(n(9, 110)):
        cases.append(("bands-rct-squeeze", *gen_bands(rng)))
    for _ in range(n(2, 24)):
        cases.append(("groups-3x3", *gen_bands(rng, rng.choice(BIG_DIMS), force=rng.choice(["both", None]))))
    for _ in range(n(4, 40)):
        cases.append(("extra-channels", *gen_ec(rng)))
    for _ in range(n(8, 80)):
        cases.append(("multi-frame-blend", *gen_multiframe(rng, False)))
    for _ in range(n(4, 40)):
        cases.append(("animation", *gen_multiframe(rng, True)))
    for _ in range(n(5, 50)):
        cases.append(("filters", *gen_filters(rng)))
    for _ in range(n(2, 16)):
        cases.append(("upsampling", *gen_upsampling(rng)))
    for _ in range(n(4, 40)):
        cases.append(("noise-splines-patches", *gen_features(rng)))
    for _ in range(n(7, 70)):
        img, fr = pl.gen_modular_image(rng)
        cases.append(("single-section", img, fr))
    for _ in range(n(2, 20)):
        img, fr, kind = pl.gen_table_image(rng) if rng.random() < 0.5 else pl.gen_palette_image(rng)
        cases.append(("single-section-" + kind.split("-")[0], img, fr))
    for _ in range(n(1, 10)):
        img, fr = pl.gen_modular_image(rng, {"multi_group": True})
        cases.append(("multi-group-general", img, fr))
    return cases


# ------------------------------------------------------------------------------------------------
def par_lines(cmd, lines, workers, per_line_timeout, batch, floor=400.0):
    """run_lines_robust over `workers` processes (round-robin split), answers in input order"""
    out = [None] * len(lines)
    idx = [list(range(k, len(lines), workers)) for k in range(workers)]

    def go(k):
        sub = [lines[i] for i in idx[k]]
        if not sub:
            return
        res = run_lines_robust(cmd, sub, per_line_timeout=per_line_timeout, batch=batch, floor=floor)
        for i, r in zip(idx[k], res):
            out[i] = r
    with ThreadPoolExecutor(max_workers=workers) as ex:
        list(ex.map(go, range(workers)))
    return out


def pools_arg(pools=POOLS):
    return "pools=" + ",".join(map(str, pools))


def parse_cmp(line):
    """-> (status, {cfg: [hashes]}, mismatch or None)"""
    if not line or not line.startswith("ok "):
        return (line or "none"), {}, None
    body, _, mm = line.partition(" | mismatch ")
    cfg = {}
    for w in body.split()[1:]:
        k, _, v = w.partition("=")
        cfg[k] = v.split("/")
    return "ok", cfg, (mm or None)


def parse_inject(line):
    """-> {cfg: (outcomes, calls_lo, calls_hi, peak_lo, peak_hi, dump hashes)} or None"""
    if not line or not line.startswith("ok"):
        return None
    r = {}
    for w in line.split()[1:]:
        k, _, v = w.partition("=")
        if k == "read":
            r["read"] = int(v)
            continue
        o, c, p, hs = (v.split(":") + [""])[:4]
        clo, chi = map(int, c.split("-"))
        plo, phi = map(int, p.split("-"))
        r[k] = (o, clo, chi, plo, phi, hs)
    return r


# ------------------------------------------------------------------------------------------------
# source pins: the modelled partition functions / error-slot discipline against the text of /repo
PINS = [
    ("crates/jxl-modular/src/transform/rct.rs", r"grids\.map\(\|g\| g\.borrow_mut\(\)\.into_groups\(width, 16\)\)", "rctBands"),
    ("crates/jxl-modular/src/transform.rs", r"if height > 16 \{\s*let remaining = i0\.split_vertical\(0\)\.1;\s*pool\.for_each_vec\(remaining\.into_groups\(width, 16\)", "squeezeHBands"),
    ("crates/jxl-modular/src/transform.rs", r"if width > 16 \{\s*let remaining = i0\.split_horizontal\(0\)\.1;\s*pool\.for_each_vec\(remaining\.into_groups\(16, height\)", "squeezeVStrips"),
    ("crates/jxl-render/src/features/noise.rs", r"\.into_groups\(group_dim, group_dim\)", "groupGrid (noise)"),
    ("crates/jxl-render/src/filter/epf.rs", r"for dy in \(0\.\.height\)\.step_by\(8\) \{[^}]*?let job_height = \(height - dy\)\.min\(8\);\s*let next_output0 = output0\.split_vertical_in_place\(job_height\);", "epfBands"),
    ("crates/jxl-render/src/filter/gabor.rs", r"output_buf\[width\.\.\]\.split_at_mut\(\(height - 2\) \* width\);\s*let output_rows = inner_rows\s*\.chunks_mut\(width \* 8\)", "gaborChunks"),
    ("crates/jxl-color/src/convert.rs", r"\.map\(\|ch\| ch\.chunks_mut\(65536\)\)", "colourChunks"),
    ("crates/jxl-render/src/features/noise.rs", r"fn rng_seed0\(visible_frames: usize, invisible_frames: usize\) -> u64 \{\s*\(\(visible_frames as u64\) << 32\) \+ invisible_frames as u64", "rngSeed0"),
    ("crates/jxl-render/src/features/noise.rs", r"fn rng_seed1\(x0: usize, y0: usize\) -> u64 \{\s*\(\(x0 as u64\) << 32\) \+ y0 as u64", "rngSeed1"),
    ("crates/jxl-render/src/features/noise.rs", r"let seed1 = rng_seed1\(x0, y0\);[^;]*;[^;]*;\s*let noise_group = NoiseGroup::new\(group_width, group_height, seed0, seed1, tracker\)\?;", "noiseSeed (sequential loop)"),
    ("crates/jxl-threadpool/src/lib.rs", r"JxlThreadPoolImpl::None => v\.into_iter\(\)\.for_each\(op\)", "noneOrder (for_each_vec)"),
    ("crates/jxl-threadpool/src/lib.rs", r"JxlThreadPoolImpl::None => v\.iter_mut\(\)\.for_each\(op\)", "noneOrder (for_each_mut_slice)"),
    ("crates/jxl-threadpool/src/lib.rs", r"JxlScopeInner::None\(_\) => op\(JxlScope\(JxlScopeInner::None\(Default::default\(\)\)\)\)", "noneOrder (scope.spawn)"),
    ("crates/jxl-render/src/state.rs", r"FrameRender::None \| FrameRender::InProgress\(_\) => Ok\(Some\(render\)\),", "Handle.runWithImage"),
    ("crates/jxl-render/src/image.rs", r"if let FrameRender::Blended\(image\) = &\*grid_lock \{\s*return Ok\(Arc::clone\(image\)\);", "Handle.blend"),
    ("crates/jxl-frame/src/lib.rs", r"let mut offset = self\.all_group_offsets\.pass_group\.load\(Ordering::Relaxed\);\s*if offset == 0 \{", "runCache"),
]

# files that build job lists must not look at the pool's size or kind
POOL_BLIND = ["crates/jxl-modular/src", "crates/jxl-render/src", "crates/jxl-color/src", "crates/jxl-frame/src",
              "crates/jxl-vardct/src", "crates/jxl-grid/src"]
POOL_PEEK = re.compile(r"is_multithreaded|current_num_threads|num_threads|available_parallelism|thread_local!|ThreadId|thread::current")
POOL_PEEK_ALLOWED = {("crates/jxl-render/src/lib.rs", "if !self.pool.is_multithreaded() {")}

SLOT_WRITE = re.compile(r"\*\s*(\w+)\.(?:write|lock)\(\)\.unwrap\(\)\s*=\s*(.*?);")


def strip_comments(src):
    src = re.sub(r"/\*.*?\*/", "", src, flags=re.S)
    return re.sub(r"//[^\n]*", "", src)


def source_pins(ctx):
    for rel, rx, what in PINS:
        p = os.path.join(REPO, rel)
        try:
            src = strip_comments(open(p).read())
        except OSError:
            ctx.failed_obligations.append(f"source pin: {rel} not found ({what})")
            continue
        ctx.count("source-pins")
        if not re.search(rx, src, flags=re.S):
            ctx.failed_obligations.append(f"source pin broken: {what} no longer matches the text of {rel}")
    for d in POOL_BLIND:
        for root, _, files in os.walk(os.path.join(REPO, d)):
            for f in files:
                if not f.endswith(".rs"):
                    continue
                p = os.path.join(root, f)
                rel = os.path.relpath(p, REPO)
                for line in strip_comments(open(p).read()).splitlines():
                    if POOL_PEEK.search(line) and (rel, line.strip()) not in POOL_PEEK_ALLOWED:
                        ctx.failed_obligations.append(
                            f"source pin broken: {rel} looks at the pool/thread ({line.strip()[:90]}): "
                            "job lists and per-job state must be functions of geometry only")
    # error slots: jobs may only ever store an Err (or store under an is_ok()/is_err() guard)
    for d in POOL_BLIND:
        for root, _, files in os.walk(os.path.join(REPO, d)):
            for f in files:
                if not f.endswith(".rs"):
                    continue
                p = os.path.join(root, f)
                rel = os.path.relpath(p, REPO)
                lines = strip_comments(open(p).read()).splitlines()
                for i, line in enumerate(lines):
                    m = SLOT_WRITE.search(line)
                    if not m:
                        continue
                    ctx.count("error-slot-writes-pinned")
                    rhs = m.group(2).strip()
                    before = " ".join(lines[max(0, i - 4):i + 1])
                    ok = (rhs.startswith("Err(")
                          or (rhs in ("r", "r.map_err(From::from)") and "is_err()" in before)
                          or (rhs == "err" and re.search(r"\berr\s*=>", before))
                          or (rhs.startswith("Ok(") and re.search(r"is_ok\(\)", before)))
                    if not ok:
                        ctx.failed_obligations.append(
                            f"source pin broken: {rel}:{i + 1} stores `{rhs[:60]}` into a shared result slot "
                            "without an Err/is_ok guard (a later success may erase an earlier failure)")


# ------------------------------------------------------------------------------------------------
def partition_tie(ctx, ok):
    rng = ctx.rng
    shapes = []
    for _ in range(40 if ctx.quick else 400):
        w, h = rng.randint(1, 70), rng.randint(1, 70)
        shapes.append((w, h, w, 16))                  # RCT / horizontal squeeze bands
        shapes.append((w, h, 16, h))                  # vertical squeeze strips
        gd = rng.choice([8, 16, 32])
        shapes.append((w, h, gd, gd))                 # group grid
    lines = [f"groups {w} {h} {gw} {gh}" for (w, h, gw, gh) in shapes]
    impl = run_lines_robust([ctx.harness_bin("c07")], lines, per_line_timeout=20)
    model = run_lines_robust([MODEL_EXE, "c07"], lines, per_line_timeout=20) if ok else impl
    for l, a, b in zip(lines, impl, model):
        ctx.count("partition-tie")
        if a != b:
            ctx.failed_obligations.append(f"correspondence into_groups vs Jxl.Subgrid.intoGroups differs on `{l}`: impl {str(a)[:80]} model {str(b)[:80]}")
            break
        # implementation-side oracle: every cell owned exactly once, and for full-width bands the
        # owner of row y is y // 16 + 1
        w_, h_, gw, gh = map(int, l.split()[1:])
        owners = []
        for run in (a or "").split()[1:]:
            v, _, n = run.partition("*")
            owners += [int(v)] * int(n)
        if len(owners) != w_ * h_ or (gw == w_ and any(owners[y * w_ + x] != y // gh + 1 for y in range(h_) for x in range(w_))):
            ctx.violation("partition-not-geometric", {"line": l, "impl": (a or "")[:300]},
                          {"harness": "c07", "line": l}, key="partition:" + l)
    if ok:
        sl = [f"sched {rng.randint(1, 4)} {rng.randint(2, 7)} {rng.choice([1, 2, 3])} {rng.randrange(1000)}"
              for _ in range(6 if ctx.quick else 40)]
        res = run_lines_robust([MODEL_EXE, "c07"], sl, per_line_timeout=60)
        for l, r in zip(sl, res):
            ctx.count("model-side-schedule-enumerations")
            if not (r or "").startswith("confluent"):
                ctx.failed_obligations.append(f"model-side enumeration `{l}` -> {r}")


# ------------------------------------------------------------------------------------------------
def per_config(H, line, deadline=200):
    """a line that hung or killed the worker, re-run one pool configuration at a time:
    {cfg: answer | 'hang' | 'crash..'} — tells a configuration-dependent hang/abort (C07) from one
    that every configuration shows (somebody else's defect: C01/C08/C20)"""
    res = {}
    for p in POOLS:
        l = re.sub(r"pools=\S+", f"pools={p}", line)
        l = re.sub(r"reps=\d+", "reps=2", l)
        l = re.sub(r"conc=\d+", "conc=0", l)
        r = run_lines_robust(H, [l], per_line_timeout=deadline, batch=1)[0] or "none"
        if r.startswith("ok"):
            toks = [t for t in r.split()[1:] if not t.startswith(("kf=", "refkind=", "ref="))]
            r = "ok " + " ".join(t.partition("=")[2].split(":")[0] for t in toks)
        res["none" if p == 0 else f"r{p}"] = r[:120]
    return res


def abnormal(ctx, kind, replay, line, line_out, H):
    """hang / crash / panic of a whole harness line"""
    what = (line_out or "none").split()[0]
    pc = per_config(H, line) if line else {}
    classes = {v.split()[0] if not v.startswith("ok") else v for v in pc.values()}
    if pc and len(classes) == 1 and not next(iter(classes)).startswith("ok"):
        # every configuration, none() included, hangs/aborts alone in the same way: the schedule is
        # not involved. Recorded for the owners of C01/C08/C20, not a C07 violation.
        ctx.count(f"consistent-{what}-in-every-configuration")
        ctx.notes.setdefault("defects_outside_C07", []).append({"kind": kind, "answer": (line_out or "")[:200], "per_configuration": pc})
        return
    if pc and all(v.startswith("ok") for v in pc.values()) and len(set(pc.values())) == 1:
        # only the combined line misbehaves: concurrent callers or re-render (those parts are skipped
        # in the per-configuration re-run)
        ctx.violation("hang-or-crash-with-concurrent-callers-or-rerender",
                      {"answer": (line_out or "none")[:300], "per_configuration": pc}, replay, key=f"{what}:combined:{kind}")
        return
    ctx.violation("hang-crash-or-panic-under-some-configurations-only",
                  {"answer": (line_out or "none")[:300], "per_configuration": pc}, replay, key=f"{what}:{kind}")


def check_cmp(ctx, kind, replay, line_out, line=None, H=None):
    """property oracle on the implementation's own outputs. True when everything agreed"""
    if line_out is None or line_out == "hang" or line_out.startswith("crash") or line_out.startswith("panic"):
        abnormal(ctx, kind, replay, line, line_out, H)
        return False
    st, cfg, mm = parse_cmp(line_out)
    if st != "ok":
        ctx.failed_obligations.append(f"harness answer not understood: {line_out[:120]}")
        return False
    hashes = set()
    for k, v in cfg.items():
        if k in ("kf", "refkind"):
            continue
        hashes.update(v)
    rk = cfg.get("refkind", ["?"])[0]
    ctx.count("outcome:" + rk)
    if mm and "hang" in mm and line and H and not getattr(ctx, "_confirming", False):
        # in-band hang somewhere: ask again with a longer deadline, judge the second answer only
        ctx._confirming = True
        try:
            return check_cmp(ctx, kind, replay, confirm(H, line), line, H)
        finally:
            ctx._confirming = False
    if rk == "hang" and not mm and len(hashes) == 1:
        ctx.count("consistent-hang-in-every-configuration")
        ctx.notes.setdefault("defects_outside_C07", []).append(
            {"kind": kind, "what": "decode/render never returns, identically under every configuration (C08/C20)"})
        return False
    if rk == "panic" and not mm and len(hashes) == 1:
        ctx.notes.setdefault("defects_outside_C07", []).append(
            {"kind": kind, "what": "decode/render panics identically under every configuration", "replay": {k: v for k, v in replay.items() if k in ("codestream_hex",) and len(v) < 100000}})
    if mm or len(hashes) != 1:
        ctx.violation("success-or-failure-depends-on-configuration" if mm and "outcome:" in mm
                      else "samples-differ-between-configurations",
                      {"first_difference": mm, "hash_per_configuration": cfg}, replay, key="differs:" + kind)
        return False
    return True


def parse_info(line):
    """`info` answer -> [(frame offset, [section sizes])]"""
    if not line or not line.startswith("ok"):
        return None
    fr = []
    toks = line.split()
    for i, t in enumerate(toks):
        if t.startswith("off=") and i + 1 < len(toks) and toks[i + 1].startswith("secs="):
            fr.append((int(t[4:]), [int(x) for x in toks[i + 1][5:].split(",") if x]))
    return fr


def corrupt_groups(ctx, good, H, reps):
    """Damage the section of ONE pass group of a multi-group frame (sizes and TOC untouched): the job
    decoding that group fails or decodes other samples — the same way under every schedule, because
    the fault sits in the bytes. Every configuration must then agree on Ok/Err (the shared error
    slot) and on every sample. The first group is a favourite target: under none() its job runs
    first, under a pool it usually does not."""
    rng = ctx.rng
    cands = [x for x in good if max(f["num_groups"] for f in x[4][1]) > 1]
    rng.shuffle(cands)
    cands = cands[: (8 if ctx.quick else 60)]
    if not cands:
        return
    infos = run_lines_robust(H, [f"info {x[4][0]}" for x in cands], per_line_timeout=120, batch=8, floor=300.0)
    lines, meta = [], []
    for x, inf in zip(cands, infos):
        frames = parse_info(inf)
        if not frames:
            continue
        data = bytearray.fromhex(x[4][0])
        ends = [f[0] for f in frames[1:]] + [len(data)]
        for variant in range(3 if ctx.quick else 4):
            fi = rng.randrange(len(frames))
            off, secs = frames[fi]
            if len(secs) < 4:
                continue
            start = ends[fi] - sum(secs)
            pos, spans = start, []
            for sz in secs:
                spans.append((pos, sz))
                pos += sz
            nlf = len(secs) - 2 - x[4][1][fi]["num_groups"]
            groups = [(gi, sp) for gi, sp in enumerate(spans[1 + nlf + 1:]) if sp[1] > 0]
            if not groups:
                continue
            gi, (gpos, gsz) = groups[0] if variant == 0 else rng.choice(groups)
            mode = ["ff-head", "zero-head", "rand", "ff-all"][variant % 4] if variant else rng.choice(["ff-head", "zero-head"])
            d = bytearray(data)
            if mode == "ff-head":
                d[gpos:gpos + min(8, gsz)] = b"\xff" * min(8, gsz)
            elif mode == "zero-head":
                d[gpos:gpos + min(8, gsz)] = b"\x00" * min(8, gsz)
            elif mode == "ff-all":
                d[gpos:gpos + gsz] = b"\xff" * gsz
            else:
                for _ in range(max(1, gsz // 20)):
                    d[gpos + rng.randrange(gsz)] = rng.randrange(256)
            lines.append(cmp_line(d.hex(), 0, reps, 0, 0))
            meta.append((x[0], fi, gi, mode, x[3]))
    outs = par_lines(H, lines, 4, per_line_timeout=600, batch=4)
    for l, (kind, fi, gi, mode, plan), o in zip(lines, meta, outs):
        ctx.case(("corrupt", plan, fi, gi, mode), True)
        ctx.count("corrupt-group:" + mode)
        replay = {"harness": "c07", "line": l[:400000], "codestream_hex": l.split()[1][:400000],
                  "what": f"section of pass group {gi} of frame {fi} damaged ({mode}); plan of the undamaged image: {plan[:300]}..."}
        if check_cmp(ctx, "corrupt-group", replay, o, l, H):
            st, cfg, _ = parse_cmp(o)
            ctx.count("corrupt-group-outcome:" + cfg.get("refkind", ["?"])[0])


# Seconds one decode+render may take before the harness calls it a hang (an outcome of its own, in
# band; the harness shortens it to 200 x the duration of the line's reference run, at least 5 s).
# Encoder-made images render in well under 0.2 s, the fixture in about 1 s.
DL = 20
DL_FIXTURE = 120


def cmp_line(hexs, wide, reps, rr, conc, pools=POOLS, dl=None):
    return f"cmp {hexs} wide={int(wide)} reps={reps} rr={rr} conc={conc} dl={dl or DL} {pools_arg(pools)}"


def confirm(H, line, factor=6):
    """a hang reported in band by some configurations only may be a slow machine: ask again with a
    longer deadline and judge that answer"""
    dl = int(re.search(r"dl=(\d+)", line).group(1)) * factor
    l = re.sub(r"dl=\d+", f"dl={dl}", line)
    return run_lines_robust(H, [l], per_line_timeout=dl * 60, batch=1)[0]


def progress(ctx, what):
    print(f"[C07 {ctx.tier} +{time.time() - ctx.t0:.0f}s] {what}", file=sys.stderr, flush=True)


def natural_order_tie(ctx, ok):
    """lazily built tables: `natural_order_lazy(idx)` asked for every index in seeded orders (fresh
    process each, so every order of first use occurs), sequentially and from threads started together,
    must return the table of that index = Jxl.NaturalOrder.table idx, whatever was built before"""
    rng = ctx.rng
    lines = []
    for k in range(24 if ctx.quick else 300):
        idx = list(range(13)) + [rng.randrange(9, 13) for _ in range(4)]
        rng.shuffle(idx)
        if k % 3 == 0:
            idx = [i for i in idx if i >= 9][:rng.randint(2, 6)]
        lines.append(("natorderp " if k % 2 else "natorder ") + " ".join(map(str, idx)))
    want = {}
    if ok:
        mo = run_lines_robust([MODEL_EXE, "c07"], ["natorder " + " ".join(map(str, range(13)))], per_line_timeout=300)[0] or ""
        want = dict(t.split("=") for t in mo.split()[1:])
        if len(want) != 13:
            ctx.failed_obligations.append("model driver: natorder failed: " + mo[:200])
    for line in lines:
        o = run_lines_robust([ctx.harness_bin("c07")], [line], per_line_timeout=120, batch=1)[0] or "crash"
        ctx.case(("natorder", line), True)
        ctx.count("natural-order:" + line.split()[0])
        rep = {"harness": "c07", "line": line, "answer": o[:400], "how": "echo '<line>' | harness/target/debug/c07 (fresh process)"}
        if not o.startswith("ok"):
            ctx.violation("natural-order-table-panicked", o[:200], rep, key="c07:natorder-panic")
            continue
        got = [t.split("=") for t in o.split()[1:]]
        per = {}
        for i, v in got:
            per.setdefault(i, set()).add(v)
        if any(len(v) > 1 for v in per.values()):
            ctx.violation("lazy-table-differs-between-calls", {k: sorted(v) for k, v in per.items() if len(v) > 1}, rep, key="c07:natorder-unstable")
        elif want and any(want.get(i) != v for i, v in got):
            bad = [(i, v, want.get(i)) for i, v in got if want.get(i) != v][:3]
            ctx.violation("lazy-table-depends-on-what-was-built-before", {"idx,got,expected": bad}, rep, key="c07:natorder-history")


def run(ctx):
    ok = ctx.lean_build(MODULES)
    if ok:
        ctx.audit(MODULES, ctx.update_lock)
        if not ctx.quick:
            ctx.leanchecker(MODULES)
    ctx.cargo_build(["c07"])
    q = ctx.quick
    H = [ctx.harness_bin("c07")]
    reps = 5 if q else 20
    ctx.cov["rule"] = (
        "seeded structured Modular images written by the Lean reference encoder (2x1..3x3 groups with RCT + "
        "squeeze so the 16-row band jobs and the group jobs occur; 2-4 frame images with all blend modes, crops, "
        "reference-only frames; animations; 0-2 extra channels; Gabor/EPF; upsampling; single-section frames "
        "that use the AllGroupOffsets cache; palette/table images) plus the fixture cmyk_layers.jxl; each "
        f"decoded+rendered under none() and rayon pools {POOLS[1:]} x {reps} fresh images, re-rendered on one "
        "image, and by 4 caller threads on one JxlImage (none() and a 4-thread pool); non-trivial = the "
        "render forks more than one job (more than one group, band or frame); distinct by plan text")
    if ctx.replay:
        body = json.load(open(ctx.replay))
        rp = body.get("replay", body)
        line = rp.get("line")
        if line is None and rp.get("codestream_hex"):
            line = cmp_line(rp["codestream_hex"], rp.get("wide", 0), reps, 2, 4, dl=DL_FIXTURE)
        res = run_lines_robust(H, [line], per_line_timeout=600, batch=1)[0]
        print("replay:", (res or "")[:2000])
        if line.startswith("cmp"):
            check_cmp(ctx, "replay", rp, res, line, H)
        return

    source_pins(ctx)
    natural_order_tie(ctx, ok)
    partition_tie(ctx, ok)
    progress(ctx, 'pins and partition tie done')

    # ---- corpus first ------------------------------------------------------------------------
    corpus = []
    if os.path.isdir(CORPUS):
        for f in sorted(os.listdir(CORPUS)):
            if f.endswith(".json"):
                corpus.append((f, json.load(open(os.path.join(CORPUS, f)))))
    for name, c in corpus:
        line = c["line"].replace("@REPO", "@" + REPO)
        res = run_lines_robust(H, [line], per_line_timeout=900, batch=1)[0]
        ctx.case(("corpus", name), True)
        ctx.count("corpus")
        if c.get("expect") == "same-outcome-and-hash":
            toks = (res or "").split()
            vals = {t.partition("=")[2] for t in toks[1:]}
            outs = {v.partition(":")[0] for v in vals}
            want = c.get("expect_letters")
            if (not (res or "").startswith("ok") or len(vals) != 1 or any(len(set(o)) != 1 for o in outs)
                    or (want and any(set(o) != set(want) for o in outs))):
                ctx.violation("success-or-failure-depends-on-schedule",
                              {"what": c.get("what"), "answer": (res or "")[:600]},
                              {"harness": "c07", "line": line, "corpus": name}, key="corpus:" + name)
        else:
            check_cmp(ctx, "corpus:" + name, {"harness": "c07", "line": line, "corpus": name}, res, line, H)

    # ---- the fixture ---------------------------------------------------------------------------
    fx_line = cmp_line("@" + FIXTURE, 0, 2 if q else 10, 2, 4, dl=DL_FIXTURE)
    t0 = time.time()
    fx = run_lines_robust(H, [fx_line], per_line_timeout=900, batch=1)[0]
    ctx.notes["fixture_s"] = round(time.time() - t0, 1)
    ctx.case(("fixture", "cmyk_layers.jxl"), True)
    ctx.count("kind:fixture")
    if check_cmp(ctx, "fixture", {"harness": "c07", "line": fx_line}, fx, fx_line, H):
        ctx.sample({"kind": "fixture", "answer": fx[:400]})

    # ---- VarDCT frames (synthetic JPEG transcodes; several groups for the larger ones) -----------
    import feedlib as fl
    for label, data, _jpeg in fl.synth_vardct(ctx, 3 if q else 30, max_blocks=40 * 40):
        vl = cmp_line(data.hex(), 0, reps, 2, 4)
        vr = run_lines_robust(H, [vl], per_line_timeout=900, batch=1)[0]
        ctx.case(("vardct", label), True)
        ctx.count("kind:vardct")
        check_cmp(ctx, "vardct", {"harness": "c07", "line": vl if len(vl) < 20000 else vl[:20000] + "...", "spec": label}, vr, vl, H)

    progress(ctx, 'corpus and fixture done')
    # ---- encoder-made images -----------------------------------------------------------------
    if not ok:
        return
    cases = make_cases(ctx)
    lines = [pl.plan_line(img, fr) for (_, img, fr) in cases]
    t0 = time.time()
    encs = par_lines([MODEL_EXE, "enc"], lines, 12, per_line_timeout=900, batch=4, floor=900.0)
    ctx.notes["encode_s"] = round(time.time() - t0, 1)
    progress(ctx, f"{len(cases)} plans encoded")
    todo = []
    for (kind, img, frs), line, e in zip(cases, lines, encs):
        r = pl.parse_enc_output(e) if e and e.startswith("ok") else None
        if r is None:
            ctx.count("encoder:" + (" ".join(e.split()[:2]) if e else "none"))
            continue
        todo.append((kind, img, frs, line, r))
    cmp_in = []
    for (kind, img, frs, line, r) in todo:
        wide = img["buf16"] and ctx.rng.random() < 0.3
        cmp_in.append(cmp_line(r[0], wide, reps, 2, 4))
    t0 = time.time()
    outs = par_lines(H, cmp_in, 4, per_line_timeout=600, batch=4)
    ctx.notes["compare_s"] = round(time.time() - t0, 1)
    progress(ctx, f"{len(cmp_in)} images compared")
    good = []
    for (kind, img, frs, line, r), cl, o in zip(todo, cmp_in, outs):
        ngroups = max(f["num_groups"] for f in r[1])
        nontrivial = ngroups > 1 or len(frs) > 1 or any(c[1] > 16 for f in frs for c in f["chans"])
        ctx.case(line, nontrivial)
        ctx.count("kind:" + kind)
        ctx.count("frames:" + str(len(frs)))
        ctx.count("groups:" + str(ngroups))
        for f in frs:
            for t in f.get("tr", []):
                ctx.count("transform:" + t[0])
            if f.get("gab"):
                ctx.count("gabor")
            if f.get("epf"):
                ctx.count("epf-iters:" + str(f["epf"]))
            if f.get("blend", {}).get("mode"):
                ctx.count("blend-mode:" + str(f["blend"]["mode"]))
        replay = {"harness": "c07", "plan": line if len(line) < 200000 else line[:200000] + "...",
                  "codestream_hex": r[0], "wide": int("wide=1" in cl),
                  "line": cl if len(cl) < 400000 else None,
                  "how": "echo '<line>' | harness/target/debug/c07   (plan -> lean/.lake/build/bin/jxlmodel enc)"}
        if check_cmp(ctx, kind, replay, o, cl, H):
            st, cfg, _ = parse_cmp(o)
            ctx.count("keyframes:" + cfg.get("kf", ["?"])[0])
            if cfg.get("refkind") == ["rendered"] and cfg.get("kf") != ["0"]:
                good.append((kind, img, frs, line, r))
            if len(ctx.cov["samples"]) < 5 and len(r[0]) < 3000:
                ctx.sample({"kind": kind, "codestream_hex": r[0], "answer": o[:300]})

    # ---- one group's section corrupted: a job-local, schedule-independent failure ----------------
    corrupt_groups(ctx, good, H, reps)
    progress(ctx, "corrupted-group images compared")

    # ---- success / failure under injected allocation failures ----------------------------------
    sample = good[:]
    ctx.rng.shuffle(sample)
    single = [x for x in sample if len(x[2]) == 1]
    multi = [x for x in sample if len(x[2]) > 1]
    sample = single[: (8 if q else 60)] + multi[: (4 if q else 30)]
    ireps = 2 if q else 4
    clean_in = [f"inject {r[0]} wide=0 mode=clean reps={3 if q else 6} dl={DL} {pools_arg()}" for (_, _, _, _, r) in sample]
    clean_in.append(f"inject @{FIXTURE} wide=0 mode=clean reps=1 dl={DL_FIXTURE} {pools_arg()}")
    clean = par_lines(H, clean_in, 4, per_line_timeout=600, batch=2)
    inj_lines, inj_meta = [], []
    compared = {"fail_from_k_compared": 0, "fail_from_k_not_comparable": 0, "fail_from_k_not_comparable_and_differing": 0,
                "byte_limit": 0, "images_with_schedule_independent_alloc_count": 0,
                "images_with_schedule_dependent_alloc_count": 0, "images_with_schedule_dependent_peak": 0}
    for i, c in enumerate(clean):
        fixture = i == len(sample)
        src = ("@" + FIXTURE) if fixture else sample[i][4][0]
        kind = "fixture" if fixture else sample[i][0]
        nframes = 4 if fixture else len(sample[i][2])
        pc = parse_inject(c)
        if pc is None:
            abnormal(ctx, "clean:" + kind, {"harness": "c07", "line": clean_in[i][:400000]}, clean_in[i], c, H)
            continue
        nread = pc.pop("read", 0)
        if any(set(v[0]) != {"O"} for v in pc.values()):
            ctx.violation("clean-run-fails-under-some-configuration", {"answer": c[:400]},
                          {"harness": "c07", "line": clean_in[i][:400000]}, key="clean-fails:" + kind)
            continue
        if len({v[5] for v in pc.values()}) != 1:
            ctx.violation("samples-differ-between-configurations", {"answer": c[:600]},
                          {"harness": "c07", "line": clean_in[i][:400000]}, key="differs:" + kind)
            continue
        nset = {x for v in pc.values() for x in (v[1], v[2])}
        pset = {x for v in pc.values() for x in (v[3], v[4])}
        ctx.count("inject:images")
        ctx.count("inject:images-single-frame" if nframes == 1 else "inject:images-multi-frame")
        if len(pset) > 1:
            compared["images_with_schedule_dependent_peak"] += 1
        lo, hi = min(nset), max(nset)
        compared["images_with_schedule_independent_alloc_count" if lo == hi
                 else "images_with_schedule_dependent_alloc_count"] += 1
        # which k are the SAME fault under every schedule?
        #  k < nread: the k-th allocation happens inside JxlImage::read, sequential in every configuration
        #  k >= max N: no allocation fails at all
        #  single-frame image, N schedule independent, nread <= k < N: some allocation of the one frame's
        #    own render fails, whichever job it lands in -> the render must fail (error slot)
        #  multi-frame image, nread <= k < N: the failing allocation may land in a speculative reference
        #    render (FrameRenderHandle::run drops its error) or in the keyframe itself, depending on the
        #    schedule: not the same fault, not compared (recorded)
        ks = {0, 1, nread // 2, max(0, nread - 1), hi, hi + 1}
        mid = {nread, (nread + lo) // 2, max(0, lo - 2), max(0, lo - 1),
               ctx.rng.randrange(nread, lo + 1), ctx.rng.randrange(nread, lo + 1)}
        if fixture:
            ks, mid = {nread // 2, hi}, {max(0, lo - 1)}
        for k in sorted(ks | mid):
            comparable = k < nread or k >= hi or (nframes == 1 and lo == hi)
            inj_lines.append(f"inject {src} wide=0 mode=failfrom v={k} reps={1 if fixture else ireps} dl={DL_FIXTURE if fixture else DL} {pools_arg()}")
            inj_meta.append((kind, "failfrom", k, (nread, lo, hi), comparable, nframes == 1))
        # byte limits far from the (possibly schedule dependent) peak: every schedule must agree there
        pmax, pmin = max(pset), min(pset)
        for lim in (pmin // 4, 4 * pmax + 65536):
            inj_lines.append(f"inject {src} wide=0 mode=limit v={lim} reps={1 if fixture else ireps} dl={DL_FIXTURE if fixture else DL} {pools_arg()}")
            inj_meta.append((kind, "limit", lim, (pmin, pmax), True, nframes == 1))
    progress(ctx, f"clean runs done, {len(inj_lines)} injection lines to go")
    inj = par_lines(H, inj_lines, 4, per_line_timeout=600, batch=4)
    progress(ctx, "injection lines done")
    for l, meta, o in zip(inj_lines, inj_meta, inj):
        kind, mode, v, n, comparable, single_frame = meta
        ctx.count("inject:" + mode)
        pi = parse_inject(o)
        replay = {"harness": "c07", "line": l[:400000], "what": f"{mode} {v} (clean run: {n})"}
        if pi is None:
            abnormal(ctx, f"inject-{mode}:{kind}", replay, l, o, H)
            continue
        pi.pop("read", None)
        letters = {ch for v_ in pi.values() for ch in v_[0]}
        for ch in letters:
            ctx.count("inject-outcome:" + ch)
        if "H" in letters and letters != {"H"}:
            o2 = confirm(H, l)
            pi2 = parse_inject(o2)
            if pi2 is None:
                abnormal(ctx, f"inject-{mode}:{kind}", replay, l, o2, H)
                continue
            pi2.pop("read", None)
            pi, o = pi2, o2
            letters = {ch for v_ in pi.values() for ch in v_[0]}
        if letters == {"H"}:
            ctx.count("consistent-hang-under-injected-failure")
            ctx.notes.setdefault("defects_outside_C07", []).append(
                {"kind": kind, "what": "render never returns after an injected allocation failure, in every configuration (C08: a failed blend leaves the handle in Rendering)", "line": l[:200] + "..."})
            continue
        if "H" in letters and comparable:
            ctx.violation("hang-under-some-configurations-only", {"answer": o[:900], "mode": mode, "value": v}, replay,
                          key=f"hang-differs:{mode}")
            continue
        if not comparable:
            compared["fail_from_k_not_comparable"] += 1
            if len(letters) != 1:
                compared["fail_from_k_not_comparable_and_differing"] += 1
            continue
        compared["fail_from_k_compared" if mode == "failfrom" else "byte_limit"] += 1
        if "P" in letters:
            if len(letters) == 1:
                ctx.count("consistent-panic-under-injected-failure")
                ctx.notes.setdefault("defects_outside_C07", []).append({"kind": kind, "what": "panic under injected allocation failure in every configuration", "line": l[:300]})
            else:
                ctx.violation("panic-under-injected-failure-in-some-configurations", {"answer": o[:400]}, replay, key="inject-panic:" + kind)
        elif len(letters) != 1:
            ctx.violation("success-or-failure-depends-on-configuration",
                          {"answer": o[:900], "mode": mode, "value": v, "clean (read allocs, min N, max N) or (min peak, max peak)": n},
                          replay, key=f"outcome-differs:{mode}")
        elif "O" in letters and len({v_[5] for v_ in pi.values()}) != 1:
            ctx.violation("samples-differ-between-configurations", {"answer": o[:900]}, replay, key="differs-under-injection:" + kind)
        elif mode == "failfrom" and single_frame and n[1] == n[2] and n[0] <= v < n[1] and letters == {"O"}:
            # the model's error-presence theorem: the slot is Err iff some job failed. Here an
            # allocation inside the one frame's render failed in every configuration, yet every
            # configuration returned Ok: a job failure that never reached the slot.
            ctx.violation("job-failure-not-reported-by-any-configuration",
                          {"answer": o[:900], "k": v, "clean (read allocs, min N, max N)": n}, replay,
                          key="failure-swallowed:" + kind)
    ctx.notes["injection_compared"] = compared
    ctx.notes["injection_how"] = (
        "clean runs first: allocation calls made by JxlImage::read (R), total N and peak outstanding bytes per "
        "configuration. H1 'fail-from-k' fails the k-th and every later tracked allocation IN GLOBAL ORDER, and that "
        "order differs between schedules, so the Ok/Err outcome is compared across configurations only where k "
        "denotes the same fault in every schedule: k < R (inside the sequential read), k >= max N (no fault), and, "
        "for single-frame images with schedule-independent N, every R <= k < N (some allocation of the one frame's "
        "own render fails, in whichever job: the shared error slot must turn that into Err). For multi-frame images "
        "R <= k < N is NOT comparable: with a pool the reference frames in the four slots are rendered speculatively "
        "in the background (do_render: pool.spawn(ref_handle.run)) whose errors are dropped by design, with none() "
        "they are rendered first and in line, so the same k hits a dropped speculative render under one schedule and "
        "the keyframe under another (observed; counted as fail_from_k_not_comparable_and_differing). Byte limits are "
        "compared far below the smallest and far above the largest observed peak only: the instantaneous tracked "
        "total is inherently schedule dependent (parallel jobs and speculative renders hold buffers at the same "
        "time), a limit between two schedules' peaks separates them by design and is not reported.")
    ctx.assumptions += [
        "real interleavings are sampled (7 pool configurations x repetitions x 4 concurrent callers on this "
        "16-core machine), not enumerated; the theorems quantify over all interleavings of the MODEL",
        "that the Rust jobs have the footprints the model declares (no job touches another job's sub-grid) is "
        "C02's partial subject; rayon's scope/for_each (every job exactly once, join at the end) and std::sync "
        "(Mutex, RwLock, Once, Condvar, coherence of relaxed atomics) are trusted",
        "only Modular frames can be produced offline: the VarDCT group jobs, the noise convolution jobs and the "
        "EPF sigma scratch with a partially loaded VarDCT frame are covered by the model and the source pins only",
        "nested fork-joins inside a job are flattened in the model; memory limits are outside the model",
    ]
