"""Shared by C08 and C20: worker driving (hang detection), image description -> model config,
scenario construction, the property oracle and the model comparison."""
import json, os, re, time
from vlib import *

FIXTURE = os.path.join(REPO, "crates/jxl-oxide-tests/tests/cms/cmyk_layers.jxl")
MOD_MIN = os.path.join(VERIF, "design-probes", "inputs", "mod_min.jxl")
CRAFT_DIR = os.path.join(VERIF, "corpus", "c08")


class Img:
    def __init__(self, name, path):
        self.name, self.path = name, path
        self.desc = None          # raw describe line
        self.frames = None        # parsed frames
        self.keyframes = None     # frame indices
        self.size = None
        self.a0 = self.n = None   # allocations after open / after clean render of everything
        self.clean = {}           # keyframe number -> hash
        self.clean_ms = 0


def fixture_images(ctx):
    ims = [Img("cmyk_layers", FIXTURE), Img("mod_min", MOD_MIN)]
    try:
        from props import c08_craft
        for name, path in c08_craft.ensure(CRAFT_DIR):
            ims.append(Img(name, path))
    except ImportError:
        pass
    return ims


# ---- worker ---------------------------------------------------------------------------------------

def run_scenarios(ctx, scenarios, deadline_ms, max_hangs=8, env=None):
    """scenarios: list of lists of op lines (each starting with open/openfail). Returns for each
    scenario (outputs, status) with status in ok|hang|crash|skipped. A worker that detects a hang
    prints HANG and exits; it is restarted on the next scenario."""
    res = [None] * len(scenarios)
    start, hangs = 0, 0
    while start < len(scenarios):
        if hangs >= max_hangs:
            for i in range(start, len(scenarios)):
                res[i] = ([], "skipped")
            break
        lines = [f"deadline {deadline_ms}"]
        for sc in scenarios[start:]:
            lines += sc
        # generous: a batch must never be cut off by this limit (the worker enforces the deadline per call)
        t_lim = 600 + (len(scenarios) - start) * max(1.0, deadline_ms / 1000.0 * 0.3) + 0.02 * len(lines)
        out, rc, err = ctx.run_impl("c08", lines, timeout=t_lim)
        pos = 1
        i = start
        stopped = False
        while i < len(scenarios):
            n = len(scenarios[i])
            got = out[pos:pos + n]
            if len(got) == n and not any(g.startswith("HANG") for g in got):
                res[i] = (got, "ok")
                pos += n
                i += 1
                continue
            # the worker stopped inside scenario i
            status = "hang" if got and got[-1].startswith("HANG") else "crash"
            if status == "crash":
                got = got + [f"CRASH rc={rc} {err[-300:]}"]
            res[i] = (got, status)
            hangs += 1
            start = i + 1
            stopped = True
            break
        if not stopped:
            break
    return res


def parse_tail(line):
    """'ok <hash> st=.. ev=.. ex=.. allocs=..' -> dict"""
    d = {"raw": line}
    w = line.split()
    d["res"] = w[0] if w else ""
    d["val"] = w[1] if len(w) > 1 and "=" not in w[1] else ""
    for x in w:
        if "=" in x:
            k, v = x.split("=", 1)
            d[k] = v
    return d


# ---- description -> model config ----------------------------------------------------------------

def parse_describe(line):
    parts = [p.strip() for p in line.split("|")]
    head = dict(x.split("=", 1) for x in parts[0].split()[1:])
    kfs = [int(x) for x in head["keyframes"].split(",")] if head.get("keyframes") else []
    frames = []
    for p in parts[1:]:
        w = p.split()
        f = dict(x.split("=", 1) for x in w[1:])
        frames.append(f)
    return kfs, frames


def model_config(kfs, frames, inline=True, var="fixed"):
    fl = []
    for f in frames:
        spawn = [x for x in [f["lf"]] + f["slots"].split(",") if x != "-"]
        fl.append("spawn=%s oprefs=- pre=%s chans=%s reset=%s skip=%s complete=1 ro=%s" % (
            ",".join(spawn) or "-", f["pre"], f["chans"], f["reset"], f["skip"], f["ro"]))
    return "config var=%s inline=%d kf=%s | %s" % (
        var, 1 if inline else 0, ",".join(map(str, kfs)) or "-", " | ".join(fl))


def survey(ctx, im):
    """clean decode + render of every keyframe (twice): allocation counts, hashes, structure"""
    lines = [f"open {im.path} none", "describe", "size"]
    t0 = time.time()
    out, rc, err = ctx.run_impl("c08", lines, timeout=300)
    if rc != 0 or len(out) != 3 or not out[0].startswith("ok"):
        raise RuntimeError(f"cannot open {im.path}: {out} {err[-200:]}")
    im.a0 = int(out[0].split("=")[1])
    im.desc = out[1]
    im.keyframes, im.frames = parse_describe(out[1])
    im.size = tuple(int(x) for x in out[2].split()[1:3])
    nk = len(im.keyframes)
    lines = [f"open {im.path} none"] + [f"render {k}" for k in range(nk)] * 2 + ["allocs"]
    t0 = time.time()
    out, rc, err = ctx.run_impl("c08", lines, timeout=300)
    im.clean_ms = int((time.time() - t0) * 1000)
    if rc != 0 or len(out) != len(lines):
        raise RuntimeError(f"clean render of {im.path} failed: {out[-2:]} {err[-200:]}")
    for k in range(nk):
        a, b = parse_tail(out[1 + k]), parse_tail(out[1 + nk + k])
        if a["res"] != "ok" or b["res"] != "ok" or a["val"] != b["val"]:
            raise RuntimeError(f"clean render of {im.path} keyframe {k} is not reproducible: {a['raw'][:80]} / {b['raw'][:80]}")
        im.clean[k] = a["val"]
    # N = allocations of open + one render of every keyframe
    lines = [f"open {im.path} none"] + [f"render {k}" for k in range(nk)] + ["allocs"]
    out, rc, err = ctx.run_impl("c08", lines, timeout=300)
    im.n = int(out[-1].split("=")[1])
    return im


# ---- scenarios -----------------------------------------------------------------------------------

def scenario(im, pool, k, order, k2=None):
    """op lines and, aligned with them, the phase tag of each line"""
    W, H = im.size
    ops, tags = [], []

    def add(op, tag):
        ops.append(op)
        tags.append(tag)
    if k < im.a0:
        add(f"openfail {im.path} {pool} {k}", "open")
        # if the open fails there is no image: the remaining ops answer bad-op (expected)
    else:
        add(f"open {im.path} {pool}", "open")
        add(f"failfrom {k}", "ctl")
    for kf in order:
        add(f"render {kf}", "A")
    if pool != "none":
        add("settle", "settle")
    for kf in order:
        add(f"render {kf}", "B")
    if pool != "none":
        add("settle", "settle")
    if k2 is not None:
        add(f"failfrom +{k2}", "ctl")
        for kf in order:
            add(f"render {kf}", "B2")
        if pool != "none":
            add("settle", "settle")
    add("failfrom off", "ctl")
    for kf in order:
        add(f"render {kf}", "C")
    if pool != "none":
        add("settle", "settle")
    add(f"region 0 0 {W} {H}", "region")
    for kf in order:
        add(f"render {kf}", "D")
    if pool != "none":
        add("settle", "settle")
    return ops, tags


def site_of(prev_tail):
    """where the marker was left, from the trace of the call that left it"""
    ev = (prev_tail or {}).get("ev", "")
    evs = [e.split(":")[-1] for e in ev.split(",")]
    # a composite that was entered and whose error exit is not followed by done_render
    for j, e in enumerate(evs):
        if e.startswith("cxe") and (j + 1 >= len(evs) or not evs[j + 1].startswith("dl")):
            return "blend-composite"
    if any(e.startswith("ce") for e in evs) and not any(e.startswith(("cxo", "cxe")) for e in evs):
        return "blend-composite"
    if any(e.startswith("oe") for e in evs):
        return "render-op"
    return "unknown"


def check_case(ctx, im, pool, k, order, k2, ops, tags, outs, status, use_model, model_out=None):
    """property oracle on the implementation's own answers, then the model diff"""
    replay = {"image": im.path, "pool": pool, "k": k, "k2": k2, "keyframe_order": order,
              "ops": ops, "impl": [o[:300] for o in outs],
              "how": "feed ops to harness/target/debug/c08 (one answer line per op)"}
    case_key = (im.name, pool, k, k2, tuple(order))
    failed_before = False
    later_call = False
    prev = None
    bad = False
    for j, op in enumerate(ops):
        if j >= len(outs):
            break
        o = outs[j]
        tag = tags[j]
        if tag == "open":
            ctx.count("open:" + o.split()[0] + ("" if o.startswith("ok") else ":" + " ".join(o.split()[1:2])))
            if o.startswith("panic"):
                ctx.violation("panic-while-opening", o[:200], replay, key="panic:open:" + o.split()[1] if len(o.split()) > 1 else "panic:open")
                bad = True
            if not o.startswith("ok"):
                break           # no image: nothing else to check
            continue
        if tag in ("ctl",):
            continue
        if tag == "region":
            if "Rendering" in o or "Locked" in o:
                ctx.violation("marker-survives-reset", o[:200], replay, key="stuck-rendering:after-region")
                bad = True
            prev = None
            continue
        if tag == "settle":
            if o.startswith("STUCK"):
                ctx.violation("handle-left-rendering",
                              f"{im.name} pool={pool} k={k}: nobody is running but a handle stays Rendering: {o[:200]}",
                              replay, key="stuck-rendering:" + site_of(prev))
                bad = True
            continue
        # render
        t = parse_tail(o)
        phase = tag
        if failed_before:
            later_call = True
        if o.startswith("HANG"):
            site = site_of(prev)
            ctx.violation("later-call-never-returns",
                          f"{im.name} pool={pool}: after failing from allocation {k}, `{op}` (phase {phase}) did not "
                          f"return within the deadline; states {t.get('st')}; marker left by {site}",
                          replay, key="hang:" + site)
            ctx.count("hang")
            bad = True
            break
        if o.startswith("CRASH"):
            ctx.violation("worker-crashed", o[:300], replay, key="crash")
            bad = True
            break
        if t["res"] == "panic":
            ctx.violation("panic-in-render", o[:300], replay, key="panic:" + (t["val"] or "?"))
            bad = True
            prev = t
            continue
        ctx.count(f"{phase}:{t['res']}" + (":" + t["val"] if t["res"] == "err" else ""))
        if t["res"] == "err":
            failed_before = True
        st = t.get("st", "")
        if pool == "none" and ("Rendering" in st or "Locked" in st) and not bad:
            ctx.violation("handle-left-rendering",
                          f"{im.name}: after `{op}` (phase {phase}, fail-from {k}) returned `{t['res']} {t['val']}` "
                          f"the handle states are {st}",
                          replay, key="stuck-rendering:" + site_of(t))
            bad = True
        if t["res"] == "ok":
            kf = int(op.split()[1])
            if t["val"] != im.clean[kf]:
                ctx.violation("success-differs-from-clean-render",
                              f"{im.name}: `{op}` (phase {phase}, fail-from {k}) returned samples {t['val']} "
                              f"but a never-failed render gives {im.clean[kf]}", replay, key="wrong-samples")
                bad = True
        ex = t.get("ex", "-")
        if ex != "-":
            for fi, c in enumerate(ex.split(",")):
                if int(c.split("/")[3]) > 1:
                    ctx.violation("two-executions-at-once",
                                  f"{im.name}: frame {fi} had {c.split('/')[3]} executions running at once", replay,
                                  key="double-execution")
                    bad = True
        prev = t
    ctx.case(case_key, failed_before and later_call)
    if bad or not use_model or pool != "none" or model_out is None:
        return
    # model diff (deterministic pool only)
    for j, op in enumerate(ops):
        if j >= len(outs) or j >= len(model_out) or model_out[j] is None:
            continue
        mo, io = model_out[j], outs[j]
        if tags[j] == "region":
            if mo.split("st=")[-1] != io.split("st=")[-1]:
                ctx.failed_obligations.append(f"correspondence reset_cache: impl {io[:80]!r} model {mo[:80]!r} ({im.name} k={k})")
            continue
        ti, tm = parse_tail(io), parse_tail(mo)
        want = (ti["res"], ti["val"] if ti["res"] == "err" else "", ti.get("st"), ti.get("ev"),
                ",".join("/".join(c.split("/")[:2]) for c in ti.get("ex", "-").split(",")))
        have = (tm["res"], tm["val"] if tm["res"] == "err" else "", tm.get("st"), tm.get("ev"), tm.get("ex"))
        if ti["res"] == "err" and ti["val"].startswith("other"):
            want = (want[0], "other") + want[2:]
        if want != have:
            field = ["result", "error kind", "handle states", "H4 trace", "execution counters"][
                [a == b for a, b in zip(want, have)].index(False)]
            ctx.failed_obligations.append(
                f"correspondence stepThread vs real handles differs in {field} at `{op}` ({im.name} fail-from {k}, "
                f"order {order}): impl {str(want[[a == b for a, b in zip(want, have)].index(False)])[:160]!r} "
                f"model {str(have[[a == b for a, b in zip(want, have)].index(False)])[:160]!r}")
            return
        if tm["res"] == "ok" and tm.get("clean") != "1":
            ctx.failed_obligations.append(f"model returned a value that is not the clean value at `{op}` ({im.name} k={k})")
            return


def model_lines(im, ops, tags, outs, var="fixed"):
    """the model's input for one scenario, aligned with ops (None where the model has no line)"""
    lines, idx = [], []
    lines.append(model_config(im.keyframes, im.frames, True, var))
    idx.append(None)
    for j, op in enumerate(ops):
        if j >= len(outs):
            break
        o = outs[j]
        if tags[j] == "open" and not o.startswith("ok"):
            break
        if tags[j] == "region":
            lines.append("region")
            idx.append(j)
        elif op.startswith("render"):
            if o.startswith(("HANG", "CRASH", "panic")):
                break
            t = parse_tail(o)
            exp = "ok" if t["res"] == "ok" else "err:" + (t["val"] if not t["val"].startswith("other") else "other")
            lines.append(f"render {op.split()[1]} {exp} {t.get('ev', '-')}")
            idx.append(j)
    return lines, idx


def k_values(ctx, im, budget):
    n = im.n
    if n <= budget:
        return list(range(0, n + 1))
    stride = max(1, n // budget)
    ks = set(range(0, n + 1, stride)) | {0, 1, im.a0 - 1, im.a0, im.a0 + 1, n - 1, n}
    ks |= {ctx.rng.randrange(0, n) for _ in range(budget // 8)}
    return sorted(k for k in ks if 0 <= k <= n)


def sweep_image(ctx, im, use_model, pools=("none", "rayon2"), budget=None, double=True):
    if im.n is None:
        survey(ctx, im)
    nk = len(im.keyframes)
    ctx.notes[f"{im.name}"] = {"allocs_after_open": im.a0, "allocs_clean_total": im.n,
                               "frames": len(im.frames), "keyframes": im.keyframes,
                               "clean_hashes": im.clean, "structure": im.desc[:600]}
    deadline = max(4000, 12 * im.clean_ms)
    natural = list(range(nk))
    cases = []
    if budget is None:
        budget = 600 if ctx.quick else 10 ** 9
    ks = k_values(ctx, im, budget)
    for k in ks:
        orders = [natural]
        if nk > 1:
            orders.append(natural[::-1])
            if not ctx.quick or k % 5 == 0:
                o = natural[:]
                ctx.rng.shuffle(o)
                if o not in orders:
                    orders.append(o)
        for order in orders:
            cases.append(("none", k, order, None))
        # rayon pool: allocation numbering depends on scheduling, the sweep is still a fault sweep
        if "rayon2" in pools and k >= im.a0 and (not ctx.quick or k % 4 == 0):
            cases.append(("rayon2", k, natural, None))
    if not double:
        pass
    elif not ctx.quick:
        # double faults: a second fault point counted from the moment the first one is lifted
        for k in ks:
            if k < im.a0:
                continue
            if im.clean_ms < 300:
                # small image: every second fault point, natural and reversed keyframe order
                for k2 in range(0, max(1, im.n - im.a0), 2):
                    cases.append(("none", k, natural, k2))
                    if nk > 1 and k2 % 4 == 0:
                        cases.append(("none", k, natural[::-1], k2))
            else:
                for k2 in sorted({0, 1, 2, 5, 11, 23, ctx.rng.randrange(0, max(1, im.n - im.a0))}):
                    cases.append(("none", k, natural, k2))
    else:
        for k in ks[::7]:
            if k >= im.a0:
                cases.append(("none", k, natural, ctx.rng.choice([0, 1, 3, 9, 20])))
    scs = [scenario(im, pool, k, order, k2) for (pool, k, order, k2) in cases]
    t0 = time.time()
    res = run_scenarios(ctx, [s[0] for s in scs], deadline)
    ctx.notes[f"{im.name}_impl_s"] = round(time.time() - t0, 1)
    # one model process for all deterministic scenarios
    m_in, m_map = [], []
    if use_model:
        for ci, ((pool, k, order, k2), (ops, tags), (outs, status)) in enumerate(zip(cases, scs, res)):
            if pool != "none" or status == "skipped":
                continue
            lines, idx = model_lines(im, ops, tags, outs)
            for l, j in zip(lines, idx):
                m_in.append(l)
                m_map.append((ci, j))
        m_out, rc, err = ctx.run_model("c08", m_in)
        if rc != 0 or len(m_out) != len(m_in):
            ctx.failed_obligations.append(f"model driver c08 died rc={rc} {err[-200:]}")
            m_out = None
    else:
        m_out = None
    per_case = {}
    if m_out is not None:
        for (ci, j), o in zip(m_map, m_out):
            if j is not None:
                per_case.setdefault(ci, {})[j] = o
            elif not o.startswith("ok") or "wf=1" not in o:
                ctx.failed_obligations.append(f"model rejects the structure of {im.name}: {o}")
    skipped = 0
    for ci, ((pool, k, order, k2), (ops, tags), (outs, status)) in enumerate(zip(cases, scs, res)):
        if status == "skipped":
            skipped += 1
            continue
        mo = None
        if ci in per_case:
            mo = [per_case[ci].get(j) for j in range(len(ops))]
        check_case(ctx, im, pool, k, order, k2, ops, tags, outs, status, use_model, mo)
        if len(ctx.cov["samples"]) < 4 and k >= im.a0 and status == "ok" and pool == "none":
            ctx.sample({"image": im.name, "k": k, "order": order,
                        "answers": [o.split(" ev=")[0][:90] for o in outs[:8]]})
    if skipped:
        ctx.notes[f"{im.name}_skipped_after_repeated_hangs"] = skipped


def replay_file(ctx, path):
    body = json.load(open(path))
    rp = body.get("replay", {})
    ops = rp.get("ops", [])
    out, rc, err = ctx.run_impl("c08", ["deadline 5000"] + ops, timeout=300)
    for op, o in zip(["deadline 5000"] + ops, out):
        print(f"  {op[:70]:70s} -> {o[:160]}")
    if any(o.startswith("HANG") for o in out):
        ctx.violation(body.get("kind", "replayed"), "replayed: " + str(body.get("detail"))[:300], rp, key=body.get("key"))
