"""Builders for C17's hostile inputs: jbrd headers (bit-exact inverse of JpegBitstreamHeader::parse),
stored-only Brotli streams, container boxes. Pure functions of their arguments."""
import struct

ICC_HDR, EXIF_HDR, XMP_HDR = 12, 6, 29


class BW:
    """JPEG XL bit order: LSB-first inside bytes."""
    def __init__(self):
        self.bits = []

    def u(self, n, v):
        assert 0 <= v < (1 << n) or n == 0, (n, v)
        for i in range(n):
            self.bits.append((v >> i) & 1)

    def u32(self, dists, v):
        """dists: four (base, nbits); first that can represent v"""
        for sel, (base, nb) in enumerate(dists):
            if base <= v < base + (1 << nb):
                self.u(2, sel)
                self.u(nb, v - base)
                return
        raise ValueError((dists, v))

    def pad(self):
        while len(self.bits) % 8:
            self.bits.append(0)

    def bytes(self):
        self.pad()
        out = bytearray()
        for i in range(0, len(self.bits), 8):
            b = 0
            for j in range(8):
                b |= self.bits[i + j] << j
            out.append(b)
        return bytes(out)


D_APP_TY = [(0, 0), (1, 0), (2, 1), (4, 2)]
D_NUM_HUFF = [(4, 0), (2, 3), (10, 4), (26, 6)]
D_COUNT = [(0, 0), (1, 0), (2, 3), (0, 8)]
D_VALUE = [(0, 2), (4, 2), (8, 4), (1, 8)]
D_LAST_PASS = [(0, 0), (1, 0), (2, 0), (3, 3)]
D_NUM_POINTS = [(0, 0), (1, 2), (4, 4), (20, 16)]
D_BLOCK = [(0, 0), (1, 3), (9, 5), (41, 28)]
D_NUM_RUNS = [(1, 0), (2, 2), (5, 4), (20, 8)]
D_TAIL = [(0, 0), (1, 8), (257, 16), (65793, 22)]


def default_header():
    return {
        "is_gray": 0,
        "markers": [0xd9],
        "app": [],                      # (ty, length)
        "com": [],                      # lengths (1..65536)
        "quant": [(0, 0, 1)],           # (precision, index, is_last); 1..4 tables
        "comp_type": 0, "comp_ids": [], "q_idx": [0],
        # (is_ac, id, is_last, counts, values 0..256); at least one value (the end marker), none of length 0
        "huff": [(0, 0, 0, [0, 1, 1] + [0] * 14, [0, 256])] * 4,
        "scans": [],                    # dict(ss, se, al, ah, comps=[(c, ac, dc)], last=0, reset=[], ezr=[])
        "restart_interval": 0,
        "intermarker": [],              # lengths 0..65535
        "tail": 0,
        "padding": None,                # (num_bits, bytes)
    }


def encode_header(h):
    w = BW()
    w.u(1, h["is_gray"])
    for m in h["markers"]:
        w.u(6, m - 0xc0)
    for ty, length in h["app"]:
        w.u32(D_APP_TY, ty)
        w.u(16, length - 1)
    for l in h["com"]:
        w.u(16, l - 1)
    w.u(2, len(h["quant"]) - 1)
    for p, i, last in h["quant"]:
        w.u(1, p); w.u(2, i); w.u(1, last)
    w.u(2, h["comp_type"])
    if h["comp_type"] == 3:
        w.u(2, len(h["comp_ids"]) - 1)
        for c in h["comp_ids"]:
            w.u(8, c)
    for q in h["q_idx"]:
        w.u(2, q)
    w.u32(D_NUM_HUFF, len(h["huff"]))
    for is_ac, id_, last, counts, values in h["huff"]:
        w.u(1, is_ac); w.u(2, id_); w.u(1, last)
        for c in counts:
            w.u32(D_COUNT, c)
        assert len(values) == sum(counts)
        for v in values:
            w.u32(D_VALUE, v)
    for s in h["scans"]:
        w.u(2, len(s["comps"]) - 1)
        w.u(6, s["ss"]); w.u(6, s["se"]); w.u(4, s["al"]); w.u(4, s["ah"])
        for c, ac, dc in s["comps"]:
            w.u(2, c); w.u(2, ac); w.u(2, dc)
        w.u32(D_LAST_PASS, s.get("last", 0))
    if 0xdd in h["markers"]:
        w.u(16, h["restart_interval"])
    for s in h["scans"]:
        w.u32(D_NUM_POINTS, len(s.get("reset", [])))
        for d in s.get("reset", []):
            w.u32(D_BLOCK, d)
        w.u32(D_NUM_POINTS, len(s.get("ezr", [])))
        for runs, rl in s.get("ezr", []):
            w.u32(D_NUM_RUNS, runs)
            w.u32(D_BLOCK, rl)
    for l in h["intermarker"]:
        w.u(16, l)
    w.u32(D_TAIL, h["tail"])
    if h["padding"] is None:
        w.u(1, 0)
    else:
        nbits, data = h["padding"]
        w.u(1, 1)
        w.u(24, nbits)
        for b in data[:nbits // 8]:
            w.u(8, b)
        w.u(nbits % 8, (data[nbits // 8] if len(data) > nbits // 8 else 0) & ((1 << (nbits % 8)) - 1))
    return w.bytes()


def header_counts_ok(h):
    """the marker list and the per-marker tables agree in number (what parse derives)"""
    m = h["markers"]
    return (sum(1 for x in m if 0xe0 <= x <= 0xef) == len(h["app"]) and m.count(0xfe) == len(h["com"])
            and m.count(0xda) == len(h["scans"]) and m.count(0xff) == len(h["intermarker"])
            and m[-1] == 0xd9 and 0xd9 not in m[:-1])


def expected_data_len(h):
    return (sum(l for ty, l in h["app"] if ty == 0) + sum(h["com"]) + sum(h["intermarker"]) + h["tail"])


def expected_lens(h):
    """(icc, exif, xmp) as unbounded integers (negative = the subtraction underflows)"""
    icc = sum(l - 5 - ICC_HDR for ty, l in h["app"] if ty == 1)
    exif = next((l - 3 - EXIF_HDR for ty, l in h["app"] if ty == 2), 0)
    xmp = next((l - 3 - XMP_HDR for ty, l in h["app"] if ty == 3), 0)
    return icc, exif, xmp


def app_underflows(h):
    return any((ty == 1 and l < 5 + ICC_HDR) or (ty == 2 and l < 3 + EXIF_HDR) or (ty == 3 and l < 3 + XMP_HDR)
               for ty, l in h["app"])


def brotli_stored(data):
    """a valid Brotli stream made of uncompressed meta-blocks (WBITS=16)"""
    bits = [0]                                   # WBITS = 16
    out = bytearray()

    def flush():
        nonlocal bits
        while len(bits) % 8:
            bits.append(0)
        for i in range(0, len(bits), 8):
            out.append(sum(bits[i + j] << j for j in range(8)))
        bits = []
    pos = 0
    while pos < len(data):
        n = min(65536, len(data) - pos)
        bits += [0]                               # ISLAST = 0
        bits += [0, 0]                            # MNIBBLES = 4
        bits += [((n - 1) >> i) & 1 for i in range(16)]
        bits += [1]                               # ISUNCOMPRESSED
        flush()
        out += data[pos:pos + n]
        pos += n
    bits += [1, 1]                                # ISLAST, ISLASTEMPTY
    flush()
    return bytes(out)


SIG = b"\x00\x00\x00\x0cJXL \x0d\x0a\x87\x0a"
FTYP = struct.pack(">I", 20) + b"ftyp" + b"jxl \x00\x00\x00\x00jxl "


def box(ty, payload, mode="n"):
    """mode n: 32-bit size; x: 64-bit size; e: size 0 (extends to end of file)"""
    if mode == "x":
        return struct.pack(">I", 1) + ty + struct.pack(">Q", 16 + len(payload)) + payload
    if mode == "e":
        return struct.pack(">I", 0) + ty + payload
    return struct.pack(">I", 8 + len(payload)) + ty + payload


def container(boxes):
    """boxes: list of (ty, payload, mode) -> (file bytes, [(ty, start, payload_start, end)])"""
    out = SIG + FTYP
    spans = []
    for ty, payload, mode in boxes:
        b = box(ty, payload, mode)
        spans.append((ty, len(out), len(out) + len(b) - len(payload), len(out) + len(b)))
        out += b
    return out, spans
