"""C06 — a region-of-interest render equals the same rectangle of the full render; request history
is irrelevant. Also carries the region-arithmetic half of C05 (blend()/patch() geometry).

Theorems: Props/C06.lean (+ Props/C05Region.lean, built here, audited by the C05 check).
Correspondence:
 (a) every modelled integer function (Model/Region.lean) against the real crates through hook H2
     (`jxl_render::verif_region`) on seeded header parameters x rectangles; the property's
     containment facts are evaluated on the implementation's own outputs first;
 (b) crop-vs-full on the real decoder (fixture `cmyk_layers.jxl` + the 42-byte doc-example stream),
     request sequences of length 1..4, every channel of every keyframe, tolerance 1e-6.
"""
from vlib import *

MODULES = ["JxlModel.Props.C06"]
EXTRA_BUILD = ["JxlModel.Props.C05Region"]
FIXTURE = os.path.join(REPO, "crates/jxl-oxide-tests/tests/cms/cmyk_layers.jxl")
STUB = os.path.join(VERIF, "design-probes/inputs/doc_example_stub.jxl")
I32_MIN, I32_MAX, U32_MAX = -2 ** 31, 2 ** 31 - 1, 2 ** 32 - 1
EPF_RADIUS = {0: 0, 1: 2, 2: 3, 3: 6}      # read off filter/epf.rs: kernel + distance offsets per step


# ---------------------------------------------------------------------------------------------
# interval helpers for the implementation-side oracles (ideal integer arithmetic, [lo, hi))
def iv(l, w): return (l, l + w)
def iv_empty(a): return a[1] <= a[0]
def iv_sub(a, b): return iv_empty(a) or (b[0] <= a[0] and a[1] <= b[1])
def iv_and(a, b): return (max(a[0], b[0]), min(a[1], b[1]))
def iv_dil(a, n): return (a[0] - n, a[1] + n)
def iv_down(a, k): return (a[0] >> k, -((-a[1]) >> k))
def iv_align(a, g): return (a[0] // g * g, -((-a[1]) // g) * g)


def parse_regions(s):
    return [tuple(int(x) for x in part.split()) for part in s.split(" | ")]


def axes(r):
    """region (l,t,w,h) -> (x interval, y interval); an empty region is empty on both axes"""
    if r[2] == 0 or r[3] == 0:
        return (0, 0), (0, 0)
    return iv(r[0], r[2]), iv(r[1], r[3])


# ---------------------------------------------------------------------------------------------
# generators
def g_coord(rng, lim=False):
    k = rng.random()
    if k < 0.45:
        return rng.randint(-40, 300)
    if k < 0.8:
        return rng.choice([0, 8, 64, 128, 256, 512, 1024, 2048, 4096]) * rng.randint(-3, 5) + rng.choice([-1, 0, 0, 1])
    if k < 0.9 or not lim:
        return rng.randint(-2 ** 20, 2 ** 20)
    return rng.choice([I32_MIN, I32_MIN + 1, I32_MIN + rng.randint(0, 4096), I32_MAX, I32_MAX - 1,
                       I32_MAX - rng.randint(0, 4096), -2 ** 30, 2 ** 30, 2 ** 30 + rng.randint(-9, 9)])


def g_size(rng, lim=False):
    k = rng.random()
    if k < 0.12:
        return 0
    if k < 0.55:
        return rng.randint(1, 300)
    if k < 0.85:
        return max(0, rng.choice([8, 64, 128, 256, 1024, 2048]) * rng.randint(1, 4) + rng.choice([-1, 0, 1]))
    if k < 0.93 or not lim:
        return rng.randint(0, 2 ** 20)
    return rng.choice([U32_MAX, U32_MAX - 1, U32_MAX - rng.randint(0, 4096), 2 ** 31, 2 ** 31 - 1, 2 ** 31 + 1,
                       2 ** 30, 2 ** 30 + rng.randint(-9, 9)])


def g_region(rng, lim=False):
    return [g_coord(rng, lim), g_coord(rng, lim), g_size(rng, lim), g_size(rng, lim)]


def g_header(rng, valid=True):
    """returns (dict, hdr line). valid headers obey what Frame::parse / the bundles accept."""
    dims = [1, 2, 7, 8, 9, 63, 64, 65, 100, 127, 128, 129, 255, 256, 257, 300, 511, 512, 513, 1000, 1023, 1024,
            1025, 2047, 2049, 4096, 5000, 65536, 100003]
    big = rng.random() < 0.06
    W = rng.choice(dims) if not big else rng.choice([2 ** 30, 2 ** 30 - 1, 2 ** 24 + 1, 2 ** 20])
    H = rng.choice(dims) if not big else rng.choice([1, 17, 1024, 2 ** 10])
    if rng.random() < 0.5:
        W, H = H, W
    o = rng.choice([1] * 6 + list(range(1, 9)))
    lf = 0 if rng.random() < 0.8 else rng.randint(1, 4)
    ft = 1 if lf else rng.choice([0] * 8 + [2, 3])
    if rng.random() < 0.45:
        x0 = y0 = 0
        fw, fh = W, H
    else:
        k = rng.random()
        fw = max(1, rng.choice(dims[:22]) if k < 0.9 else rng.choice([2 ** 20, 2 ** 30]))
        fh = max(1, rng.choice(dims[:22]))
        if fw * fh > 2 ** 40:
            fh = 1
        mode = rng.random()
        if mode < 0.6:      # partly inside
            x0 = rng.randint(-fw - 2, W + 2)
            y0 = rng.randint(-fh - 2, H + 2)
        elif mode < 0.8:    # wholly outside
            x0 = rng.choice([-fw - rng.randint(0, 50), W + rng.randint(0, 50)])
            y0 = rng.choice([-fh - rng.randint(0, 50), H + rng.randint(0, 50)])
        else:               # far away (limits of the x0/y0 coding)
            x0 = rng.choice([-(2 ** 29 + 9344), 2 ** 29 + 9343, rng.randint(-2 ** 29, 2 ** 29)])
            y0 = rng.choice([-(2 ** 29 + 9344), 2 ** 29 + 9343, rng.randint(-2 ** 29, 2 ** 29)])
        lim = 2 ** 29 + 9344     # range of the x0/y0 coding (UnpackSigned of U32(.., 18688 + u(30)))
        x0 = max(-lim, min(lim - 1, x0)); y0 = max(-lim, min(lim - 1, y0))
        if ft == 1:
            x0 = y0 = 0      # LF frames have no crop
    up = 0 if lf else rng.choice([0, 0, 1, 2, 3])
    ec = []
    for _ in range(rng.choice([0, 0, 1, 2, 3])):
        e = 0 if lf else rng.randint(0, 3)
        lo, hi = max(0, up - e), 6 - e
        ds = rng.randint(lo, hi) if rng.random() < 0.5 else rng.choice([lo, hi, min(hi, lo + 1)])
        ec.append((e, ds))
    epf = rng.choice([0, 0, 1, 2, 3])
    gab = rng.choice([0, 0, 1])
    ycbcr = rng.choice([0, 0, 0, 1])
    gss = rng.randint(0, 3)
    h = dict(W=W, H=H, o=o, x0=x0, y0=y0, fw=fw, fh=fh, ft=ft, lf=lf, up=up, ec=ec, epf=epf, gab=gab,
             ycbcr=ycbcr, gss=gss, valid=True)
    if not valid:
        # one field pushed outside what a header may carry
        k = rng.randrange(6)
        if k == 0: h["fw"] = rng.choice([0, 2 ** 30 + 1, U32_MAX])
        elif k == 1: h["x0"] = rng.choice([I32_MIN, I32_MAX, 2 ** 30])
        elif k == 2: h["lf"] = rng.choice([5, 10, 11])
        elif k == 3: h["up"] = rng.choice([4, 5, 31])
        elif k == 4: h["ec"] = [(rng.randint(0, 3), rng.choice([7, 20, 29, 40]))]
        else: h["W"] = rng.choice([0, 2 ** 31, U32_MAX])
        h["valid"] = False
    line = "hdr {W} {H} {o} {x0} {y0} {fw} {fh} {ft} {lf} {up} {epf} {gab} {ycbcr} {gss} ".format(**h) + \
           " ".join([str(len(h["ec"]))] + [f"{a} {b}" for a, b in h["ec"]])
    return h, line


def oriented_size(h):
    return (h["H"], h["W"]) if h["o"] >= 5 else (h["W"], h["H"])


def g_request(rng, h):
    """a non-empty rectangle inside the (oriented) image, boundary-heavy"""
    W, H = oriented_size(h)

    def span(n):
        k = rng.random()
        pts = sorted({p for p in [0, 1, 7, 8, 9, n - 9, n - 8, n - 1, n, n // 2] + [g + d for g in (128, 256, 512, 1024) for d in (-1, 0, 1)]
                      if 0 <= p <= n})
        if k < 0.15:
            return 0, n
        if k < 0.6 and len(pts) >= 2:
            a, b = sorted(rng.sample(pts, 2))
            return a, b - a
        a = rng.randint(0, n - 1)
        return a, rng.randint(1, min(n - a, rng.choice([1, 8, 300, n])))
    l, w = span(W)
    t, hh = span(H)
    return [l, t, max(1, w), max(1, hh)] if l + max(1, w) <= W and t + max(1, hh) <= H else [0, 0, W, H]


# ---------------------------------------------------------------------------------------------
# implementation-side oracles
def up_passes(ke):
    """need at the coarsest scale for the multi-pass non-separable upsampler (features/upsampling.rs:18..40:
    ke//3 passes of 8x, then one pass of 2^(ke%3); every pass has a 5x5 kernel = radius 2 at its input scale)"""
    return [3] * (ke // 3) + ([ke % 3] if ke % 3 else [])


def need_for_upsampling(a, ke):
    """interval of input samples (scale 2^ke) the upsampler reads to produce the full-res interval a"""
    for f in reversed(up_passes(ke)):
        a = iv_dil(iv_down(a, f), 2)
    return a


def oracle_plumb(h, req, out, force):
    """containment facts the property needs, checked on the regions the real functions returned"""
    F, LP, UV, CP, MR, LR = parse_regions(out)
    kc = h["up"]
    cw = -(-h["fw"] // (1 << kc))
    ch = -(-h["fh"] // (1 << kc))
    if h["lf"]:
        cw = -(-cw // (1 << 3 * h["lf"])); ch = -(-ch // (1 << 3 * h["lf"]))
    if h["ft"] == 2:
        if F != (0, 0, h["fw"], h["fh"]):
            return "reference-only frame is not rendered in full"
    fx, fy = axes(F)
    if h["lf"] == 0 and h["ft"] != 2:
        # the request, mapped by hand for orientation 1 (other orientations: via the model diff)
        if h["o"] == 1:
            ex = iv_and(iv(req[0] - h["x0"], req[2]), (0, h["fw"]))
            ey = iv_and(iv(req[1] - h["y0"], req[3]), (0, h["fh"]))
            if iv_empty(ex) or iv_empty(ey):
                ex = ey = (0, 0)
            if (fx, fy) != (ex, ey):
                return f"frame region {F} is not the request clipped to the frame {ex} {ey}"
    if iv_empty(fx):
        return None
    lx, ly = axes(LP)
    if not (iv_sub(fx, lx) and iv_sub(fy, ly)):
        return "pad_lf_region lost part of the frame region"
    if h["lf"]:
        p = 4 * h["lf"] + 32
        if (lx, ly) != (iv_dil(fx, p), iv_dil(fy, p)):
            return "LF padding is not 4*lf_level+32"
    ux, uy = axes(UV)
    px, py = axes(CP)
    rad = EPF_RADIUS[h["epf"]] + (1 if h["gab"] else 0)
    for (f, l, u, p, cdim, fdim, name) in ((fx, lx, ux, px, cw, h["fw"], "x"), (fy, ly, uy, py, ch, h["fh"], "y")):
        fullc = (0, cdim)
        up_full = (0, cdim if h["lf"] else fdim)     # LF frames are never upsampled
        # (1) the upsampler's output covers the (lf-padded) frame region inside the frame
        if not iv_sub(iv_and(l, up_full), u):
            return f"upsampling_valid_region misses part of the requested region ({name})"
        # (2) colour channels: what the upsampler reads lies in the window it is given and in the
        #     region the earlier stages produced
        need_up = iv_and(need_for_upsampling(l, kc), fullc)
        win = iv_down(u, kc)
        if not iv_sub(need_up, win):
            return f"non-separable upsampling reads outside its window ({name}): need {need_up} window {win}"
        if not iv_sub(iv_and(win, fullc), p):
            return f"upsampling window {win} not inside color_padded_region {p} ({name})"
        # (3) every extra channel: same with its own cumulative shift
        for (e, ds) in h["ec"]:
            ke = e + ds
            edim = -(-up_full[1] // (1 << ke))
            need_e = iv_and(need_for_upsampling(l, ke), (0, edim))
            if not iv_sub(need_e, iv_down(u, ke)):
                return f"extra channel (shift {ke}) upsampling reads outside its window ({name})"
            # its samples are decoded with the group of the colour sample at the same place
            if ke >= kc and not iv_sub(iv_and((need_e[0] << (ke - kc), need_e[1] << (ke - kc)), fullc), p):
                return f"extra channel (shift {ke}) samples needed lie outside the decoded colour region ({name})"
        # (4) restoration filters + chroma upsampling: summed radii of the later stages
        need = iv_dil(need_up, rad)
        if h["ycbcr"]:
            need = iv_align(iv_dil(need, 1), 2)
        need = iv_and(need, fullc)
        if not iv_sub(need, p):
            return f"color_padded_region {p} misses {need} needed by the filter chain ({name})"
        if h["epf"] and not iv_empty(p) and p[0] % 8:
            return f"EPF window not 8-aligned ({name})"
        if not iv_sub(p, fullc):
            return f"color_padded_region leaves the frame ({name})"
    mx, my = axes(MR)
    if not (iv_sub(px, mx) and iv_sub(py, my)):
        return "modular region smaller than color_padded_region"
    if force and not (iv_sub((0, cw), mx) and iv_sub((0, ch), my)):
        return "palette/squeeze frame not decoded in full"
    return None


def oracle_groups(h, plumb_out, out):
    F, LP, UV, CP, MR, LR = parse_regions(plumb_out)
    sel, lfsel = [p.strip() for p in (out + " ").split("|")]
    kc = h["up"]
    cw = -(-h["fw"] // (1 << kc)); ch = -(-h["fh"] // (1 << kc))
    if h["lf"]:
        cw = -(-cw // (1 << 3 * h["lf"])); ch = -(-ch // (1 << 3 * h["lf"]))
    gd = 128 << h["gss"]
    for (txt, region, dimw, dimh, what) in ((sel, MR, cw, ch, "group"), (lfsel, LR, -(-cw // 8), -(-ch // 8), "LF group")):
        if txt == "toomany":
            continue
        got = set(int(x) for x in txt.split())
        per_row = -(-cw // gd) if what == "group" else -(-cw // (gd * 8))
        rows = -(-ch // gd) if what == "group" else -(-ch // (gd * 8))
        rx, ry = axes(region)
        for g in range(per_row * rows):
            gx, gy = iv((g % per_row) * gd, gd), iv((g // per_row) * gd, gd)
            meets = not iv_empty(iv_and(gx, iv_and(rx, (0, dimw)))) and not iv_empty(iv_and(gy, iv_and(ry, (0, dimh))))
            if meets and g not in got:
                return f"{what} {g} holds samples of the region {region} but is not selected"
        if any(g >= per_row * rows for g in got):
            return f"selected {what} index out of range"
    return None


def blend_expected(a):
    x0, y0, fw, fh = a[0:4]
    NG, OUT = a[4:8], a[8:12]
    hb, bx0, by0 = a[12:15]
    BG = a[15:19]
    has_base = bool(hb) and BG[2] > 0 and BG[3] > 0
    T = (BG[0] + bx0 - x0, BG[1] + by0 - y0, BG[2], BG[3]) if has_base else tuple(OUT)
    # the new frame's grid is a non-empty part of the frame (an empty grid makes `as_subgrid()` assert)
    in_contract = NG[2] > 0 and NG[3] > 0 and NG[0] >= 0 and NG[1] >= 0 and NG[0] + NG[2] <= fw and NG[1] + NG[3] <= fh
    if has_base:
        ob = (OUT[0] + x0 - bx0, OUT[1] + y0 - by0, OUT[2], OUT[3])
        in_contract = in_contract and BG[0] <= ob[0] and BG[1] <= ob[1] and \
            ob[0] + ob[2] <= BG[0] + BG[2] and ob[1] + ob[3] <= BG[1] + BG[3]
    cells = []
    written = 0
    for cy in range(T[3]):
        for cx in range(T[2]):
            px, py = T[0] + cx, T[1] + cy
            inside = (NG[0] <= px < NG[0] + NG[2] and NG[1] <= py < NG[1] + NG[3] and 0 <= px < fw and 0 <= py < fh
                      and OUT[0] <= px < OUT[0] + OUT[2] and OUT[1] <= py < OUT[1] + OUT[3])
            if inside:
                cells.append((py - NG[1]) * NG[2] + (px - NG[0]) + 1)
                written += 1
            else:
                cells.append(-(cy * T[2] + cx + 1) if has_base else 0)
    # size of the intersection the spec defines (all of it must be written)
    ix = iv_and(iv_and(iv(NG[0], NG[2]), (0, fw)), iv(OUT[0], OUT[2]))
    iy = iv_and(iv_and(iv(NG[1], NG[3]), (0, fh)), iv(OUT[1], OUT[3]))
    spec = 0 if NG[2] == 0 or NG[3] == 0 or OUT[2] == 0 or OUT[3] == 0 else max(0, ix[1] - ix[0]) * max(0, iy[1] - iy[0])
    return in_contract, T, cells, written == spec


def patch_expected(a):
    BG, RG = a[0:4], a[4:8]
    px0, py0, pw, ph, tx, ty = a[8:14]
    in_contract = RG[0] <= px0 and RG[1] <= py0 and px0 + pw <= RG[0] + RG[2] and py0 + ph <= RG[1] + RG[3]
    cells = []
    for cy in range(BG[3]):
        for cx in range(BG[2]):
            x, y = BG[0] + cx, BG[1] + cy
            if tx <= x < tx + pw and ty <= y < ty + ph:
                qx, qy = px0 + x - tx, py0 + y - ty
                if RG[0] <= qx < RG[0] + RG[2] and RG[1] <= qy < RG[1] + RG[3]:
                    cells.append((qy - RG[1]) * RG[2] + (qx - RG[0]) + 1)
                    continue
            cells.append(-(cy * BG[2] + cx + 1))
    return in_contract, cells


def g_blend(rng):
    fw, fh = rng.randint(1, 10), rng.randint(1, 10)
    x0, y0 = rng.randint(-12, 12), rng.randint(-12, 12)
    k = rng.random()
    if k < 0.55:
        NG = [0, 0, fw, fh]
    elif k < 0.85:
        l, t = rng.randint(0, fw - 1), rng.randint(0, fh - 1)
        NG = [l, t, rng.randint(1, fw - l), rng.randint(1, fh - t)]
    else:       # out of contract: grid sticks out of the frame
        NG = [rng.randint(-3, 2), rng.randint(-3, 2), rng.randint(0, fw + 3), rng.randint(0, fh + 3)]
    k = rng.random()
    if k < 0.2:   # wholly outside
        OUT = [rng.choice([-9 - rng.randint(0, 3), fw + rng.randint(0, 3)]), rng.randint(-4, fh), rng.randint(0, 5), rng.randint(0, 5)]
    elif k < 0.3:
        OUT = [rng.randint(-3, 3), rng.randint(-3, 3), rng.choice([0, 3]), rng.choice([0, 3])]
    else:
        l, t = rng.randint(-5, fw), rng.randint(-5, fh)
        OUT = [l, t, rng.randint(1, fw + 6), rng.randint(1, fh + 6)]
    hb = rng.random() < 0.6
    bx0, by0 = rng.randint(-6, 6), rng.randint(-6, 6)
    ob = [OUT[0] + x0 - bx0, OUT[1] + y0 - by0, OUT[2], OUT[3]]
    k = rng.random()
    if k < 0.8:
        ml, mt, mr, mb = (rng.randint(0, 3) for _ in range(4))
        BG = [ob[0] - ml, ob[1] - mt, ob[2] + ml + mr, ob[3] + mt + mb]
    elif k < 0.9:
        BG = [0, 0, 0, 0]
    else:
        BG = [ob[0] + rng.randint(-2, 2), ob[1] + rng.randint(-2, 2), max(0, ob[2] + rng.randint(-2, 2)), max(0, ob[3] + rng.randint(-2, 2))]
    if not hb:
        bx0 = by0 = 0
        BG = [0, 0, 0, 0]
    return [x0, y0, fw, fh] + NG + OUT + [int(hb), bx0, by0] + BG


def g_patch(rng):
    BG = [rng.randint(-4, 4), rng.randint(-4, 4), rng.randint(1, 10), rng.randint(1, 10)]
    RG = [rng.choice([0, 0, rng.randint(-2, 2)]), rng.choice([0, 0, rng.randint(-2, 2)]), rng.randint(1, 10), rng.randint(1, 10)]
    if rng.random() < 0.8:
        px0 = rng.randint(max(0, RG[0]), max(0, RG[0] + RG[2] - 1)); py0 = rng.randint(max(0, RG[1]), max(0, RG[1] + RG[3] - 1))
        pw = rng.randint(1, max(1, RG[0] + RG[2] - px0)); ph = rng.randint(1, max(1, RG[1] + RG[3] - py0))
    else:
        px0, py0, pw, ph = rng.randint(0, 8), rng.randint(0, 8), rng.randint(1, 8), rng.randint(1, 8)
    tx, ty = rng.randint(BG[0] - 6, BG[0] + BG[2] + 2), rng.randint(BG[1] - 6, BG[1] + BG[3] + 2)
    return BG + RG + [px0, py0, pw, ph, tx, ty]


# ---------------------------------------------------------------------------------------------
def differential(ctx, ok):
    rng = ctx.rng
    scale = 1 if ctx.quick else 12
    lines, meta = [], []     # meta: dict(kind, contract, h, args...)

    def add(line, **m):
        lines.append(line)
        meta.append(m)

    h0, l0 = g_header(rng)
    add("modflags", kind="modflags", contract=False)
    # pure Region operations
    for _ in range(60 * scale):
        lim = rng.random() < 0.35
        r, s = g_region(rng, lim), g_region(rng, lim)
        R, S = " ".join(map(str, r)), " ".join(map(str, s))
        add(f"translate {R} {g_coord(rng, lim)} {g_coord(rng, lim)}", kind="translate")
        add(f"intersection {R} {S}", kind="intersection")
        if rng.random() < 0.5:   # overlapping pairs
            s2 = [r[0] + rng.randint(-9, 9), r[1] + rng.randint(-9, 9), max(0, r[2] + rng.randint(-9, 9)), max(0, r[3] + rng.randint(-9, 9))]
            if I32_MIN <= s2[0] <= I32_MAX and I32_MIN <= s2[1] <= I32_MAX and s2[2] <= U32_MAX and s2[3] <= U32_MAX:
                S2 = " ".join(map(str, s2))
                add(f"intersection {R} {S2}", kind="intersection")
                add(f"contains {R} {S2}", kind="contains")
                add(f"merge {R} {S2}", kind="merge")
        add(f"merge {R} {S}", kind="merge")
        add(f"contains {R} {S}", kind="contains")
        add(f"isempty {R}", kind="isempty")
        add(f"pad {R} {rng.choice([0, 1, 2, 5, 6, 36, 48, rng.randint(0, 100), 2 ** 31 - 1, 2 ** 31]) if lim else rng.choice([0, 1, 2, 5, 6, 36, 40, 44, 48])}", kind="pad")
        k = rng.choice([0, 1, 2, 3, 3, 4, 5, 6, 9, 12]) if not lim or rng.random() < 0.7 else rng.choice([30, 31, 32, 33])
        add(f"down {R} {k}", kind="down")
        add(f"downsep {R} {rng.randint(0, 3)} {rng.randint(0, 3)}", kind="downsep")
        add(f"up {R} {k}", kind="up")
        add(f"align {R} {rng.choice([1, 2, 4, 8, 8, 8, 128, 256, 512, 1024])}", kind="align")
        W, H = rng.choice([1, 8, 100, 4096, 2 ** 30]), rng.choice([1, 9, 300, 2 ** 30])
        add(f"orient {R} {W} {H} {rng.randint(1, 8)}", kind="orient")
    # header-driven functions
    for _ in range(140 * scale):
        valid = rng.random() < 0.9
        h, hl = g_header(rng, valid)
        add(hl, kind="hdr", h=h)
        add("dims", kind="dims", h=h, contract=h["valid"])
        for _ in range(4):
            req = g_request(rng, h) if h["valid"] and rng.random() < 0.85 else g_region(rng, rng.random() < 0.3)
            W, H = oriented_size(h)
            inside = req[0] >= 0 and req[1] >= 0 and req[2] >= 1 and req[3] >= 1 and req[0] + req[2] <= W and req[1] + req[3] <= H
            contract = h["valid"] and inside
            R = " ".join(map(str, req))
            force = int(rng.random() < 0.25)
            add(f"plumb {R} {force}", kind="plumb", h=h, req=req, contract=contract, force=force)
            add(f"groups {R} {force}", kind="groups", h=h, req=req, contract=contract, force=force)
            add(f"i2f {R} {rng.randint(0, 1)}", kind="i2f", h=h, contract=contract)
            add(f"composite {R}", kind="composite", h=h, contract=contract)
            # the helper functions on arbitrary (frame-coordinate) regions
            q = g_region(rng, rng.random() < 0.2)
            Q = " ".join(map(str, q))
            add(f"padlf {Q}", kind="padlf", h=h)
            add(f"padup {Q}", kind="padup", h=h)
            add(f"padcolor {Q}", kind="padcolor", h=h)
            add(f"compositeo {Q}", kind="compositeo", h=h)
            add(f"modreg {Q} {rng.randint(0, 2)} {rng.randint(0, 1)}", kind="modreg", h=h)
            g = rng.randint(0, 40)
            add(f"groupcol {g} {abs(q[0])} {abs(q[1])} {q[2]} {q[3]}", kind="groupcol", h=h)
            add(f"lfgroupcol {g} {abs(q[0])} {abs(q[1])} {q[2]} {q[3]}", kind="lfgroupcol", h=h)
    # blend()/patch() geometry through the probes
    for _ in range(220 * scale):
        a = g_blend(rng)
        add("blend " + " ".join(map(str, a)), kind="blend", a=a)
    for _ in range(120 * scale):
        a = g_patch(rng)
        add("patch " + " ".join(map(str, a)), kind="patch", a=a)

    impl, rc, err = ctx.run_impl("c06", lines, args=(FIXTURE,))
    if rc != 0 or len(impl) != len(lines):
        ctx.failed_obligations.append(f"harness c06 died rc={rc} after {len(impl)}/{len(lines)} lines: {err[-300:]}")
        return
    model = None
    if ok:
        model, rc2, err2 = ctx.run_model("c06", lines)
        if rc2 != 0 or len(model) != len(lines):
            ctx.failed_obligations.append(f"model driver c06 died rc={rc2} {err2[-300:]}")
            model = None

    def replay_of(i):
        """the header line in force + the op"""
        j = i
        while j >= 0 and meta[j].get("kind") != "hdr":
            j -= 1
        ls = ([lines[j]] if j >= 0 else []) + [lines[i]]
        return {"lines": ls, "impl": impl[i], "model": model[i] if model else None,
                "how": f"printf '%s\\n' <lines> | harness/target/debug/c06 {FIXTURE}"}

    diffs = 0
    last_plumb = None
    for i, (line, m, io) in enumerate(zip(lines, meta, impl)):
        kind = m["kind"]
        mo = model[i] if model else None
        status = "panic" if io.startswith("panic") else io.split()[0] if io else "?"
        ctx.count(f"{kind}:{status}")
        if kind == "modflags":
            if io != "ok 0 1 1":
                ctx.failed_obligations.append(f"harness could not build palette/squeeze Modular headers: {io}")
            continue
        if kind == "hdr":
            if mo is not None and mo.startswith("ok v=") and (mo == "ok v=1") != m["h"]["valid"]:
                ctx.failed_obligations.append(f"generator and model disagree on header validity: {line} -> {mo}")
            continue
        contract = m.get("contract", False)
        nontrivial = kind in ("plumb", "groups", "blend", "patch", "composite") or status != "ok"
        ctx.case(line if kind not in ("plumb", "groups", "i2f", "composite", "dims", "padlf", "padup", "padcolor",
                                      "compositeo", "modreg", "groupcol", "lfgroupcol") else (replay_of(i)["lines"][0], line),
                 nontrivial)
        # -- implementation-side oracle first ------------------------------------------------
        if status == "panic":
            if contract:
                ctx.violation("panic-on-valid-header-and-in-image-request",
                              f"{kind}: {io}", replay_of(i), key=f"c06:panic:{io.split()[1].split('_')[0]}")
                continue
            ctx.count("out-of-contract panic site " + io.split()[1].split("_")[0])
        elif status == "ok":
            bad = None
            if kind == "plumb":
                last_plumb = (i, io)
                if contract:
                    bad = oracle_plumb(m["h"], m["req"], io[3:], m["force"])
            elif kind == "groups" and contract and last_plumb and last_plumb[0] == i - 1:
                bad = oracle_groups(m["h"], last_plumb[1][3:], io[3:])
            elif kind == "blend":
                in_contract, T, cells, complete = blend_expected(m["a"])
                if in_contract:
                    parts = io[3:].split(" | ")
                    got_T = tuple(int(x) for x in parts[0].split())
                    got = [int(x) for x in parts[1].split()] if len(parts) > 1 and parts[1] else []
                    if got_T != tuple(T):
                        bad = f"blend target region {got_T}, expected {tuple(T)}"
                    elif got != cells:
                        k = next((j for j, (x, y) in enumerate(zip(got, cells)) if x != y), min(len(got), len(cells)))
                        bad = f"blend wrote cell {k} = {got[k] if k < len(got) else None}, the crop intersection requires {cells[k] if k < len(cells) else None}"
                else:
                    ctx.count("blend out-of-contract (noted)")
            elif kind == "patch":
                in_contract, cells = patch_expected(m["a"])
                if in_contract:
                    parts = io[3:].split(" | ")
                    got = [int(x) for x in parts[1].split()] if len(parts) > 1 and parts[1] else []
                    if got != cells:
                        k = next((j for j, (x, y) in enumerate(zip(got, cells)) if x != y), 0)
                        bad = f"patch wrote cell {k} = {got[k] if k < len(got) else None}, expected {cells[k] if k < len(cells) else None}"
                else:
                    ctx.count("patch out-of-contract (noted)")
            if bad:
                ctx.violation("implementation-violates-region-containment", bad, replay_of(i), key=f"c06:{kind}:{bad[:40]}")
                continue
        if kind == "blend" and status == "panic":
            in_contract = blend_expected(m["a"])[0]
            if in_contract:
                ctx.violation("blend-panics-on-consistent-rectangles", io, replay_of(i), key="c06:blend-panic")
                continue
        # -- model vs implementation ------------------------------------------------------------
        if mo is None:
            continue
        if mo == "bad-op" or io == "bad-op":
            if mo != io and diffs < 10:
                diffs += 1
                ctx.failed_obligations.append(f"op rejected by one side only: {line!r}: impl {io!r} model {mo!r}")
            continue
        if mo == "unfit" and io.endswith("err"):
            # out-of-contract rectangles (e.g. a base grid that does not cover the region): the model
            # calls them unfit, the implementation answers with an error
            ctx.count(f"{kind}:model-unfit/impl-err")
            continue
        if mo == "unfit":
            ctx.count(f"{kind}:model-unfit/impl-{status}")
            if contract and diffs < 10:
                diffs += 1
                ctx.failed_obligations.append(f"model says the Rust arithmetic leaves its types for an in-contract case: {replay_of(i)['lines']}")
            continue
        if mo != io and diffs < 10:
            diffs += 1
            ctx.failed_obligations.append(
                f"correspondence differs for {replay_of(i)['lines']}: impl {io[:200]!r} model {mo[:200]!r}")
    ctx.sample({"lines": lines[1:4], "impl": impl[1:4]})
    j = next((i for i, m in enumerate(meta) if m["kind"] == "plumb" and m.get("contract")), None)
    if j is not None:
        ctx.sample(replay_of(j))


def boundary_points(n, extra):
    pts = {0, 1, 7, 8, 9, n - 9, n - 8, n - 7, n - 1, n}
    for g in (128, 256, 512, 1024):
        for k in range(1, 5):
            for d in (-1, 0, 1):
                pts.add(g * k + d)
    for e in extra:
        for d in (-1, 0, 1):
            pts.add(e + d)
    return sorted(p for p in pts if 0 <= p <= n)


def g_rect(rng, W, H, bx, by):
    k = rng.random()
    if k < 0.05:
        return (0, 0, W, H)
    if k < 0.15:     # full-width / full-height strips
        if rng.random() < 0.5:
            a, b = sorted(rng.sample(by, 2))
            return (0, a, W, b - a)
        a, b = sorted(rng.sample(bx, 2))
        return (a, 0, b - a, H)
    if k < 0.27:     # 1x1 and thin
        x = min(rng.choice(bx), W - 1); y = min(rng.choice(by), H - 1)
        w = rng.choice([1, 1, 2, 8]); h = rng.choice([1, 1, 2, 8])
        return (x, y, min(w, W - x), min(h, H - y))
    if k < 0.85:
        a, b = sorted(rng.sample(bx, 2)); c, d = sorted(rng.sample(by, 2))
        return (a, c, b - a, d - c)
    x, y = rng.randint(0, W - 1), rng.randint(0, H - 1)
    return (x, y, rng.randint(1, W - x), rng.randint(1, H - y))


def encoder_images(ctx):
    """layered images from the Lean reference encoder with restoration filters switched on: the
    padding of every layer of a blend chain matters only here (the fixture's layers have no filter)"""
    import feedlib as fl
    import planlib as pl
    rng = ctx.rng
    d = os.path.join(WORK, "c06gen")
    os.makedirs(d, exist_ok=True)
    for f in os.listdir(d):
        os.unlink(os.path.join(d, f))
    plans = []
    for i in range(10 if ctx.quick else 120):
        recipe = i % 3 == 0      # alpha-blended layers, Gabor, squeeze: channel grids with different regions
        for _try in range(40):
            img, frames = fl.gen_multiframe(rng, big=(i % 5 == 4))
            if not recipe or (img["ecs"] and img["w"] >= 4 and img["h"] >= 4):
                break
        img["orient"] = rng.choice([1, 1, 1, 3, 6, 7])
        img["anim"] = None
        nec = len(img["ecs"])
        for f in frames:
            f["dur"] = 0
            f["gab"] = recipe or rng.random() < 0.6
            f["epf"] = rng.choice([0, 0, 1, 2, 3])
            # squeeze forces the Modular image to be decoded in full while the colour channels are
            # cropped to the filter padding: channel grids of one frame then cover different regions
            if (recipe or rng.random() < 0.5) and f["chans"][0][0] >= 2 and f["chans"][0][1] >= 2:
                f["tr"] = [("sq", [])]
            if nec and f.get("ty", 0) in (0, 3) and (recipe or rng.random() < 0.7):
                f["blend"] = dict(f.get("blend", {}), mode=rng.choice([2, 3]), alpha=0)
        plans.append(("layers+filters", pl.plan_line(img, frames)))
    # frames with patch dictionaries (sources: reference-only frames, also larger than the canvas), with
    # and without Gabor / EPF on the patched frame: a cropped render still needs the whole source rectangle
    from props import c05
    for i in range(6 if ctx.quick else 80):
        img, frames, _tags = c05.gen_patch_image(rng)
        for f in frames:
            if f.get("patches") and rng.random() < 0.5:
                f["gab"] = True
                f["epf"] = rng.choice([0, 1, 2])
        plans.append(("patches", pl.plan_line(img, frames)))
    # the same features on an upsampled frame (patches and splines are applied after the upsampling, noise before)
    for i in range(6 if ctx.quick else 80):
        img, frames, _tags = c05.gen_patch_image(rng)
        top = frames[-1]
        if top.get("have_crop") or img["ecs"] or img["gray"]:
            continue
        ups = rng.choice([2, 2, 4])
        w, h = img["w"], img["h"]
        cw, ch = -(-w // ups), -(-h // ups)
        top["ups"] = ups
        top["chans"] = [(cw, ch, pl.gen_pixels(rng, cw, ch, 0, (1 << img["bits"]) - 1)) for _ in top["chans"]]
        lut, sp = pl.gen_features(rng, w, h, noise=rng.random() < 0.5, splines=rng.random() < 0.5)
        if lut:
            top["noise"] = lut
        if sp:
            top["splines"] = sp
        if rng.random() < 0.5:
            top["patches"] = None
        plans.append(("features-on-upsampled-frame", pl.plan_line(img, frames)))
    # upsampled frames (2x / 4x / 8x, colour and extra channels), alone or blended over a plain base frame,
    # with and without restoration filters: the upsampling kernel reads a 5x5 neighbourhood of coded samples
    for i in range(8 if ctx.quick else 100):
        ups = rng.choice([2, 2, 4, 8])
        w, h = rng.randint(3, 70), rng.randint(3, 50)
        gray = rng.random() < 0.3
        nec = rng.choice([0, 0, 1])
        bits = rng.choice([8, 8, 10])
        img = {"w": w, "h": h, "bits": bits, "gray": gray, "buf16": rng.random() < 0.6, "orient": rng.choice([1, 1, 4, 5]),
               "anim": None, "ecs": [{"ty": 0, "dim_shift": 0, "bits": bits, "alpha_assoc": False} for _ in range(nec)]}
        nch = (1 if gray else 3) + nec
        hi = (1 << bits) - 1
        cw, ch = -(-w // ups), -(-h // ups)
        up = {"gshift": 1, "ups": ups, "ecups": [ups] * nec, "is_last": True, "tr": [], "pals": [], "tree": ("L", 0, 5, 0, 1), "wp": None,
              "chans": [(cw, ch, pl.gen_pixels(rng, cw, ch, 0, hi)) for _ in range(nch)],
              "gab": rng.random() < 0.4, "epf": rng.choice([0, 0, 1, 2])}
        frames = [up]
        if rng.random() < 0.5:
            base = {"gshift": 1, "is_last": False, "save_ref": 1, "blend": {"mode": 0}, "ecblend": [{"mode": 0}] * nec, "tr": [], "pals": [],
                    "tree": ("L", 0, 0, 0, 1), "wp": None, "chans": [(w, h, pl.gen_pixels(rng, w, h, 0, hi)) for _ in range(nch)]}
            up["blend"] = {"mode": rng.choice([1, 2] if nec else [1]), "alpha": 0, "clamp": False, "source": 1}
            up["ecblend"] = [{"mode": 1, "alpha": 0, "source": 1}] * nec
            frames = [base, up]
        plans.append(("upsampled", pl.plan_line(img, frames)))
    # noise and splines (3 colour channels; noise is seeded per group position, a spline is drawn over the
    # whole frame): one or several groups, alone or as the upper layer of a blend
    for i in range(8 if ctx.quick else 100):
        multi = i % 4 == 3
        w, h = (rng.choice([(140, 30), (30, 135), (130, 129)]) if multi else (rng.randint(8, 60), rng.randint(8, 40)))
        bits = 8
        img = {"w": w, "h": h, "bits": bits, "gray": False, "buf16": rng.random() < 0.6, "orient": rng.choice([1, 1, 2, 6]),
               "anim": None, "ecs": []}
        lut, sp = pl.gen_features(rng, w, h, noise=rng.random() < 0.7, splines=rng.random() < 0.6)
        top = {"gshift": 0 if multi else 1, "is_last": True, "tr": [], "pals": [], "tree": ("L", 0, 5, 0, 1), "wp": None,
               "chans": [(w, h, pl.gen_pixels(rng, w, h, 0, 255)) for _ in range(3)],
               "gab": rng.random() < 0.3, "epf": rng.choice([0, 0, 1])}
        if lut:
            top["noise"] = lut
        if sp:
            top["splines"] = sp
        frames = [top]
        if rng.random() < 0.4:
            base = {"gshift": 1, "is_last": False, "save_ref": 2, "blend": {"mode": 0}, "tr": [], "pals": [], "tree": ("L", 0, 0, 0, 1),
                    "wp": None, "chans": [(w, h, pl.gen_pixels(rng, w, h, 0, 255)) for _ in range(3)]}
            top["blend"] = {"mode": 1, "source": 2}
            frames = [base, top]
        plans.append(("noise/splines", pl.plan_line(img, frames)))
    out = []
    for k, (kind, line, cs) in enumerate(fl.encode(plans)):
        ctx.count("encoder-images:" + kind)
        path = os.path.join(d, f"{k}.jxl")
        open(path, "wb").write(cs)
        out.append((path, 12 if ctx.quick else 40, line))
    ctx.count("encoder-images", len(out))
    # VarDCT frames (DCT8 blocks, YCbCr, no restoration filter): group / varblock alignment of the region
    for k, (label, data, _jpeg) in enumerate(fl.synth_vardct(ctx, 3 if ctx.quick else 30, max_blocks=81)):
        path = os.path.join(d, f"v{k}.jxl")
        open(path, "wb").write(data)
        out.append((path, 12 if ctx.quick else 40, "synthetic VarDCT transcode: " + label))
    ctx.count("vardct-images", min(3 if ctx.quick else 30, len(out)))
    return out


def crop_vs_full(ctx):
    rng = ctx.rng
    plans = [(FIXTURE, 150 if ctx.quick else 2600, None), (STUB, 40 if ctx.quick else 500, None)]
    if ctx.lean_ok:
        plans += encoder_images(ctx)
    for path, n, plan_text in plans:
        if not os.path.exists(path):
            ctx.failed_obligations.append(f"image missing: {path}")
            continue
        # a third of the images with 32-bit Modular buffers forced (the render handles of that path are rebuilt
        # by every region request just like the narrow ones)
        opener = "openw" if rng.random() < 0.34 else "open"
        ctx.count("session:" + ("forced-wide-buffers" if opener == "openw" else "default-buffers"))
        out, rc, err = ctx.run_impl("c06", [f"{opener} {path}"], args=(FIXTURE,))
        if rc != 0 or not out or not out[0].startswith("ok "):
            ctx.violation("full-render-fails", f"{out[:1]} {err[-200:]}", {"lines": [f"open {path}"]}, key="c06:open")
            continue
        w = out[0].split()
        W, H, geo = int(w[1]), int(w[2]), w[5]
        ex, ey = [], []
        for f in geo.split(";"):
            x0, y0, fw, fh, gd, forced = (int(v) for v in f.split(","))
            ctx.count(f"frames decoded {'in full (palette/squeeze)' if forced == 1 else 'by region'}")
            ex += [x0, x0 + fw]; ey += [y0, y0 + fh]
        bx, by = boundary_points(W, ex), boundary_points(H, ey)
        lines = [f"{opener} {path}"]
        hist, hists, probes = [], [], []     # hists[i] = requests since the last `fresh` up to line i
        for _ in range(n):
            if rng.random() < 0.5:
                lines.append("fresh"); hists.append(None); hist = []
            probe = g_rect(rng, W, H, bx, by)
            seq = [g_rect(rng, W, H, bx, by) for _ in range(rng.randint(0, 3))]
            tail = [probe] if rng.random() < 0.7 else [probe, (0, 0, W, H)]
            if len(seq) + len(tail) > 4:
                seq = seq[:4 - len(tail)]
            for r in seq + tail:
                # some intermediate requests are not rendered (the cache is reset anyway)
                norender = r is not tail[-1] and rng.random() < 0.2
                lines.append("crop %d %d %d %d" % r + (" 0" if norender else ""))
                hist = hist + [lines[-1]]
                hists.append(list(hist))
            probes.append(probe)
        out, rc, err = ctx.run_impl("c06", lines, args=(FIXTURE,), timeout=3000)
        if rc != 0 or len(out) != len(lines):
            ctx.violation("decoder-dies-on-region-request", f"rc={rc} after {len(out)}/{len(lines)} lines {err[-300:]}",
                          {"image": path, "lines": lines[:len(out) + 1][-12:]}, key="c06:crop-died")
            continue
        for i, (line, o) in enumerate(zip(lines[1:], out[1:])):
            if not line.startswith("crop"):
                continue
            h = hists[i]
            ctx.count("crop:" + o.split()[0])
            rect = tuple(int(v) for v in line.split()[1:5])
            ctx.case((os.path.basename(path), tuple(h)), rect != (0, 0, W, H))
            if o.startswith("ok"):
                continue
            # concrete violation: shrink the history to the shortest suffix that still fails
            # (only for the first few, every attempt re-renders the image)
            replay = h
            shrunk = getattr(ctx, "_c06_shrunk", 0)
            ctx._c06_shrunk = shrunk + 1
            for k in (range(len(h) - 1, -1, -1) if shrunk < 3 else []):
                cand = h[k:]
                o2, _, _ = ctx.run_impl("c06", [f"{opener} {path}", "fresh"] + cand, args=(FIXTURE,))
                if len(o2) == len(cand) + 2 and not o2[-1].startswith("ok"):
                    replay, o = cand, o2[-1]
                    break
            ctx.violation("crop-differs-from-full-render", o,
                          {"image": path, "opener": opener, "requests": replay, "result": o, "plan": plan_text,
                           "image_hex": open(path, "rb").read().hex() if plan_text else None,
                           "how": f"printf '{opener} {path}\\nfresh\\n<requests>\\n' | harness/target/debug/c06 {FIXTURE}"},
                          key=f"c06:crop:{os.path.basename(path) if not plan_text else 'encoder-image'}:{o.split()[0]}")
        ctx.sample({"image": os.path.basename(path), "requests": lines[1:6], "results": out[1:6]})


def run(ctx):
    if getattr(ctx, "replay", None):
        body = json.load(open(ctx.replay))
        rp = body.get("replay", {})
        ls = rp.get("lines") or ([f"{rp.get('opener', 'open')} {rp['image']}", "fresh"] + rp.get("requests", []))
        ctx.cargo_build(["c06"])
        out, rc, err = ctx.run_impl("c06", ls, args=(FIXTURE,))
        for l, o in zip(ls, out):
            print(f"  {l}\n    -> {o}")
        return
    ok = ctx.lean_build(MODULES + EXTRA_BUILD)
    ctx.lean_ok = ok
    if ok:
        ctx.audit(MODULES, ctx.update_lock)
        if not ctx.quick:
            ctx.leanchecker(MODULES + EXTRA_BUILD)
    ctx.cargo_build(["c06"])
    ctx.cov["rule"] = ("(a) seeded header parameters (image/frame sizes incl. 2^30, signed crop offsets partly/wholly outside, "
                       "orientation 1..8, lf_level 0..4, upsampling 1/2/4/8, extra-channel shifts, EPF iters, Gabor, chroma "
                       "subsampling, group size) x rectangles (boundary classes around 0, 8, group size, i32/u32 limits, zero "
                       "sizes): every modelled integer function run on the real crates via hook H2 and on the Lean model; "
                       "blend()/patch() run on coordinate-coded grids; (b) the real decoder on cmyk_layers.jxl and the "
                       "doc-example stream: request sequences of length 1..4 (edges at 0, +-1 around 8/group size/frame "
                       "edges, strips, 1x1, whole image), every channel of every keyframe compared with the full render "
                       "at 1e-6. A case is non-trivial if it is a pipeline/blend/patch case or a partial-image request; "
                       "distinct by content")
    differential(ctx, ok)
    crop_vs_full(ctx)
    ctx.assumptions += [
        "i32/u32 machine types; checked (overflow-checks) build for the panic classification",
        "stage locality radii (Gabor 1; EPF 2/3/6; chroma upsampling 1 at the subsampled scale; non-separable "
        "upsampling 2 per pass) are read off the kernels by hand; the kernels themselves are not modelled",
        "VarDCT, splines, noise and patches are not exercised by any available image: their padding is in the proved "
        "arithmetic, their kernels' locality is assumed",
        "images: only cmyk_layers.jxl (Modular, 4 blended layers, alpha+black) and the doc-example stream until the "
        "encoder-based generator is wired in",
        "request_image_region model: ReferenceOnly frames keep their handles; history independence is proved under the "
        "hypothesis that ReferenceOnly frames depend only on ReferenceOnly frames",
    ]
