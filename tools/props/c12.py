"""C12 — 16-bit and 32-bit Modular buffers give identical results on truthful streams.

Theorems: Props/C12.lean. "Truthfully declares that 16-bit buffers suffice" is the hypothesis of
those theorems: every listed value of the WIDE (i32) run is an i16; the Lean driver evaluates it
for every case (`jxlmodel c12`: `fits=`), so every case is classified inside / outside.

(a) kernel level (hook H7), checked and release harness build: the real i16 kernels — the
    dispatching entry point the decoder calls (AVX2 / SSE4.1 when the CPU has them), the scalar
    base, and the AVX2 and SSE4.1 kernels called directly — against the real scalar i32 kernel and
    the Lean model at sb=16 / sb=32, on all widths 1..130 x a set of heights x value patterns, for
    inverse_h, inverse_v and all 7 RCT types x 6 permutations. Inside the hypothesis all results
    must be identical (a difference is a concrete violation `kernel:…`); outside it differences
    between i16 and i32 are only counted. Independently of the hypothesis the scalar i16 kernel must
    equal the model at sb=16 and the i32 kernel the model at sb=32 (the tie of the model).
(b) whole decoder: images of depth 1..12 bits written by the Lean reference encoder with
    modular_16bit_buffers=1 (all transforms, trees, palettes, multi-group, widths around the vector
    lane multiples with squeeze), decoded by the real decoder with the default narrow buffers and
    with force_wide_buffers, in both builds. Inside the hypothesis (decided by running the wide
    decoder model on the plan's tokens: `range`), narrow = wide = the encoder's expected samples.
"""
import os
from vlib import *
import planlib as pl

MODULES = ["JxlModel.Props.C12"]
I16 = (-32768, 32767)
MAX_PER_CLASS = 3


def report(ctx, kind, detail, replay, key):
    """ctx.violation, but at most MAX_PER_CLASS replay files per class of failure (a broken kernel
    fails thousands of cases); class = kind + key without the sizes + build"""
    import re
    build = (detail.get("build") if isinstance(detail, dict) else None) or replay.get("build") or ""
    cls = f"{kind}:{re.sub(r'(w|h)=[0-9]+:?', '', key)}:{build}"
    seen = ctx.__dict__.setdefault("_c12_seen", {})
    seen[cls] = seen.get(cls, 0) + 1
    if seen[cls] > MAX_PER_CLASS:
        ctx.count("further-failures-not-written:" + cls)
        return
    ctx.violation(kind, detail, replay, key=key)


# ---------------------------------------------------------------------------------------------
# exact-integer forward transforms (to make in-range kernel inputs)

def tdiv(a, b):
    q = abs(a) // abs(b)
    return q if (a >= 0) == (b > 0) else -q


def tendency(a, b, c):
    if a >= b >= c:
        x = tdiv(4 * a - 3 * c - b + 6, 12)
        if x - (x & 1) > 2 * (a - b):
            x = 2 * (a - b) + 1
        if x + (x & 1) > 2 * (b - c):
            x = 2 * (b - c)
        return x
    if a <= b <= c:
        x = tdiv(4 * a - 3 * c - b - 6, 12)
        if x + (x & 1) < 2 * (a - b):
            x = 2 * (a - b) - 1
        if x - (x & 1) < 2 * (b - c):
            x = 2 * (b - c)
        return x
    return 0


def fwd_squeeze_line(line):
    n = len(line)
    avg = []
    for i in range(0, n - 1, 2):
        a, b = line[i], line[i + 1]
        avg.append((a + b + (1 if a > b else 0)) // 2)
    if n % 2:
        avg.append(line[-1])
    res = []
    left = avg[0] if avg else 0
    for k in range(n // 2):
        a, b = line[2 * k], line[2 * k + 1]
        nxt = avg[k + 1] if k + 1 < len(avg) else avg[k]
        res.append(a - b - tendency(left, avg[k], nxt))
        left = b
    return avg, res


def merged_from_pixels(horizontal, w, h, pix):
    """pixel grid -> merged grid (averages then residuals per row / per column)"""
    out = [0] * (w * h)
    if horizontal:
        for y in range(h):
            a, r = fwd_squeeze_line(pix[y * w:(y + 1) * w])
            out[y * w:(y + 1) * w] = a + r
    else:
        for x in range(w):
            a, r = fwd_squeeze_line([pix[y * w + x] for y in range(h)])
            col = a + r
            for y in range(h):
                out[y * w + x] = col[y]
    return out


def fwd_rct(ty, perm, x, y, z):
    """forward of rctInvPermute perm . rctInvSample ty  (exact integers)"""
    d, e, f = {0: (x, y, z), 1: (y, z, x), 2: (z, x, y), 3: (x, z, y), 4: (y, x, z), 5: (z, y, x)}[perm]
    if ty == 6:
        b = d - f
        tmp = f + (b >> 1)
        c = e - tmp
        a = tmp + (c >> 1)
        return a, b, c
    a = d
    c = f - a if ty % 2 == 1 else f
    if ty // 2 == 1:
        b = e - a
    elif ty // 2 == 2:
        b = e - ((a + f) >> 1)
    else:
        b = e
    return a, b, c


def clamp16(v):
    return max(I16[0], min(I16[1], v))


# ---------------------------------------------------------------------------------------------
# (a) kernel cases

SQ_PATTERNS = ["natural12", "extremes12", "altsign12", "boundary", "raw-moderate", "zigzag-big", "wild"]


def pixels(rng, pat, w, h):
    if pat == "natural12":
        return pl.gen_pixels(rng, w, h, 0, 4095, rng.choice(["smooth", "noise", "edges", "stripes", "sparse"]))
    if pat == "extremes12":
        pool = [-4095, 4095, -4095, 4095, 0, -4094, 4094, 1, -1]
        return [rng.choice(pool) for _ in range(w * h)]
    # altsign12
    amp = rng.choice([1, 7, 255, 2048, 4095])
    ph = rng.randrange(2)
    jit = rng.choice([0, 0, 3])
    return [max(-4095, min(4095, (amp if (x + y + ph) % 2 == 0 else -amp) + rng.randint(-jit, jit)))
            for y in range(h) for x in range(w)]


def sq_case(rng, horizontal, w, h, pat):
    if pat in ("natural12", "extremes12", "altsign12"):
        m = merged_from_pixels(horizontal, w, h, pixels(rng, pat, w, h))
        m = [clamp16(v) for v in m]
    elif pat == "boundary":
        # monotone runs of averages whose differences sit at the edge of the hypothesis
        # (numerator 4a-3c-b+6 around 32767), small residuals
        n_avg_w, n_avg_h = ((w + 1) // 2, h) if horizontal else (w, (h + 1) // 2)
        m = [rng.randint(-3, 3) for _ in range(w * h)]
        step = rng.choice([8188, 8189, 8190, 8191, 8192, 8193, 4095, 4096, 10900, 10923])
        for j in range(n_avg_h):
            for i in range(n_avg_w):
                k = i if horizontal else j
                base = rng.choice([0, 0, 1, -1])
                sgn = 1 if rng.random() < 0.5 else -1
                v = sgn * (((k + (j if horizontal else i)) % 3) - 1) * step // 2 + base
                m[j * w + i] = clamp16(v)
    elif pat == "zigzag-big":
        # non-monotone averages with differences beyond i16 and zero residuals: every stored value and
        # every value the scalar code computes fits, only `left - a` / `a - next` do not (the vector
        # kernels form them in 16-bit lanes)
        m = [0] * (w * h)
        big = rng.choice([30000, 20000, 32767, 17000])
        for y in range(h):
            for x in range(w):
                is_avg = (x < (w + 1) // 2) if horizontal else (y < (h + 1) // 2)
                if is_avg:
                    k = x if horizontal else y
                    m[y * w + x] = [big, -big, -big + rng.randint(1, 9000), big - rng.randint(1, 9000)][(k + rng.randrange(2)) % 4]
    elif pat == "raw-moderate":
        m = [rng.randint(-3000, 3000) for _ in range(w * h)]
        # residual part smaller
        for y in range(h):
            for x in range(w):
                is_res = (x >= (w + 1) // 2) if horizontal else (y >= (h + 1) // 2)
                if is_res:
                    m[y * w + x] = rng.randint(-1500, 1500)
    else:
        m = [rng.choice([rng.randint(*I16), rng.randint(*I16), -32768, 32767, 0]) for _ in range(w * h)]
    return f"sq {'h' if horizontal else 'v'} {w} {h} " + " ".join(map(str, m))


RCT_PATTERNS = ["natural12", "extremes12", "raw13", "wild"]


def rct_case(rng, ty, perm, w, h, pat):
    n = w * h
    if pat in ("natural12", "extremes12"):
        if pat == "natural12":
            chans = [pl.gen_pixels(rng, w, h, 0, 4095) for _ in range(3)]
        else:
            chans = [[rng.choice([0, 4095, 0, 4095, 1, 4094, 2048]) for _ in range(n)] for _ in range(3)]
        tr = [fwd_rct(ty, perm, chans[0][i], chans[1][i], chans[2][i]) for i in range(n)]
        a, b, c = [t[0] for t in tr], [t[1] for t in tr], [t[2] for t in tr]
    elif pat == "raw13":
        a, b, c = ([rng.choice([rng.randint(-8191, 8191), 8191, -8191, 16383, -16384]) for _ in range(n)] for _ in range(3))
    else:
        a, b, c = ([rng.choice([rng.randint(*I16), -32768, 32767, 0]) for _ in range(n)] for _ in range(3))
    return f"rct {ty} {perm} {w} {h} " + " ".join(map(str, list(a) + list(b) + list(c)))


def kernel_lines(ctx):
    rng = ctx.rng
    q = ctx.quick
    lines = []          # (line, meta)
    heights = [1, 2, 3, 8, 17] if q else list(range(1, 21)) + [31, 32, 33]
    reps = 1
    for _ in range(reps):
        for w in range(1, 131):
            for h in heights:
                for horizontal in (True, False):
                    pats = ["natural12", "extremes12", "altsign12", rng.choice(["boundary", "raw-moderate", "zigzag-big", "wild"])]
                    if not q:
                        pats = SQ_PATTERNS
                    for pat in pats:
                        lines.append((sq_case(rng, horizontal, w, h, pat),
                                      ("inverse_h" if horizontal else "inverse_v", w, h, pat)))
    special = [1, 7, 8, 9, 15, 16, 17, 31, 32, 33, 63, 64, 65, 127, 128, 129, 130]
    for rep in range(1 if q else 8):
        for ty in range(7):
            for perm in range(6):
                for w in range(1, 131):
                    pat = RCT_PATTERNS[(w + ty + perm + rep) % 4] if q else rng.choice(RCT_PATTERNS)
                    lines.append((rct_case(rng, ty, perm, w, 1, pat), (f"rct{ty}", w, 1, pat)))
                for w in special:
                    for h in ([3, 17] if q else [2, 3, 16, 17, 33]):
                        pat = rng.choice(RCT_PATTERNS)
                        lines.append((rct_case(rng, ty, perm, w, h, pat), (f"rct{ty}", w, h, pat)))
    return lines


def parse_fields(line, names):
    """'ok k1 <..> k2 <..>' with keys from `names` in order -> dict key -> list of words; also k=v words"""
    w = line.split()
    if not w or w[0] != "ok":
        return None
    kv, out, cur = {}, {}, None
    it = iter(names)
    nxt = next(it, None)
    for t in w[1:]:
        if t == nxt:
            cur = t
            out[cur] = []
            nxt = next(it, None)
        elif cur is None:
            if "=" in t:
                k, v = t.split("=", 1)
                kv[k] = v
        else:
            out[cur].append(t)
    return kv, out


def resolve(ref, words):
    if words == ["same"]:
        return ref
    if words == ["skip"]:
        return None
    return words


def check_kernels(ctx, label, release):
    cases = ctx._kernel_cases
    lines = [l for l, _ in cases]
    impl = run_lines_robust([ctx.harness_bin("c12", release)], lines, per_line_timeout=20, batch=400)
    model = ctx._kernel_model
    feats = run_lines([ctx.harness_bin("c12", release)], ["features"])[0]
    ctx.notes[f"cpu_features_{label}"] = feats[0] if feats else "?"
    inside = outside = 0
    for (line, (kern, w, h, pat)), mo, io in zip(cases, model, impl):
        is_sq = kern.startswith("inverse")
        m = parse_fields(mo or "", ["n", "w"])
        names = ["d", "b", "a", "s", "w"] if is_sq else ["d", "b", "w", "wb"]
        r = parse_fields(io or "", names)
        replay = {"op": line, "build": label,
                  "how": f"echo '<op>' | harness/target/{'release' if release else 'debug'}/c12 ; echo '<op>' | lean/.lake/build/bin/jxlmodel c12"}
        key_base = f"kernel:{kern}:w={w}:h={h}"
        if r is None:
            report(ctx, "kernel-panic-or-crash", (io or "none")[:300], replay, key=f"{key_base}:crash")
            continue
        if m is None:
            ctx.failed_obligations.append(f"model gave no answer for {line[:80]}: {(mo or 'none')[:100]}")
            continue
        kv, mf = m
        fits = kv.get("fits") == "1"
        _, rf = r
        d = rf["d"]
        variants = {k: resolve(d, rf[k]) for k in names[1:]}
        wide = variants["w"]
        mn = mf["n"]
        mw = resolve(mn, mf["w"])
        if label == "checked":
            ctx.case((kern, w, h, pat, line[:200]), nontrivial=len(set(d)) > 1)
            ctx.count(f"kernel:{kern}")
            ctx.count(f"pattern:{pat}:{'inside' if fits else 'outside'}")
            ctx.count(f"{'h' if kern == 'inverse_h' else 'v' if kern == 'inverse_v' else 'rct'}:w%8={w % 8}")
            ctx.count(f"{'h' if kern == 'inverse_h' else 'v' if kern == 'inverse_v' else 'rct'}:w%16={w % 16}")
            if is_sq:
                simd_h = kern == "inverse_h" and h >= 8 and w > 16
                simd_v = kern == "inverse_v" and h > 1 and w >= 8
                ctx.count("vector-path-reached" if (simd_h or simd_v) else "scalar-path-only")
        if fits:
            inside += 1
            # property on the implementation's own outputs: every i16 variant = i32
            for name, v in [("d", d)] + [(k, variants[k]) for k in names[1:] if k not in ("w", "wb")]:
                if v is not None and v != wide:
                    i = first_diff(v, wide)
                    report(ctx, "narrow-kernel-differs-from-wide-inside-hypothesis",
                                  {"variant": {"d": "dispatching i16", "b": "scalar i16", "a": "avx2 i16", "s": "sse4.1 i16"}[name],
                                   "index": i, "x": i % w if is_sq else None, "y": i // w if is_sq else None,
                                   "narrow": v[i] if i is not None and i < len(v) else None,
                                   "wide": wide[i] if i is not None and i < len(wide) else None,
                                   "pattern": pat, "model_range": kv.get("vals")},
                                  replay, key=f"{key_base}:{name}")
            if mn != mw:
                ctx.failed_obligations.append(f"model sb=16 differs from sb=32 although fits=1 (contradicts C12 theorems): {line[:120]}")
        else:
            outside += 1
            if d != wide:
                ctx.count(f"outside-hypothesis:{label}:dispatching-i16!=i32")
            if variants["b"] != wide:
                ctx.count(f"outside-hypothesis:{label}:scalar-i16!=i32")
            if d != variants["b"]:
                ctx.count(f"outside-hypothesis:{label}:dispatching-i16!=scalar-i16")
        # tie of the model: scalar i16 kernel = model sb=16, i32 kernel(s) = model sb=32, for all inputs
        if variants["b"] != mn:
            i = first_diff(variants["b"], mn)
            report(ctx, "scalar-i16-kernel-differs-from-model",
                          {"index": i, "kernel": variants["b"][i] if i is not None and i < len(variants["b"]) else None,
                           "model": mn[i] if i is not None and i < len(mn) else None, "inside_hypothesis": fits, "pattern": pat},
                          replay, key=f"{key_base}:model16")
        for k in ("w", "wb"):
            if k in variants and variants[k] != mw:
                i = first_diff(variants[k], mw)
                report(ctx, "i32-kernel-differs-from-model",
                              {"index": i, "which": k, "kernel": variants[k][i] if i is not None and i < len(variants[k]) else None,
                               "model": mw[i] if i is not None and i < len(mw) else None, "inside_hypothesis": fits},
                              replay, key=f"{key_base}:model32")
    ctx.notes[f"kernel_cases_{label}"] = {"inside_hypothesis": inside, "outside_hypothesis": outside}


def tendency_boundary(ctx):
    """scalar tendency at the edge of the hypothesis, real kernels vs model"""
    rng = ctx.rng
    trip = [(10000, 5000, 0), (4095, -4095, -4095), (4095, 0, -4095), (-4095, 0, 4095), (8191, 0, 0), (8190, 0, 0),
            (8192, 8192, 0), (8191, 8191, 0), (-8192, 0, 0), (0, 0, 8191), (0, 8190, 8190), (32767, 32767, 32767),
            (-32768, -32768, -32768), (32767, 0, -32768), (-32768, 0, 32767), (5461, 0, -5461), (5461, 0, -5462)]
    for _ in range(400 if ctx.quick else 6000):
        a = rng.choice([rng.randint(*I16), rng.randint(-9000, 9000), rng.randint(-4095, 4095)])
        d1 = rng.choice([0, 1, rng.randint(0, 9000), rng.randint(0, 40000)])
        d2 = rng.choice([0, 1, rng.randint(0, 9000), rng.randint(0, 40000)])
        s = rng.choice([1, -1])
        trip.append((clamp16(a), clamp16(a - s * d1), clamp16(a - s * d1 - s * d2)))
    lines = [f"tend {a} {b} {c}" for a, b, c in trip]
    mo, _, _ = ctx.run_model("c12", lines)
    for release in (False, True):
        io, _, _ = ctx.run_impl("c12", lines, release=release)
        for l, m, i in zip(lines, mo, io):
            mw, iw = m.split(), i.split()
            if len(mw) != 4 or len(iw) != 3:
                ctx.failed_obligations.append(f"tend: unexpected answers {m!r} {i!r}")
                continue
            num = int(mw[3])
            fits = I16[0] <= num <= I16[1]
            if not release:
                ctx.case(l)
                ctx.count("tendency:" + ("inside" if fits else "outside"))
            replay = {"op": l, "build": "release" if release else "checked"}
            if fits and iw[1] != iw[2]:
                report(ctx, "tendency-i16-differs-from-i32-inside-hypothesis",
                              {"i16": iw[1], "i32": iw[2], "numerator": num}, replay, key="kernel:tendency")
            if not fits and iw[1] != iw[2] and not release:
                ctx.count("outside-hypothesis:tendency-i16!=i32")
            if iw[1:] != mw[1:3]:
                report(ctx, "tendency-kernel-differs-from-model", {"kernel": iw[1:], "model": mw[1:3]}, replay,
                              key="kernel:tendency:model")


# ---------------------------------------------------------------------------------------------
# (b) whole decoder

def gen_lane_image(rng):
    """squeeze (and often an RCT) on widths around the vector-lane multiples, heights >= 8, so that the
    decoder's narrow path runs the AVX2/SSE4.1 kernels with every head/tail class"""
    w = rng.choice([rng.randint(17, 140), rng.choice([31, 32, 33, 34, 47, 48, 49, 63, 64, 65, 66, 95, 96, 97, 127, 128, 129, 130])])
    h = rng.choice([8, 9, 15, 16, 17, 24, rng.randint(8, 40)])
    bits = rng.randint(1, 12)
    gray = rng.random() < 0.3
    nec = rng.choice([0, 0, 1])
    ecs = [{"ty": rng.choice([0, 1, 15]), "dim_shift": 0, "bits": bits, "alpha_assoc": False} for _ in range(nec)]
    img = {"w": w, "h": h, "bits": bits, "gray": gray, "buf16": True, "ecs": ecs, "orient": 1}
    nch = (1 if gray else 3) + nec
    hi = (1 << bits) - 1
    chans = [(w, h, pl.gen_pixels(rng, w, h, 0, hi)) for _ in range(nch)]
    trs = []
    if not gray and rng.random() < 0.6:
        trs.append(("rct", 0, rng.randrange(42)))
    if rng.random() < 0.4:
        trs.append(("sq", []))
    else:
        ps = []
        for _ in range(rng.randint(1, 4)):
            ps.append((rng.random() < 0.6, True, 0, nch))
        trs.append(("sq", ps))
    tree = pl.gen_tree(rng, rng.choice([0, 1, 2]), rng.randint(1, 4), (0, hi), nprev=min(2, nch - 1))
    frame = {"gshift": rng.choice([1, 2, 3]), "chans": chans, "tr": trs, "pals": [], "tree": tree, "wp": None}
    return img, [frame]


def gen_stress_image(rng):
    """12-bit image with TWO chained RCTs before a squeeze: all samples and all channel contents stay
    within i16, but squeezed differences exceed what the i16 tendency numerator can hold — the region
    just outside the hypothesis"""
    w = rng.choice([rng.randint(2, 70), 34, 48, 65])
    h = rng.choice([1, 2, 8, 9, 17, rng.randint(1, 24)])
    bits = 12
    img = {"w": w, "h": h, "bits": bits, "gray": False, "buf16": True, "ecs": [], "orient": 1}
    style = rng.choice(["edges", "noise", "stripes", "blocks"])
    if style == "blocks":
        bw = rng.choice([2, 3, 4, 6])
        chans = []
        for _ in range(3):
            vals = {}
            chans.append((w, h, [vals.setdefault((x // bw, y // bw), rng.choice([0, 4095, 4095, 0, 2048])) for y in range(h) for x in range(w)]))
    else:
        chans = [(w, h, pl.gen_pixels(rng, w, h, 0, 4095, style)) for _ in range(3)]
    trs = [("rct", 0, rng.randrange(42)), ("rct", 0, rng.randrange(42))]
    ps = [(rng.random() < 0.6, True, 0, 3) for _ in range(rng.randint(1, 3))]
    trs.append(("sq", ps))
    tree = ("L", 0, rng.choice([0, 1, 5]), 0, 1)
    frame = {"gshift": 1, "chans": chans, "tr": trs, "pals": [], "tree": tree, "wp": None}
    return img, [frame]


def make_images(ctx):
    rng = ctx.rng
    q = ctx.quick
    cases = []
    n_gen, n_lane, n_tab, n_pal, n_multi, n_stress = (150, 90, 40, 50, 8, 30) if q else (3000, 1500, 600, 800, 100, 400)
    for i in range(n_gen):
        bits = 1 + (i % 12)
        img, fr = pl.gen_modular_image(rng, {"bits": bits})
        img["buf16"] = True
        cases.append(("general", img, fr))
    # samples beyond the nominal range of the bit depth (legal in Modular: overshoot of lossy encoders):
    # the narrow grids hold them as they are; what the integer outputs clamp must not depend on the width
    for i in range(24 if q else 300):
        bits = rng.choice([8, 8, 8, 10, 12])
        w, h = rng.choice([1, 3, 8, 9, 17]), rng.choice([1, 2, 5, 8])
        hi = (1 << bits) - 1
        lo2, hi2 = -(hi // 4) - 1, hi + hi // 4 + 1
        gray = rng.random() < 0.3
        nec = rng.choice([0, 0, 1])
        ecs = [{"ty": 0, "dim_shift": 0, "bits": bits, "alpha_assoc": False} for _ in range(nec)]
        img = {"w": w, "h": h, "bits": bits, "gray": gray, "buf16": True, "ecs": ecs, "orient": 1}
        nch = (1 if gray else 3) + nec
        chans = [(w, h, [rng.choice([lo2, hi2, hi + 1, hi + 45, -1, -40, 0, hi, rng.randint(lo2, hi2)]) for _ in range(w * h)])
                 for _ in range(nch)]
        tree = pl.gen_tree(rng, rng.choice([0, 1, 2]), rng.randint(1, 3), (lo2, hi2), nprev=0)
        frame = {"gshift": rng.randrange(4), "chans": chans, "tr": [], "pals": [], "tree": tree, "wp": None,
                 "ent": rng.choice([0, 1, 2, 3])}
        cases.append(("overshoot", img, [frame]))
    for _ in range(n_lane):
        img, fr = gen_lane_image(rng)
        cases.append(("lane-squeeze", img, fr))
    k = 0
    while k < n_tab:
        img, fr, kind = pl.gen_table_image(rng)
        if img["bits"] > 12:
            continue
        img["buf16"] = True
        cases.append((kind, img, fr))
        k += 1
    k = 0
    while k < n_pal:
        img, fr, kind = pl.gen_palette_image(rng)
        if img["bits"] > 12:
            continue
        img["buf16"] = True
        cases.append((kind, img, fr))
        k += 1
    for i in range(n_multi):
        img, fr = pl.gen_modular_image(rng, {"multi_group": True, "bits": rng.choice([1, 4, 8, 10, 12])})
        img["buf16"] = True
        cases.append(("multi-group", img, fr))
    for _ in range(n_stress):
        img, fr = gen_stress_image(rng)
        cases.append(("stress-two-rct-squeeze", img, fr))
    return cases


def parse_range(line):
    """'ok N frame fits=.. decsame=.. samples=a..b tokens=.. transforms=.. stored=.. K {W H data}'"""
    w = line.split()
    if not w or w[0] != "ok":
        return None
    i = 2
    frames = []
    for _ in range(int(w[1])):
        assert w[i] == "frame"
        kv = dict(t.split("=", 1) for t in w[i + 1:i + 7])
        nch = int(w[i + 7])
        i += 8
        chans = []
        for _ in range(nch):
            cw, ch = int(w[i]), int(w[i + 1])
            chans.append((cw, ch, list(map(int, w[i + 2:i + 2 + cw * ch]))))
            i += 2 + cw * ch
        rng_of = lambda s: tuple(int(x) for x in s.replace("..", " ").split())
        frames.append({"fits": kv["fits"] == "1", "decsame": kv["decsame"] == "1",
                       "samples": rng_of(kv["samples"]), "tokens": rng_of(kv["tokens"]),
                       "transforms": rng_of(kv["transforms"]), "stored": rng_of(kv["stored"]), "wide": chans})
    return frames


def in16(r):
    return I16[0] <= r[0] and r[1] <= I16[1]


def decode_all(ctx, hexes, release, wide, threads=0, regions=None):
    lines = [f"decode {h} wide={int(wide)} threads={threads}" + (f" region={','.join(map(str, regions[i]))}" if regions and regions[i] else "")
             for i, h in enumerate(hexes)]
    return run_lines_robust([ctx.harness_bin("img", release)], lines, per_line_timeout=30)


def grids(dec_line):
    st, kfs = pl.parse_img_output(dec_line)
    if st != "ok" or not kfs or not isinstance(kfs[0], list):
        return None
    if {c[0] for c in kfs[0]} != {"i"}:
        return None
    return [(c[1], c[2], c[3]) for c in kfs[0]]


def check_images(ctx, cases, corpus=False):
    lines = [pl.plan_line(img, fr) for (_, img, fr) in cases]
    encs = run_lines_robust([MODEL_EXE, "enc"], lines, per_line_timeout=90)
    rngs = run_lines_robust([MODEL_EXE, "c12"], ["range " + l for l in lines], per_line_timeout=120)
    todo = []
    for (kind, img, fr), line, e, r in zip(cases, lines, encs, rngs):
        enc = pl.parse_enc_output(e) if e and e.startswith("ok") else None
        rg = parse_range(r) if r and r.startswith("ok") else None
        if enc is None or rg is None:
            ctx.count("encoder:" + ((e or "none").split()[1] if e and len(e.split()) > 1 else "none"))
            continue
        todo.append((kind, img, line, enc, rg[0]))
    hexes = [t[3][0] for t in todo]
    runs = {}
    for release in (False, True):
        for wide in (False, True):
            runs[(release, wide)] = decode_all(ctx, hexes, release, wide)
    thr = decode_all(ctx, hexes, True, False, threads=3) if not ctx.quick else None
    # the integer output forms (8- / 16-bit sample streams) of the narrow and of the wide session
    sruns = {}
    for release in (False, True):
        for wide in (False, True):
            slines = [f"decode {h} wide={int(wide)} threads=0 streams=1" for h in hexes]
            sruns[(release, wide)] = run_lines_robust([ctx.harness_bin("img", release)], slines, per_line_timeout=30)
    n_in = n_out = 0
    for k, (kind, img, line, enc, rg) in enumerate(todo):
        hexs, frames = enc
        exp = frames[0]["chans"]
        fits = rg["fits"]
        vals = set()
        for c in exp:
            vals.update(c[2][:64])
        ctx.case(line, nontrivial=len(vals) > 1)
        ctx.count("image-kind:" + kind)
        ctx.count("image-bits:" + str(img["bits"]))
        for t in line.split(" tr ")[1].split(" pals ")[0].split():
            if t in ("rct", "pal", "sq"):
                ctx.count("transform:" + t)
        if frames[0]["num_groups"] > 1:
            ctx.count("multi-group-frames")
        stored_fit = in16(rg["stored"]) and in16(rg["samples"])
        cls = "inside" if fits else ("outside:stored-values-fit" if stored_fit and rg["decsame"] else "outside")
        ctx.count("image-hypothesis:" + cls)
        if fits:
            n_in += 1
            nb = max(abs(rg["transforms"][0]), abs(rg["transforms"][1])).bit_length() + 1
            ctx.count(f"inside:widest-value-needs-{nb:02d}-bits")
        else:
            n_out += 1
        base_replay = {"plan": line, "codestream_hex": hexs, "hypothesis": {k2: rg[k2] for k2 in ("fits", "decsame", "samples", "tokens", "transforms", "stored")},
                       "how": "plan -> lean/.lake/build/bin/jxlmodel enc ; 'range <plan>' -> jxlmodel c12 ; "
                              "echo 'decode <hex> wide=0|1 threads=0' | harness/target/{debug,release}/img"}
        for release in (False, True):
            label = "release" if release else "checked"
            dn, dw = runs[(release, False)][k] or "crash", runs[(release, True)][k] or "crash"
            bad = False
            for which, dl in (("narrow", dn), ("wide", dw)):
                if dl.startswith("panic") or dl.startswith("crash") or dl == "hang":
                    site = dl.split()[1] if dl.startswith("panic") and len(dl.split()) > 1 else dl.split()[0]
                    report(ctx, "decoder-panic-or-hang", {"buffers": which, "build": label, "answer": dl[:300]},
                                  base_replay, key=f"{dl.split()[0]}:{site}")
                    bad = True
            if bad:
                continue
            gn, gw = grids(dn), grids(dw)
            if gn is None or gw is None:
                report(ctx, "valid-stream-rejected-or-not-integer", {"narrow": dn[:120], "wide": dw[:120], "build": label},
                              base_replay, key="rejected:" + kind)
                continue
            if gn != gw:
                if fits:
                    ci = first_diff(gn, gw)
                    pi = first_diff(gn[ci][2], gw[ci][2]) if ci is not None and ci < len(gn) and ci < len(gw) else None
                    report(ctx, "narrow-decode-differs-from-wide-inside-hypothesis",
                                  {"build": label, "channel": ci, "index": pi,
                                   "x": pi % gn[ci][0] if pi is not None else None, "y": pi // gn[ci][0] if pi is not None else None,
                                   "narrow": gn[ci][2][pi] if pi is not None else None, "wide": gw[ci][2][pi] if pi is not None else None,
                                   "expected": exp[ci][2][pi] if pi is not None and ci < len(exp) and pi < len(exp[ci][2]) else None},
                                  base_replay, key=f"image:narrow!=wide:{kind}")
                else:
                    ctx.count(f"outside-hypothesis:{label}:narrow!=wide:{cls}")
                    if cls == "outside:stored-values-fit" and "observation" not in ctx.notes and not corpus:
                        ctx.notes["observation"] = {
                            "what": "every decoded sample and every channel content of the wide run fits i16, only a tendency numerator "
                                    "(4a-3c-b+-6) does not; narrow and wide decodes differ. Outside the stated hypothesis, reported, not a violation.",
                            "plan": line[:3000], "ranges": base_replay["hypothesis"]}
            if fits:
                if gn != exp:
                    ci = first_diff(gn, exp)
                    report(ctx, "narrow-decode-differs-from-encoded-samples", {"build": label, "channel": ci}, base_replay,
                                  key=f"image:narrow!=expected:{kind}")
                if gw != exp:
                    ci = first_diff(gw, exp)
                    report(ctx, "wide-decode-differs-from-encoded-samples", {"build": label, "channel": ci}, base_replay,
                                  key=f"image:wide!=expected:{kind}")
                if rg["wide"] != exp:
                    ctx.failed_obligations.append(f"model: wide run differs from narrow run although fits=1 (contradicts C12_subimage/inverseAll): {line[:300]}")
            else:
                # outside the hypothesis the narrow decoder need not equal the model at sb=16 (the model
                # mirrors the scalar i16 kernels; the vector kernels compute tendency by a formula that
                # differs from it exactly when the numerator leaves i16): counted. The wide decoder must
                # equal the model at sb=32 whenever the wide token decode reproduces the coded channels.
                if gn != exp:
                    ctx.count(f"outside-hypothesis:{label}:narrow!=model-sb16:{cls}")
                if rg["decsame"] and gw != rg["wide"]:
                    report(ctx, "wide-decode-differs-from-model-sb32", {"build": label, "channel": first_diff(gw, rg["wide"]), "class": cls},
                                  base_replay, key=f"image:wide!=model32:{kind}")
        if fits:
            for release in (False, True):
                sn, sw = sruns[(release, False)][k] or "crash", sruns[(release, True)][k] or "crash"
                ctx.count("streams-compared")
                if sn != sw:
                    report(ctx, "integer-streams-of-narrow-session-differ-from-wide",
                           {"build": "release" if release else "checked", "narrow": sn[:160], "wide": sw[:160]},
                           dict(base_replay, how=base_replay["how"] + " ; the same with ' streams=1' appended: 8- and 16-bit sample streams"),
                           key=f"image:streams-narrow!=wide:{kind}")
        if thr is not None and fits:
            gt = grids(thr[k] or "crash")
            if gt != exp:
                report(ctx, "narrow-decode-with-thread-pool-differs", {"answer": (thr[k] or "crash")[:120]}, base_replay,
                              key=f"image:threads:{kind}")
        if fits and len(ctx.cov["samples"]) < 4 and len(line) < 600:
            ctx.sample({"kind": kind, "plan": line, "codestream_hex": hexs, "hypothesis": base_replay["hypothesis"]})
    return n_in, n_out


def corpus_cases(ctx):
    """corpus/c12/*.plan: one plan per file (first line), kept witnesses"""
    d = os.path.join(VERIF, "corpus", "c12")
    out = []
    if os.path.isdir(d):
        for f in sorted(os.listdir(d)):
            if f.endswith(".plan"):
                out.append((f, open(os.path.join(d, f)).read().split("\n")[0].strip()))
    return out


def check_corpus(ctx):
    items = corpus_cases(ctx)
    if not items:
        return
    lines = [l for _, l in items]
    encs = run_lines_robust([MODEL_EXE, "enc"], lines, per_line_timeout=90)
    rngs = run_lines_robust([MODEL_EXE, "c12"], ["range " + l for l in lines], per_line_timeout=120)
    for (name, line), e, r in zip(items, encs, rngs):
        enc = pl.parse_enc_output(e) if e and e.startswith("ok") else None
        rg = parse_range(r) if r and r.startswith("ok") else None
        if enc is None or rg is None:
            ctx.failed_obligations.append(f"corpus/c12/{name}: not encodable any more")
            continue
        rg = rg[0]
        res = {}
        for release in (False, True):
            dn = decode_all(ctx, [enc[0]], release, False)[0]
            dw = decode_all(ctx, [enc[0]], release, True)[0]
            res["release" if release else "checked"] = "equal" if grids(dn or "") == grids(dw or "") and grids(dn or "") is not None else "differ"
        ctx.case(("corpus", name))
        ctx.count(f"corpus:{name}:fits={int(rg['fits'])}:{'/'.join(sorted(set(res.values())))}")
        if rg["fits"] and "differ" in res.values():
            report(ctx, "narrow-decode-differs-from-wide-inside-hypothesis", {"corpus": name, "builds": res},
                          {"plan": line, "codestream_hex": enc[0]}, key=f"image:corpus:{name}")
        ctx.notes.setdefault("corpus", {})[name] = {"fits": rg["fits"], "stored": rg["stored"], "transforms": rg["transforms"],
                                                     "narrow_vs_wide": res}


def check_blended(ctx):
    """multi-frame images (blending, reference frames, crops) whose samples overshoot the nominal
    range, narrow buffers requested: the renderer converts them to float itself (blend, patches, ...),
    and the float picture must be bit-identical to the one from forced wide buffers"""
    import feedlib as fl
    rng = ctx.rng
    plans, regs = [], []
    for _ in range(36 if ctx.quick else 500):
        img, frames = fl.gen_multiframe(rng, overshoot=rng.choice([0, 3, 12, 40]), max_bits=12)
        img["buf16"] = True
        img["anim"] = None
        if not img["gray"] and rng.random() < 0.35:
            img["xyb"] = True            # the decoder's own XYB -> RGB conversion has a narrow and a wide arm
        for f in frames:
            f["dur"] = 0
            if rng.random() < 0.3:
                f["gab"] = True
        plans.append(pl.plan_line(img, frames))
        # a region request after loading (render handles are rebuilt from the recorded reference slots)
        o, iw, ih = img.get("orient", 1), img["w"], img["h"]
        W, H = (iw, ih) if o <= 4 else (ih, iw)
        rw, rh = rng.randint(1, W), rng.randint(1, H)
        regs.append(None if rng.random() < 0.5 else (rng.randint(0, W - rw), rng.randint(0, H - rh), rw, rh))
    encs = run_lines_robust([MODEL_EXE, "enc"], plans, per_line_timeout=90)
    rngs = run_lines_robust([MODEL_EXE, "c12"], ["range " + l for l in plans], per_line_timeout=120)
    todo = []
    for line, e, r, reg in zip(plans, encs, rngs, regs):
        if not (e and e.startswith("ok")) or not (r and r.startswith("ok")):
            ctx.count("blended:encoder-or-range-rejected")
            continue
        fits = all(t == "fits=1" for t in r.split() if t.startswith("fits="))
        todo.append((line, e.split()[1], fits, reg))
    for release in (False, True):
        dn = decode_all(ctx, [t[1] for t in todo], release, False, regions=[t[3] for t in todo])
        dw = decode_all(ctx, [t[1] for t in todo], release, True, regions=[t[3] for t in todo])
        for (line, hexs, fits, reg), a, b in zip(todo, dn, dw):
            ctx.case(("blended", line, release, reg), nontrivial=True)
            ctx.count("blended:" + ("inside" if fits else "outside") + "-hypothesis")
            if " xyb " in line:
                ctx.count("blended:xyb-encoded")
            if reg:
                ctx.count("blended:region-request-after-loading")
            a, b = a or "crash", b or "crash"
            rep = {"plan": line, "codestream_hex": hexs, "build": "release" if release else "checked", "region": reg,
                   "how": "echo 'decode <hex> wide=0|1 threads=0 [region=L,T,W,H]' | harness/target/{debug,release}/img"}
            if any(x.startswith(("panic", "crash")) or x == "hang" for x in (a, b)):
                report(ctx, "decoder-panic-or-hang", {"narrow": a[:200], "wide": b[:200]}, rep, key="blended-panic:" + a.split()[0])
            elif a != b and fits:
                report(ctx, "narrow-render-differs-from-wide-inside-hypothesis", {"narrow": a[:160], "wide": b[:160]}, rep,
                       key="c12:blended")


def sample_ops(ctx):
    """the scalar operations of the two sample types by value (hook H7 `sample_op`): narrow must equal
    wide whenever operands and the wide result fit 16 bits (property oracle on the implementation
    alone), and both must equal the Lean `sUnpack / sAdd / sMulAdd / gradClamped / sFromI32`"""
    rng = ctx.rng
    edge = [0, 1, -1, 2, -2, 255, 256, 4095, -4096, 16383, 16384, -16384, 30000, -30000, 32766, 32767, -32767, -32768]
    def v16():
        return rng.choice(edge) if rng.random() < 0.5 else rng.randint(-32768, 32767)
    def v32():
        r = rng.random()
        if r < 0.4:
            return v16()
        if r < 0.7:
            return rng.choice([32768, -32769, 65535, 65536, 2 ** 31 - 1, -2 ** 31, 2 ** 30, -2 ** 30, 10 ** 6])
        return rng.randint(-2 ** 31, 2 ** 31 - 1)
    lines = []
    for _ in range(1500 if ctx.quick else 40000):
        op = rng.choice(["unpack", "add", "muladd", "muladd", "grad", "grad", "from"])
        if op == "unpack":
            a, b, c = rng.choice([0, 1, 2, 3, 65534, 65535, 65536, 65537, 2 ** 32 - 1, 2 ** 32 - 2, rng.randrange(2 ** 32), rng.randrange(70000)]), 0, 0
        elif op == "muladd":
            a = v16()
            b = rng.choice([1, 1, 2, 3, -1, 7, 255, 4096, 65537, v32()])
            c = rng.choice([0, 0, 1, -3, 100, v16(), v32()])
        elif op == "grad":
            a, b, c = v16(), v16(), v16()
        elif op == "add":
            a, b, c = v16(), v16(), 0
        else:
            a, b, c = v32(), 0, 0
        lines.append(f"sop {op} {a} {b} {c}")
    for rel in (False, True):
        impl = run_lines_robust([ctx.harness_bin("c12", release=rel)], lines, per_line_timeout=20)
        model = run_lines_robust([MODEL_EXE, "c12"], lines, per_line_timeout=20) if not rel else model
        for l, o, m in zip(lines, impl, model):
            w = l.split()
            ctx.case((l, rel), nontrivial=True)
            ctx.count("sample-op:" + w[1])
            mo = re.match(r"ok (-?\d+) (-?\d+)$", o or "")
            rep = {"op": l, "impl": o, "model": m, "build": "release" if rel else "checked",
                   "how": "echo '<op>' | harness/target/{debug,release}/c12 ; echo '<op>' | lean/.lake/build/bin/jxlmodel c12"}
            if not mo:
                ctx.violation("sample-operation-panicked", (o or "crash")[:200], rep, key="c12:sop-crash:" + w[1])
                continue
            n, wd = int(mo.group(1)), int(mo.group(2))
            args = [int(x) for x in w[2:]]
            fits = -32768 <= wd <= 32767 and (w[1] in ("unpack", "from") or all(-32768 <= x <= 32767 for x in args[:1] if w[1] == "muladd")
                                               and (w[1] == "muladd" or all(-32768 <= x <= 32767 for x in args)))
            if fits and n != wd:
                ctx.violation("narrow-sample-operation-differs-from-wide", f"{l}: i16 {n} i32 {wd}", rep, key="c12:sop:" + w[1])
            elif o != m:
                ctx.failed_obligations.append(f"correspondence sample op vs Lean model differs: {l}: impl {o!r} model {m!r}")
                break


def run(ctx):
    ok = ctx.lean_build(MODULES)
    if ok:
        ctx.audit(MODULES, ctx.update_lock)
        if not ctx.quick:
            ctx.leanchecker(MODULES)
    ctx.cargo_build(["img", "c12"])
    ctx.cargo_build(["img", "c12"], release=True)
    if not ok:
        return
    ctx.cov["rule"] = (
        "(a) squeeze kernels: every width 1..130 x heights {1,2,3,8,17} (thorough 1..20,31..33) x both directions x patterns "
        "(12-bit natural / extreme / alternating-sign pixel grids forward-squeezed in exact arithmetic; raw grids at the edge of the "
        "hypothesis, moderate, and full-range i16); RCT: 7 types x 6 permutations x widths 1..130 (+ heights 3,17 on lane-edge widths) x "
        "patterns (12-bit forward-transformed, 13/14-bit raw, full range); scalar tendency on ~400 (thorough 6000) triples; each in the "
        "checked and the release build; (b) images of depth 1..12 with modular_16bit_buffers=1 from the planlib generators (general, "
        "table trees, palettes incl. delta, multi-group) plus squeeze on widths 17..140 x heights >= 8 and a two-RCT stress family, "
        "decoded narrow and wide in both builds; a case is inside the hypothesis when the Lean wide run says so; non-trivial = more "
        "than one distinct value; distinct by input text")
    check_corpus(ctx)
    # (a)
    ctx._kernel_cases = kernel_lines(ctx)
    ctx._kernel_model = run_lines_robust([MODEL_EXE, "c12"], [l for l, _ in ctx._kernel_cases], per_line_timeout=30, batch=400)
    check_kernels(ctx, "checked", False)
    check_kernels(ctx, "release", True)
    tendency_boundary(ctx)
    sample_ops(ctx)
    check_blended(ctx)
    # (b)
    n_in, n_out = check_images(ctx, make_images(ctx))
    ctx.notes["images"] = {"inside_hypothesis": n_in, "outside_hypothesis": n_out}
    ctx.assumptions += [
        "'truthfully declares' = every value listed by the Lean traces of the wide run (decoded samples, squeeze diff/first/second and the "
        "tendency numerator, RCT results and halved sums, palette values) is an i16; evaluated per case by the Lean driver",
        "the AVX2/SSE4.1 kernels are not modelled instruction by instruction: they are pinned to the scalar kernels and the model by the "
        "exhaustive-width runs on this machine's CPU (features in notes); NEON/wasm kernels are not reached",
        "group partition/re-assembly and the conversion of Modular samples into frame buffers are covered by the whole-decoder runs only",
        "the reference encoder's streams use the fixed-length prefix code of Model/Enc/EntropyV0 (entropy coding is C04's)",
    ]
