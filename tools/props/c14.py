"""C14 - image header, frame header and TOC are reported exactly as encoded; parsing stops at the
writer's bit.

Theorems: Props/C14.lean (one round-trip theorem over every bundle description, primitive
round trips, derived values, generated == pinned descriptions).
Tie: tools/translate.py regenerates Gen/Headers.lean from the CURRENT source on every run (the
theorem `C14_generated_matches_pinned` re-checks it against the pinned descriptions the executable
model is built from), plus a two-way differential run:
  (1) random canonical header values -> `jxlmodel hdrenc` (model writer, random selector choices)
      -> real ImageHeader/FrameHeader/Toc::parse -> dump and bits consumed must equal what was
      written (implementation-side oracle), and the model parser must agree with the model writer;
  (2) mutated / random bit strings -> real parsers and model parsers -> same dump or same error.
"""
import json, struct
from vlib import *
import translate

MODULES = ["JxlModel.Props.C14", "JxlModel.Props.C14Toc"]

# ---------------------------------------------------------------------------------------------
# value generation from the descriptions exported by the model (`jxlmodel c14` op `desc`)
# ---------------------------------------------------------------------------------------------

def brand(rng, lo, hi):
    """boundary-biased integer in [lo, hi]"""
    if hi <= lo:
        return lo
    r = rng.random()
    if r < 0.18:
        return lo
    if r < 0.36:
        return hi
    if r < 0.44:
        return min(hi, lo + 1)
    if r < 0.52:
        return max(lo, hi - 1)
    if r < 0.75:
        return rng.randint(lo, min(hi, lo + 40))
    return rng.randint(lo, hi)


def gen_dist(rng, d, ctx, tag):
    if d[0] == "c":
        return d[1]
    off, n = d[1], d[2]
    return off + brand(rng, 0, min((1 << n) - 1, (1 << 32) - 1 - off))


def gen_u32(rng, dists, ctx, tag):
    k = rng.randrange(4)
    ctx.count(f"u32.sel{k}")
    d = dists[k]
    if d[0] == "b":
        ctx.count("u32.bits-dist")
    return gen_dist(rng, d, ctx, tag)


U64_FORMS = [(0, 0), (1, 16), (17, 272)] + [(0, (1 << (12 + 8 * g)) - 1) for g in range(7)] + [(0, (1 << 64) - 1)]


def gen_u64(rng, ctx):
    f = rng.randrange(len(U64_FORMS))
    ctx.count(f"u64.form{f}")
    lo, hi = U64_FORMS[f]
    if f >= 3:
        lo = (hi + 1) >> 8 if f > 3 else 0       # aim at values that need this form
    return brand(rng, lo, hi)


def f16_to_float(bits):
    return struct.unpack("<e", struct.pack("<H", bits))[0]


def gen_f16(rng, ctx, positive=False):
    r = rng.random()
    if r < 0.08:
        v, c = 0, "zero"
    elif r < 0.22:
        v, c = rng.randint(1, 0x3ff), "subnormal"
    elif r < 0.30:
        v, c = rng.choice([0x7bff, 0x0400, 0x3c00, 0x0001, 0x03ff]), "edge"
    else:
        v, c = (rng.randint(1, 30) << 10) | rng.randint(0, 0x3ff), "normal"
    if not positive and rng.random() < 0.4:
        v |= 0x8000
    ctx.count("f16." + c)
    return v


def packed_to_int(x):
    return x // 2 if x % 2 == 0 else -(x // 2) - 1


NAMES = ["", "a", "alpha", "depth map", "déjà", "中文", "x" * 15, "y" * 16, "z" * 47, "w" * 48,
         "\U0001F600 smile", "q" * 70, "k" * 300]


class Gen:
    def __init__(self, ctx, rng, desc, kind):
        self.ctx, self.rng, self.desc, self.kind = ctx, rng, desc, kind

    def val(self, ty, path):
        rng, k = self.rng, ty["k"]
        name = path[-1] if path else ""
        ov = self.override(ty, path, name)
        if ov is not None:
            return ov
        if k == "const":
            return str(ty["c"])
        if k == "u":
            return str(brand(rng, 0, (1 << ty["n"]) - 1))
        if k == "cu":
            return str(ty["c"] + brand(rng, 0, (1 << ty["n"]) - 1))
        if k == "u32":
            return str(gen_u32(rng, ty["d"], self.ctx, name))
        if k == "u64":
            return str(gen_u64(rng, self.ctx))
        if k == "f16":
            return "h%04x" % gen_f16(rng, self.ctx)
        if k == "bool":
            return rng.choice("TF")
        if k == "enum":
            if rng.random() < 0.97 or not ty["valid"]:
                return str(rng.choice(ty["valid"]))
            return self.val(ty["t"], path)
        if k == "signed":
            inner = int(self.val(ty["t"], path))
            i = packed_to_int(inner)
            return str(i) if i < 0 else "+" + str(i)
        if k == "bundle":
            return self.bundle(ty["f"], path)
        if k == "vec":
            n = rng.choice([1, 1, 2, 3, 4])
            return "[ " + " ".join(self.val(ty["t"], path + ["[]"]) for _ in range(n)) + " ]"
        if k == "arr":
            return "[ " + " ".join(self.val(ty["t"], path + ["[]"]) for _ in range(ty["n"])) + " ]"
        if k == "unit":
            return "_"
        if k == "ext":
            return "~"
        raise AssertionError(ty)

    def bundle(self, fields, path):
        names = [f[0] for f in fields]
        rng = self.rng
        if names == ["len", "data", "_utf8"]:
            s = rng.choice(NAMES) if rng.random() < 0.7 else "".join(chr(rng.randint(32, 126)) for _ in range(rng.randint(0, 60)))
            b = s.encode()
            self.ctx.count("name.len-sel%d" % (0 if len(b) == 0 else 1 if len(b) < 16 else 2 if len(b) < 48 else 3))
            return "{ len %d data [ %s ] _utf8 _ }" % (len(b), " ".join(str(x) for x in b))
        if names == ["extension_bits", "lens", "_payload"]:
            if rng.random() < 0.8:
                return "{ extension_bits 0 lens [ ] _payload _ }"
            if rng.random() < 0.3:
                # any u64 (all forms), tiny payloads
                return "{ extension_bits %d lens [ %s ] _payload _ }" % (
                    gen_u64(rng, self.ctx), " ".join(str(rng.randint(0, 3)) for _ in range(5)))
            bits = 0
            for _ in range(rng.randint(1, 3)):
                bits |= 1 << rng.choice([0, 1, 2, 7, 13, 31, 62, 63])
            lens = [brand(rng, 0, rng.choice([0, 5, 16, 17, 300])) for _ in range(3)]
            self.ctx.count("extensions.nonzero")
            return "{ extension_bits %d lens [ %s ] _payload _ }" % (bits, " ".join(map(str, lens)))
        if "fbits" in names and "ibits" in names:            # BitDepth
            if rng.random() < 0.3:
                if rng.random() < 0.9:
                    e = rng.randint(2, 8)
                    fb = e + 1 + brand(rng, 2, 23)
                else:
                    e, fb = rng.randint(1, 16), rng.choice([32, 16, 24, rng.randint(1, 64)])
                self.ctx.count("bitdepth.float")
                return "{ float_sample T fbits %d exp_bits %d }" % (fb, e)
            ib = brand(rng, 1, 31) if rng.random() < 0.95 else rng.randint(32, 64)
            self.ctx.count("bitdepth.int")
            return "{ float_sample F ibits %d }" % ib
        if "intensity_target" in names:                    # ToneMapping
            if rng.random() < 0.2:
                return "{ all_default T }"
            it = gen_f16(rng, self.ctx, positive=True) or 0x3c00
            mn = rng.choice([0, 0x8000, it, 1, max(1, it - 1), rng.randint(0, it)])
            rel = rng.random() < 0.5
            lb = rng.choice([0, 0x3c00, 1, 0x3bff]) if rel else gen_f16(rng, self.ctx, positive=True)
            if rng.random() < 0.05:
                lb = gen_f16(rng, self.ctx)
            return "{ all_default F intensity_target h%04x min_nits h%04x relative_to_max_display %s linear_below h%04x }" % (
                it, mn, "T" if rel else "F", lb)
        parts = []
        for fname, fty in fields:
            parts.append(fname)
            parts.append(self.val(fty, path + [fname]))
        return "{ " + " ".join(parts) + " }"

    def small_dim(self):
        return brand(self.rng, 1, self.rng.choice([8, 129, 300, 1025, 3000]))

    def override(self, ty, path, name):
        rng = self.rng
        p = "/".join(path)
        if name == "signature":
            return "2815"
        if self.kind == "imgspec" and name in ("extra_fields", "have_preview"):
            return "T"
        if self.kind == "imgspec" and name == "all_default" and len(path) <= 2:
            return "F"
        if name == "all_default" and len(path) <= 2:
            return "T" if rng.random() < 0.1 else "F"
        if name == "all_default":
            return "T" if rng.random() < 0.3 else "F"
        if name == "extra_fields":
            return "T" if rng.random() < 0.6 else "F"
        if name == "num_extra":
            r = rng.random()
            return str(0 if r < 0.3 else 1 if r < 0.55 else rng.randint(2, 4) if r < 0.85 else rng.randint(5, 17) if r < 0.96 else rng.randint(18, 40))
        if name == "default_alpha_channel":
            return "T" if rng.random() < 0.15 else "F"
        if name == "cw_mask":
            return str(rng.choice([0, 0, 0, 1, 2, 4, 3, 7]))
        if name == "default_m":
            return "T" if rng.random() < 0.6 else "F"
        if name == "flags" and ty["k"] == "u64":
            if rng.random() < 0.6:
                v = 0
                for b in (1, 2, 16, 32, 128):
                    if rng.random() < 0.25:
                        v |= b
                return str(v)
            return None
        if name == "_ignored":
            return str(rng.choice([0, 1, 0xffffffff, rng.randint(0, 0xffffffff)]))
        if self.kind == "ftoc" and name in ("width", "height") and ty["k"] == "u32":
            if rng.random() < 0.93:
                return str(self.small_dim())
            return None
        if self.kind == "ftoc" and name in ("h_div8", "w_div8"):
            return None
        if name == "num_passes" and rng.random() < 0.5:
            return "1"
        if name in ("w0", "w1", "w2") and ty["k"] == "arr":
            while True:
                a, b = gen_f16(rng, self.ctx), gen_f16(rng, self.ctx)
                if f16_to_float(a) + f16_to_float(b) != -0.25:
                    return "[ h%04x h%04x ]" % (a, b)
        return None


def gen_raw(ctx, rng, desc, which, kind):
    g = Gen(ctx, rng, desc, kind)
    return g.bundle(desc[which], [which])


def gen_sizes(rng):
    dists = [(0, 10), (1024, 14), (17408, 22), (4211712, 30)]
    out = []
    for _ in range(rng.randint(1, 12)):
        off, n = rng.choice(dists)
        # empty sections are common (HfGlobal of a Modular frame, empty groups) and share their offset
        # with the next section
        out.append(0 if rng.random() < 0.3 else off + brand(rng, 0, (1 << n) - 1))
    return out


def gen_perm(rng, ctx):
    if rng.random() < 0.6:
        return "-"
    nsym = rng.choice([1, 2, 4, 4])
    count = max(nsym, rng.choice([1, 2, 3, 4, 5, 8, 9, 64, 1000, 32768]))
    if count == 1:
        syms = [0]
    else:
        syms = sorted(rng.sample(range(min(count, 40)), nsym))
        if rng.random() < 0.8 and 0 not in syms:
            syms[0] = 0
        rng.shuffle(syms)
    digits = [rng.choice(syms) for _ in range(rng.randint(1, 8))]
    ctx.count(f"toc.perm-nsym{len(syms)}")
    return "%d %s %s" % (count, ",".join(map(str, syms)), ",".join(map(str, digits)))


# ---------------------------------------------------------------------------------------------
# mutation of written streams
# ---------------------------------------------------------------------------------------------

def mutate(rng, hx, nbits):
    b = bytearray.fromhex(hx) if hx != "-" else bytearray()
    r = rng.random()
    if r < 0.55 and nbits > 0:
        for _ in range(rng.choice([1, 1, 1, 2, 3])):
            i = rng.randrange(nbits)
            b[i // 8] ^= 1 << (i % 8)
        kind = "bitflip"
    elif r < 0.8 and len(b) > 0:
        b = b[:rng.randrange(len(b))]
        kind = "truncate"
    elif r < 0.9:
        b += bytes(rng.randrange(256) for _ in range(rng.randint(1, 6)))
        if nbits % 8:
            b[nbits // 8] ^= rng.randrange(256) & (0xff << (nbits % 8)) & 0xff
        kind = "tail"
    else:
        i = rng.randrange(max(1, len(b)))
        b = b[:i] + bytes(rng.randrange(256) for _ in range(rng.randint(1, 4))) + b[i:]
        kind = "insert"
    return (b.hex() or "-"), kind


def klass(line):
    """coarse class of an answer line"""
    w = line.split()
    if not w:
        return "empty"
    if w[0] == "ok":
        return "ok"
    if w[0].endswith("err"):
        return " ".join(w[:3]) if len(w) > 2 and w[1] == "invalid" else " ".join(w[:2])
    return w[0]


# ---------------------------------------------------------------------------------------------

def run(ctx):
    rng = ctx.rng
    # 1. regenerate the descriptions from the CURRENT source tree
    try:
        translate.run(REPO)
    except translate.TranslateError as e:
        ctx.failed_obligations.append(str(e))
    ok = ctx.lean_build(MODULES)
    if ok:
        ctx.audit(MODULES, ctx.update_lock)
        if not ctx.quick:
            ctx.leanchecker(MODULES)
    else:
        # the executable model is built from the pinned descriptions only: it still builds when the
        # regenerated ones broke a theorem, and the differential run below looks for a witness
        with Lock():
            rc, out, err, dt = sh(["lake", "build", "jxlmodel"], cwd=LEAN, timeout=3600)
        if rc != 0:
            ctx.failed_obligations.append("jxlmodel does not build: " + (out + err)[-400:])
            return
    ctx.cargo_build(["c14"])

    if getattr(ctx, "replay", None):
        # replay one recorded request on the real parsers and on the model
        r = json.load(open(ctx.replay))["replay"]
        req = r["request"]
        io, _, _ = ctx.run_impl("c14", [req])
        mo, _, _ = ctx.run_model("c14", [req])
        print("request :", req[:300])
        print("impl    :", (io or ["<died>"])[0][:600])
        print("model   :", (mo or ["<died>"])[0][:600])
        if "expected" in r:
            print("expected:", r["expected"][:600])
        ctx.case(req)
        bad = (io[:1] != mo[:1]) or ("expected" in r and io[:1] != [r["expected"]]) or ("panic" in (io or [""])[0])
        if bad:
            ctx.violation("replayed", "the recorded request still fails", r, key=json.load(open(ctx.replay)).get("key"))
        return

    desc_lines, rc, err = ctx.run_model("c14", ["desc"])
    desc = json.loads(desc_lines[0])

    n_img, n_frame, n_ftoc, n_sub, n_mut = (1500, 1800, 900, 800, 3) if ctx.quick else (16000, 20000, 9000, 9000, 4)
    n_spec = 150 if ctx.quick else 1500
    ctx.cov["rule"] = ("random canonical header values drawn from the model's own descriptions (every U32 "
                       "selector targeted with boundary values, all U64 forms, F16 zero/subnormal/normal/edge, "
                       "names, extra channels, animation/preview/intrinsic size, colour encodings, tone mapping, "
                       "all frame types/crops/blend modes/passes/filters, TOCs up to thousands of entries with "
                       "hand-made permutations) written by the Lean writer with random selector choices and "
                       "parsed by the real parsers; plus bit-flip/truncate/tail/insert mutants and random strings "
                       "parsed by both; a case is non-trivial if the header is not all_default; distinct by bytes")
    enc_ops, meta = [], []
    sub_names = [k for k in desc if k not in ("ImageHeader", "FrameHeader")]
    for i in range(n_img):
        enc_ops.append(f"img {rng.randrange(1 << 30)} " + gen_raw(ctx, rng, desc, "ImageHeader", "img"))
        meta.append("img")
    for i in range(n_frame):
        enc_ops.append(f"frame {rng.randrange(1 << 30)} " + gen_raw(ctx, rng, desc, "ImageHeader", "frame") + " | " +
                       gen_raw(ctx, rng, desc, "FrameHeader", "frame"))
        meta.append("frame")
    for i in range(n_ftoc):
        enc_ops.append(f"ftoc {rng.randrange(1 << 30)} " + gen_raw(ctx, rng, desc, "ImageHeader", "ftoc") + " | " +
                       gen_raw(ctx, rng, desc, "FrameHeader", "ftoc") + " | " + gen_perm(rng, ctx) + " | " +
                       " ".join(map(str, gen_sizes(rng))))
        meta.append("ftoc")
    for i in range(n_spec):
        # image headers whose preview size is written as the FORMAT defines it (see Spec.previewHeader)
        raw = gen_raw(ctx, rng, desc, "ImageHeader", "imgspec")
        enc_ops.append(f"imgspec {rng.randrange(1 << 30)} " + raw)
        meta.append("imgspec")
    for i in range(n_sub):
        nm = sub_names[i % len(sub_names)]
        enc_ops.append(f"sub {nm} {rng.randrange(1 << 30)} " + gen_raw(ctx, rng, desc, nm, "sub"))
        meta.append("sub:" + nm)
    enc, rc, err = ctx.run_model("hdrenc", enc_ops, timeout=3000)
    if rc != 0 or len(enc) != len(enc_ops):
        ctx.failed_obligations.append(f"jxlmodel hdrenc died rc={rc} {err[-300:]} ({len(enc)}/{len(enc_ops)} answers)")
        return

    # 2. parse requests: the written streams, then mutants
    reqs, expect, origin = [], [], []
    spec_reqs, spec_exp = [], []
    for op, m, e in zip(enc_ops, meta, enc):
        w = e.split(" ", 1)
        if w[0] != "ok":
            ctx.count("enc." + e.replace(" ", "-")[:40])
            continue
        head, _, dump = e.partition(" | ")
        hw = head.split()
        if m == "img":
            nbits, hx = int(hw[1]), hw[2]
            req, exp = f"img {hx}", f"ok {nbits} | {dump}"
            muts = [("img", hx, nbits)]
        elif m == "imgspec":
            nbits, hx = int(hw[1]), hw[2]
            req, exp = f"img {hx}", f"ok {nbits} | {dump}"
            muts = []
            # the model parser built on the format's description must invert the format's writer
            spec_reqs.append(f"imgspec {hx}"); spec_exp.append(exp)
        elif m == "frame":
            ihx, nbits, hx = hw[2], int(hw[3]), hw[4]
            req, exp = f"frame {ihx} {hx}", f"ok {nbits} | {dump}"
            muts = [("frame " + ihx, hx, nbits), ("ftoc " + ihx, hx, nbits)]
        elif m == "ftoc":
            ihx, fhbits, nbits, hx = hw[2], int(hw[3]), int(hw[4]), hw[5]
            req, exp = f"ftoc {ihx} {hx}", f"ok {fhbits} {nbits} | {dump}"
            muts = [("ftoc " + ihx, hx, nbits)]
        else:
            nm = m.split(":")[1]
            nbits, hx = int(hw[1]), hw[2]
            req, exp = f"sub {nm} {hx}", f"ok {nbits} | {dump}"
            muts = [(f"sub {nm}", hx, nbits)]
        ctx.count("written." + m.split(":")[0])
        reqs.append(req); expect.append(exp); origin.append(op)
        for pre, hx, nbits in muts:
            for _ in range(n_mut):
                mh, kind = mutate(rng, hx, nbits)
                reqs.append(f"{pre} {mh}"); expect.append(None); origin.append("mutant:" + kind)
    # pure random strings
    for _ in range(400 if ctx.quick else 4000):
        body = bytes(rng.randrange(256) for _ in range(rng.randint(0, 40))).hex()
        reqs.append("img ff0a" + body); expect.append(None); origin.append("random")
        nm = rng.choice(sub_names)
        reqs.append(f"sub {nm} " + (body or "-")); expect.append(None); origin.append("random")

    # every one of the 2^16 half-float patterns through the real conversion and the integer model
    # (ToneMapping: all_default = 0, then intensity_target = the pattern, then zeros)
    for v in range(1 << 16):
        x = v << 1
        reqs.append("sub ToneMapping %02x%02x%02x00000000" % (x & 0xff, (x >> 8) & 0xff, x >> 16))
        expect.append(None); origin.append("f16-exhaustive")

    if not ctx.quick:
        # exhaustive small scope: every bit string of up to 16 bits for the small bundles
        for nm in ("BitDepth", "AnimationHeader", "Passes", "Customxy", "Name", "Extensions", "SizeHeader",
                   "PreviewHeader", "ColourEncoding", "ToneMapping", "RestorationFilterModular", "RestorationFilterVarDct"):
            for v in range(1 << 16):
                reqs.append(f"sub {nm} {v & 0xff:02x}{v >> 8:02x}"); expect.append(None); origin.append("exhaustive16")
        for v in range(1 << 16):
            reqs.append(f"img ff0a{v & 0xff:02x}{v >> 8:02x}"); expect.append(None); origin.append("exhaustive16")

    impl, rc, err = ctx.run_impl("c14", reqs, timeout=3000)
    if rc != 0 or len(impl) != len(reqs):
        ctx.failed_obligations.append(f"harness c14 died rc={rc} {err[-300:]} ({len(impl)}/{len(reqs)} answers)")
        return
    model, rc2, err2 = ctx.run_model("c14", reqs, timeout=3000)
    if rc2 != 0 or len(model) != len(reqs):
        ctx.failed_obligations.append(f"jxlmodel c14 died rc={rc2} {err2[-300:]} ({len(model)}/{len(reqs)} answers)")
        return

    spec_model, rc3, err3 = ctx.run_model("c14", spec_reqs, timeout=3000)
    spec_ok = {e for r, e, mo in zip(spec_reqs, spec_exp, spec_model) if mo == e}
    for r, e, mo in zip(spec_reqs, spec_exp, spec_model):
        if mo != e:
            ctx.failed_obligations.append(f"format-level model parser disagrees with format-level writer on {r[:120]}")
    n_bad = 0
    per_key = {}

    def report(kind_, detail, replay, key):
        """at most a handful of replay files per key (one broken condition breaks thousands of headers)"""
        per_key[key] = per_key.get(key, 0) + 1
        if per_key[key] <= 5:
            ctx.violation(kind_, detail, replay, key=key)

    for req, exp, org, io, mo in zip(reqs, expect, origin, impl, model):
        kind = req.split()[0] + (":" + req.split()[1] if req.startswith("sub") else "")
        ctx.count("answer." + klass(io))
        nontrivial = io.startswith("ok") and "all_default" not in io
        ctx.case(req, nontrivial)
        # implementation-side oracle on the real parser's own answer: nothing may panic
        if "panic" in io:
            m = re.search(r"(jxl-[\w-]+/src/[\w/]+\.rs):\d+_(\w+)", io)
            if m:
                pkey = f"c14:panic:{m.group(1)}:{m.group(2)}"
            elif "ow=panic" in io or "oh=panic" in io:
                pkey = "c14:panic:width_with_orientation"
            else:
                pkey = None          # ng=/nlg=/tocpanic: u32 products only reachable by calling Toc::parse directly
            if pkey:
                ctx.count("impl-panic")
                report("reported-value-panics",
                              "a reported header value cannot be obtained: the accessor panics (checked build)",
                              {"how": "feed `request` to harness/target/debug/c14", "request": req, "impl": io[:600],
                               "written": org[:3000]}, pkey)
        if exp is not None:
            ctx.count("roundtrip." + kind.split(":")[0])
            if io == exp:
                if mo != exp:
                    ctx.failed_obligations.append(
                        f"model parser disagrees with model writer on {req[:200]}: wrote {exp[:200]!r} parsed {mo[:200]!r}")
                if len(ctx.cov["samples"]) < 4:
                    ctx.sample({"request": req[:160], "answer": io[:200]})
                continue
            if org.startswith("imgspec") and exp in spec_ok and io == mo:
                # written as the format defines the preview size; the real parser follows its own
                # (different) field conditions - exactly as the description extracted from it says
                n_bad += 1
                ctx.count("format-deviation.preview")
                report("format-conformant-header-misparsed",
                       "PreviewHeader: the code reads w_div8/width although ratio != 0 (format: absent)",
                       {"how": "feed `request` to harness/target/debug/c14; `jxlmodel c14` with op imgspec parses it "
                               "as the format defines", "request": req, "written": org[:3000],
                        "expected": exp[:600], "impl": io[:600]}, "c14:preview-ratio")
                continue
            if mo == exp or (org.startswith("imgspec") and exp in spec_ok):
                # the model parser inverts the model writer, the real parser reports something else
                n_bad += 1
                report("header-not-reported-as-encoded",
                              "the real parser does not report the values that were written (or stops at another bit)",
                              {"how": "feed `request` to harness/target/debug/c14 (real parsers) and to "
                                      "`jxlmodel c14` (model); `written` is the hdrenc request",
                               "request": req, "written": org[:4000], "expected": exp[:3000], "impl": io[:3000]},
                              "c14:" + kind)
            else:
                ctx.failed_obligations.append(
                    f"model writer/parser bug on {req[:200]}: wrote {exp[:160]!r} model parsed {mo[:160]!r} impl {io[:160]!r}")
            continue
        ctx.count("origin." + org)
        if mo.startswith("err stuck") or mo.startswith("tocerr stuck"):
            ctx.count("model-out-of-scope")      # permutation that is not the hand-made code (C04's layer)
            continue
        if io != mo:
            n_bad += 1
            if klass(io) == klass(mo) == "ok" or klass(io) != klass(mo):
                report("model-vs-implementation-disagreement",
                              "real parser and model parser answer differently on this bit string",
                              {"how": "feed `request` to harness/target/debug/c14 and to `jxlmodel c14`",
                               "request": req, "impl": io[:3000], "model": mo[:3000], "origin": org},
                              "c14:diff:" + kind)
    ctx.notes["disagreements"] = n_bad
    ctx.notes["violations_per_key"] = per_key
    ctx.assumptions += [
        "F16 -> f32 value conversion is compared by execution (integer model vs the real arithmetic), not proved",
        "a permuted TOC is covered only for entropy streams of the hand-made trivial code; the entropy layer is C04's",
        "u32 products in num_groups()/Toc::parse that overflow are reported as `panic` by both sides (checked build)",
        "private header fields (div8/ratio/all_default/...) are observable only through the values they determine",
    ]
