"""C02 — no memory-unsafe access is reachable (partial: index arithmetic and ownership geometry).

Theorems: Props/C02.lean (sub-grid geometry: validity, split/groups disjoint+cover, merge restores,
get in bounds; Bitstream::refill, ANS bucket index, access plans of the x86 horizontal squeeze
kernels). What is *not* in the model (Rust aliasing/provenance, lifetimes, vertical squeeze kernels,
EPF/Gabor/DCT SIMD, fb.rs) is reached only by the runs below, which are testing, not proof.

Runs: (a) seeded operation sequences on real MutableSubgrids over a real buffer, tag-and-read-back
ownership oracle on the implementation's own output, then model-vs-implementation diff, in the
checked and the release harness build; (b) squeeze/RCT kernels through hook H7 on all widths
1..130 x heights 1..20 inside canary-filled allocations, both builds; Bitstream geometry histories;
source pins for the transcribed index expressions; (c) thorough: the release binary under valgrind
memcheck on a reduced list (implementation-side oracle, not a proof)."""
import subprocess
from vlib import *

MODULES = ["JxlModel.Props.C02"]
W64 = 2 ** 64
BL = 320                      # underlying buffer length for the op sequences


# --------------------------------------------------------------------------------------------
# (a) operation sequences: generated interactively against the checked harness build

class Proc:
    def __init__(self, cmd):
        self.p = subprocess.Popen(cmd, stdin=subprocess.PIPE, stdout=subprocess.PIPE,
                                  stderr=subprocess.PIPE, text=True, bufsize=1)

    def ask(self, line):
        try:
            self.p.stdin.write(line + "\n")
            self.p.stdin.flush()
            out = self.p.stdout.readline()
        except (BrokenPipeError, OSError):
            return None
        return out.rstrip("\n") if out else None

    def close(self):
        try:
            self.p.stdin.close()
        except OSError:
            pass
        try:
            rc = self.p.wait(timeout=20)
        except subprocess.TimeoutExpired:
            self.p.kill()
            rc = -9
        return rc, (self.p.stderr.read() or "")[-1500:]


def parse_line(out):
    """'res | dims | rle' -> (res, {id: (w, h)}, [values])  (None if it is not of that shape)"""
    parts = out.split(" | ")
    if len(parts) != 3:
        return None
    res, dims, snap = parts
    live = {}
    if dims != "-":
        for d in dims.split(","):
            i, wh = d.split(":")
            w, h = wh.split("x")
            live[int(i)] = (int(w), int(h))
    return res, live, unrle(snap)


def unrle(s):
    vals = []
    if s != "-":
        for tok in s.split(","):
            v, n = tok.split("*")
            vals += [int(v)] * int(n)
    return vals


def bound_pair(rng, size):
    """(start, end) bound words for subgrid(); mostly inside, sometimes one past"""
    a = rng.randint(0, size)
    b = rng.randint(a, size)
    r = rng.random()
    if r < 0.08:
        b = size + 1
    elif r < 0.12:
        a, b = b + 1, a
    elif r < 0.16:
        a = b = size
    ks, ke = rng.choice("iieu"), rng.choice("eeiu")
    s = "u" if ks == "u" else (f"i{a}" if ks == "i" else (f"e{a - 1}" if a > 0 else f"i{a}"))
    e = "u" if ke == "u" else (f"e{b}" if ke == "e" else (f"i{b - 1}" if b > 0 else f"e{b}"))
    return s, e


def gen_sequence(rng, proc, nops):
    """plays one sequence against the checked harness, choosing each op from the answers so far.
    Returns (ops, outs). Ids, dimensions and success are read from the implementation's answers."""
    ops, outs = [f"buf {BL}"], []
    outs.append(proc.ask(ops[0]))
    live, cursor, pairs = {}, 0, []           # pairs: (a, b, 'h'|'v') split siblings still intact

    def play(op):
        nonlocal live
        ops.append(op)
        o = proc.ask(op)
        outs.append(o)
        if o is None:
            return None
        p = parse_line(o)
        if p:
            live = p[1]
        return o

    for _ in range(nops):
        ids = sorted(live)
        nonempty = [i for i in ids if live[i][0] and live[i][1]]
        r = rng.random()
        if (not nonempty and r < 0.9) or r < 0.07:
            w, h = rng.choice([0, 1, 2, 3, 5, 8, 9, 12, 16]), rng.choice([0, 1, 2, 3, 4, 7, 8])
            stride = w + rng.choice([0, 0, 0, 1, 3, 5])
            k = rng.random()
            if k < 0.06 and w > 0:
                stride = w - 1
            need = 0 if (w == 0 or h == 0) else stride * (h - 1) + w
            ln = need
            if k > 0.85:
                ln = max(0, need + rng.choice([-1, 1, 2, stride]))
            gap = rng.choice([0, 0, 1, 4])
            if cursor + gap + ln > BL:
                continue
            o = play(f"from {gap} {ln} {w} {h} {stride}")
            cursor += gap + ln
            continue
        if not ids:
            continue
        i = rng.choice(nonempty if nonempty and rng.random() < 0.85 else ids)
        w, h = live[i]
        if r < 0.17:
            xs, xe = bound_pair(rng, w)
            ys, ye = bound_pair(rng, h)
            play(f"sub {i} {xs} {xe} {ys} {ye}")
            pairs = [p for p in pairs if i not in p[:2]]
        elif r < 0.36:
            hz = rng.random() < 0.5
            size = w if hz else h
            at = rng.choice([0, size, size + 1, rng.randint(0, size), rng.randint(0, size)])
            o = play(f"{'splith' if hz else 'splitv'} {i} {at}")
            m = o and re.match(r"ok new=(\d+)", o)
            if m:
                pairs = [p for p in pairs if i != p[1]] + [(i, int(m.group(1)), 'h' if hz else 'v')]
        elif r < 0.44:
            hz = rng.random() < 0.5
            size = w if hz else h
            at = rng.choice([0, size, size + 1, rng.randint(0, size)])
            play(f"{'ssplith' if hz else 'ssplitv'} {i} {at}")
        elif r < 0.60:
            good = [p for p in pairs if p[0] in live and p[1] in live]
            if good and rng.random() < 0.75:
                a, b, d = rng.choice(good[-3:])
                if rng.random() < 0.12:
                    d = 'v' if d == 'h' else 'h'
                if rng.random() < 0.08:
                    a, b = b, a
            elif len(ids) >= 2:
                a, b = rng.sample(ids, 2)
                d = rng.choice('hv')
            else:
                continue
            play(f"{'mergeh' if d == 'h' else 'mergev'} {a} {b}")
            pairs = [p for p in pairs if b not in p[:2] and a != p[1]]
        elif r < 0.70:
            gw = rng.choice([0, 1, 2, 3, 4, 8, max(1, w), w + 1])
            gh = rng.choice([1, 1, 2, 3, 4, 8, max(1, h), h + 1]) if gw else rng.choice([0, 1, 2])
            if gw and gh and ((w + gw - 1) // gw) * ((h + gh - 1) // gh) > 40:
                continue
            play(f"groups {i} {gw} {gh}")
            pairs = [p for p in pairs if i not in p[:2]]
        elif r < 0.79:
            gw, gh = rng.choice([0, 1, 2, 3, 5, 8]), rng.choice([0, 1, 2, 3, 5, 8])
            nc = rng.choice([0, 1, 2, 3, (w + max(gw, 1) - 1) // max(gw, 1), (w // max(gw, 1)) + 2])
            nr = rng.choice([0, 1, 2, 3, (h + max(gh, 1) - 1) // max(gh, 1), (h // max(gh, 1)) + 2])
            if nc * nr > 40:
                continue
            # (sizes whose products overflow usize are not generated here: see api_wrap_observations)
            play(f"groupsf {i} {gw} {gh} {nc} {nr}")
            pairs = [p for p in pairs if i not in p[:2]]
        elif r < 0.84:
            play(f"borrow {i}")
        elif r < 0.89:
            x = rng.choice([0, max(0, w - 1), w, rng.randint(0, w)])
            y = rng.choice([0, max(0, h - 1), h, rng.randint(0, h)])
            play(f"{rng.choice(['get', 'set'])} {i} {x} {y}")
        elif r < 0.93:
            play(f"row {i} {rng.choice([0, max(0, h - 1), h, rng.randint(0, h)])}")
        elif r < 0.96:
            pts = [rng.randint(0, max(0, d - (rng.random() < 0.9))) for d in (w, h, w, h)]
            play(f"swap {i} {pts[0]} {pts[1]} {pts[2]} {pts[3]}")
        else:
            play(f"drop {i}")
            pairs = [p for p in pairs if i not in p[:2]]
        if outs[-1] is None:
            break
    return ops, outs


def cells_with(vals, tag):
    return {i for i, v in enumerate(vals) if v == tag}


def grid_oracle(ops, outs):
    """The property evaluated on the implementation's own answers (no model): every live sub-grid
    owns exactly w*h cells, no cell has two owners, children stay inside what their parent owned,
    splits/groups/merges conserve ownership, everything else keeps its old value, accesses outside
    the reported dimensions panic. Returns (index of the offending op, text) or None."""
    prev_vals, prev_live, cursor = None, {}, 0
    step = 0
    for k, (op, out) in enumerate(zip(ops, outs)):
        w = op.split()
        if out is None:
            return k, "harness process died (abort / signal) on this operation"
        if w[0] == "buf":
            p = parse_line(out)
            if not p or any(p[2]):
                return k, "buffer not zero-initialised / unparsable"
            prev_vals, prev_live, cursor, step = p[2], {}, 0, 0
            continue
        step += 1
        if out == "bad-op":
            continue
        for bad in ("OVERLAP", "TAG-PANIC", "SHARED-DIFFERS", "other:"):
            if bad in out:
                return k, f"harness-side check fired: {out.split(' | ')[0][:200]}"
        p = parse_line(out)
        if not p:
            return k, "unparsable output " + out[:200]
        res, live, vals = p
        if len(vals) != len(prev_vals):
            return k, "buffer length changed"
        tag = lambda i: (step * 4096 + i + 1) % 2 ** 32
        own = {}
        for i, (gw, gh) in live.items():
            c = cells_with(vals, tag(i))
            if len(c) != gw * gh:
                return k, (f"sub-grid {i} is {gw}x{gh} but holds {len(c)} cells after writing its tag "
                           f"(two live sub-grids share a cell, or a write went elsewhere)")
            own[i] = c
        owned = set().union(*own.values()) if own else set()
        for i, v in enumerate(vals):
            if i not in owned and v != prev_vals[i]:
                return k, f"buffer index {i} changed ({prev_vals[i]} -> {v}) but no live sub-grid owns it"
        ptag = lambda i: ((step - 1) * 4096 + i + 1) % 2 ** 32
        pown = lambda i: cells_with(prev_vals, ptag(i))
        ok = res.startswith("ok")
        m = re.match(r"ok new=(\d+)(?:\+(\d+))?", res)
        new_ids = list(range(int(m.group(1)), int(m.group(1)) + int(m.group(2) or 1))) if m else []
        for i in new_ids:
            if i not in live:
                return k, f"announced sub-grid {i} is not live"
        kids = set().union(*[own[i] for i in new_ids]) if new_ids else set()
        if w[0] == "from":
            start, ln = cursor + int(w[1]), int(w[2])
            cursor = start + ln
            if ok and not kids <= set(range(start, start + ln)):
                return k, "from_buf sub-grid reaches outside the slice it was given"
            gw, gh, st = int(w[3]), int(w[4]), int(w[5])
            fits = gw <= st and (ln == 0 if (gw == 0 or gh == 0) else ln >= st * (gh - 1) + gw)
            if ok != fits:
                return k, f"from_buf {'accepted' if ok else 'rejected'} a request that does{'' if fits else ' not'} fit"
        elif w[0] in ("sub", "groups", "groupsf"):
            par = pown(int(w[1]))
            if ok and not kids <= par:
                return k, f"{w[0]}: a child owns a cell outside its parent {sorted(kids - par)[:5]}"
            if ok and w[0] == "groups" and kids != par:
                return k, "into_groups: the groups do not cover the parent"
            if w[0] == "groups" and (int(w[2]) == 0 or int(w[3]) == 0) and ok:
                return k, "into_groups accepted a zero group size"
        elif w[0] in ("splith", "splitv"):
            i = int(w[1])
            par = pown(i)
            size = prev_live[i][0 if w[0] == "splith" else 1]
            if ok != (int(w[2]) <= size):
                return k, f"{w[0]} at {w[2]} of {size}: {'accepted' if ok else 'rejected'}"
            if ok and (own[i] | kids) != par:
                return k, "in-place split: the two halves do not cover exactly the original"
        elif w[0] in ("mergeh", "mergev"):
            a, b = int(w[1]), int(w[2])
            if ok and own[a] != (pown(a) | pown(b)):
                return k, "merge: result does not own exactly the union of the two parts"
            if not ok and own.get(a) != pown(a):
                return k, "failed merge changed the receiver"
        elif w[0] in ("ssplith", "ssplitv") and ok:
            mm = re.search(r"a=(\d+)x(\d+) b=(\d+)x(\d+) m=(\d+)x(\d+).* in-scope=(\S+)", res)
            if not mm:
                return k, "unparsable scoped split"
            aw, ah, bw, bh, mw, mh = map(int, mm.groups()[:6])
            sv = unrle(mm.group(7))
            i = int(w[1])
            par = pown(i)
            ca = cells_with(sv, (step * 4096 + 4001) % 2 ** 32)
            cb = cells_with(sv, (step * 4096 + 4002) % 2 ** 32)
            if len(ca) != aw * ah or len(cb) != bw * bh:
                return k, "scoped split: halves overlap (tag counts do not match their sizes)"
            if (ca | cb) != par:
                return k, "scoped split: halves do not cover exactly the parent"
            if (mw, mh) != prev_live[i] or any(sv[j] != prev_vals[j] for j in range(len(sv)) if j not in par):
                return k, "scoped split: merge of the halves differs from the parent / write outside"
        elif w[0] == "borrow" and ok:
            mm = re.search(r"in-scope=(\S+)", res)
            sv = unrle(mm.group(1))
            if cells_with(sv, (step * 4096 + 4003) % 2 ** 32) != pown(int(w[1])):
                return k, "borrow_mut: reborrow does not own exactly the same cells"
        elif w[0] in ("get", "set"):
            gw, gh = prev_live[int(w[1])]
            if ok != (int(w[2]) < gw and int(w[3]) < gh):
                return k, f"{w[0]}({w[2]},{w[3]}) on {gw}x{gh}: {'no panic' if ok else 'panic'}"
            if ok and w[0] == "set":
                sv = unrle(re.search(r"in-scope=(\S+)", res).group(1))
                ch = [j for j in range(len(sv)) if sv[j] != prev_vals[j]]
                if len(ch) != 1 or ch[0] not in pown(int(w[1])):
                    return k, "get_mut wrote outside the sub-grid"
        elif w[0] == "row":
            gw, gh = prev_live[int(w[1])]
            if ok != (int(w[2]) < gh):
                return k, f"get_row({w[2]}) on height {gh}: {'no panic' if ok else 'panic'}"
            if ok:
                mm = re.search(r"len=(\d+) in-scope=(\S+)", res)
                sv = unrle(mm.group(2))
                ch = {j for j in range(len(sv)) if sv[j] != prev_vals[j]}
                if int(mm.group(1)) != gw or len(ch) != gw or not ch <= pown(int(w[1])):
                    return k, "get_row_mut slice is not one row of the sub-grid"
        elif w[0] == "swap" and ok:
            sv = unrle(re.search(r"in-scope=(\S+)", res).group(1))
            ch = {j for j in range(len(sv)) if sv[j] != prev_vals[j]}
            if not ch <= pown(int(w[1])):
                return k, "swap touched a cell outside the sub-grid"
        prev_vals, prev_live = vals, live
    return None


def run_grid_sequences(ctx, n_seq):
    proc = Proc([ctx.harness_bin("c02")])
    seqs = []
    for s in range(n_seq):
        ops, outs = gen_sequence(ctx.rng, proc, ctx.rng.randint(8, 34))
        seqs.append((ops, outs))
        if outs and outs[-1] is None:                     # harness died: restart for the next one
            proc.close()
            proc = Proc([ctx.harness_bin("c02")])
    proc.close()
    all_ops = [o for ops, _ in seqs for o in ops]
    rel, rrc, rerr = ctx.run_impl("c02", all_ops, release=True)
    model, mrc, merr = ctx.run_model("c02", all_ops) if ctx.lean_ok else (None, 0, "")
    modelw, _, _ = ctx.run_model("c02", all_ops, args=("wrapping",)) if ctx.lean_ok else (None, 0, "")
    if rrc != 0 or len(rel) != len(all_ops):
        # the release harness died somewhere (signal / abort): replay sequence by sequence so that the
        # one that kills it is reported as a concrete violation by the oracle below
        rel = []
        for ops, _ in seqs:
            o, _, _ = run_lines([ctx.harness_bin("c02", True)], ops, 120)
            rel += o[:len(ops)] + [None] * (len(ops) - len(o))
    if ctx.lean_ok and (mrc != 0 or len(model) != len(all_ops)):
        ctx.failed_obligations.append(f"model driver c02 died rc={mrc} {merr[-300:]}")
        model = modelw = None
    pos = 0
    for ops, outs in seqs:
        a, b = pos, pos + len(ops)
        pos = b
        kinds = {o.split()[0] for o in ops}
        panics = sum(1 for o in outs if o and o.startswith("panic"))
        for op, o in zip(ops, outs):
            if o:
                r = o.split(" | ")[0].split()
                ctx.count(f"grid:{op.split()[0]}:" + ("ok" if r[0] == "ok" else " ".join(r[:2])))
        nontriv = panics >= 1 and len(kinds & {"splith", "splitv", "mergeh", "mergev", "groups", "groupsf", "sub"}) >= 3
        ctx.case(tuple(ops), nontriv)
        if nontriv:
            ctx.sample({"ops": ops[:10], "impl": [(o or "")[:120] for o in outs[:10]]}, limit=3)
        for name, impl_outs in (("checked", outs), ("release", rel[a:b] if rel else None)):
            if impl_outs is None:
                continue
            bad = grid_oracle(ops, impl_outs)
            if bad is not None and len(ctx.violations) >= 6:
                ctx.count("grid:further-violating-sequences-not-minimised")
                break
            if bad is not None:
                i, why = bad
                def fails(cand, name=name):
                    o, _, _ = run_lines([ctx.harness_bin("c02", name == "release")], cand, 60)
                    o = o + [None] * (len(cand) - len(o))
                    return grid_oracle(cand, o) is not None
                small = [ops[0]] + shrink_list(ops[1:i + 1], lambda c: fails([ops[0]] + c), 120)
                o, _, _ = run_lines([ctx.harness_bin("c02", name == "release")], small, 60)
                ctx.violation("implementation-breaks-subgrid-ownership", f"[{name} build] {why}",
                              {"ops": small, "impl": o, "profile": name,
                               "how": f"feed ops to harness/target/{'release' if name == 'release' else 'debug'}/c02"},
                              key=f"c02:grid:{why[:60]}")
                break
        else:
            if model is not None:
                d = first_diff(outs, model[a:b])
                if d is not None:
                    ctx.failed_obligations.append(
                        f"correspondence MutableSubgrid vs Jxl.Subgrid (checked) differs at op {d} {ops[d]!r} of {ops[:d + 1]!r}: "
                        f"impl {str(outs[d])[:160]!r} model {model[a:b][d][:160]!r}")
                elif rel is not None:
                    d = first_diff([x or "" for x in rel[a:b]], modelw[a:b])
                    if d is not None:
                        ctx.failed_obligations.append(
                            f"correspondence MutableSubgrid vs Jxl.Subgrid (release/wrapping) differs at op {d} {ops[d]!r} of {ops[:d + 1]!r}: "
                            f"impl {str(rel[a:b][d])[:160]!r} model {modelw[a:b][d][:160]!r}")


# --------------------------------------------------------------------------------------------
# (b) kernels

SQ_KERNELS = ["h16", "h16_generic", "h16_avx2", "h16_sse41", "v16", "v16_generic", "v16_avx2",
              "v16_sse41", "h32", "v32", "h32_generic", "v32_generic"]


def kernel_lines(ctx, widths, heights, guard, rct_per_dim):
    lines = []
    for w in widths:
        for h in heights:
            pad = ctx.rng.choice([0, 0, 1, 3, 7, 16])
            seed = ctx.rng.randrange(1 << 30)
            for k in SQ_KERNELS:
                lines.append(f"sq {k} {w} {h} {pad} {guard} {seed} 10")
                if "16" in k and "generic" not in k:
                    lines.append(f"sq {k} {w} {h} {pad} {guard} {seed} 0")
            for _ in range(rct_per_dim):
                lines.append(f"rct {ctx.rng.choice([16, 32])} {ctx.rng.randrange(7)} {ctx.rng.randrange(6)} "
                             f"{w} {h} {pad} {guard} {seed}")
    return lines


def run_kernels(ctx, lines, release, label):
    outs, rc, err = ctx.run_impl("c02", lines, release=release, timeout=1500)
    prof = "release" if release else "checked"
    if rc != 0 or len(outs) != len(lines):
        k = len(outs)
        ctx.violation("kernel-run-died", f"[{prof}] harness died (rc={rc}) at line {k}: {lines[k] if k < len(lines) else '?'}; {err[-300:]}",
                      {"ops": lines[max(0, k - 1):k + 1], "profile": prof, "how": "feed ops to harness c02"},
                      key=f"c02:kernel-died:{lines[k].split()[1] if k < len(lines) else '?'}")
        return None
    seen = {}
    for l, o in zip(lines, outs):
        w = l.split()
        kname = w[1] if w[0] == "sq" else f"rct{w[1]}"
        ctx.count(f"kernel[{prof}]:{kname}:{o.split()[0]}")
        dims = (int(w[2]), int(w[3])) if w[0] == "sq" else (int(w[4]), int(w[5]))
        ctx.case((label, prof, l), dims[0] > 16 and dims[1] >= 8)
        if o.startswith("ok") or o == "skip":
            continue
        kind = {"CANARY": "kernel-writes-out-of-bounds", "MISMATCH": "kernel-differs-from-scalar",
                "panic": "kernel-panics"}.get(o.split()[0].split("-")[0], "kernel-abnormal")
        seen[(kind, kname)] = seen.get((kind, kname), 0) + 1
        if seen[(kind, kname)] > 2:                      # same kernel, same kind: counted, not re-reported
            ctx.count(f"kernel[{prof}]:{kname}:further-{kind}")
            continue
        ctx.violation(kind, f"[{prof} build] {l} -> {o}",
                      {"ops": [l], "impl": [o], "profile": prof,
                       "how": f"echo '{l}' | harness/target/{'release' if release else 'debug'}/c02"},
                      key=f"c02:{kind}:{kname}")
    return outs


# --------------------------------------------------------------------------------------------
# Bitstream geometry

def gen_bs(rng):
    n = rng.choice([0, 1, 3, 7, 8, 9, 15, 16, 17, 24, 40, 64, 100])
    ops = ["bs new " + ("-" if n == 0 else "".join(f"{rng.randrange(256):02x}" for _ in range(n)))]
    for _ in range(rng.randint(3, 40)):
        r = rng.random()
        if r < 0.45:
            ops.append(f"bs read {rng.choice([0, 1, 2, 3, 5, 8, 12, 16, 31, 32])}")
        elif r < 0.55:
            ops.append(f"bs peek {rng.choice([0, 1, 16, 32])}")
        elif r < 0.70:
            ops.append(f"bs consume {rng.choice([0, 1, 7, 8, 16, 56, 63, 64, 65])}")
        elif r < 0.92:
            ops.append(f"bs skip {rng.choice([0, 1, 7, 8, 9, 55, 56, 57, 63, 64, 65, 100, 128, 8 * n, 8 * n + 1, rng.randint(0, 8 * n + 8)])}")
        else:
            ops.append("bs pad")
    return n, ops


def bs_oracle(n, ops, outs):
    fine = True
    for k, (op, o) in enumerate(zip(ops, outs)):
        m = re.match(r"(ok|eof) left=(\d+) rem=(\d+) read=(\d+)$", o)
        if not m:
            return k, "abnormal answer " + o[:120]
        left, rem, rd = int(m.group(2)), int(m.group(3)), int(m.group(4))
        if rem > 63:
            return k, f"remaining_buf_bits = {rem} > 63 (the next refill would advance by a wrapped amount)"
        if left > n:
            return k, f"{left} bytes left of {n}"
        if m.group(1) == "eof":
            fine = False
        if fine and rd + rem + 8 * left != 8 * n:
            return k, f"bits read {rd} + buffered {rem} + 8*left {left} != 8*{n}"
    return None


def run_bitstream(ctx, n_hist):
    hist, lines = [], []
    for _ in range(n_hist):
        n, ops = gen_bs(ctx.rng)
        hist.append((n, len(lines), len(lines) + len(ops)))
        lines += ops
    results = {}
    for release in (False, True):
        o, rc, err = ctx.run_impl("c02", lines, release=release)
        if rc != 0 or len(o) != len(lines):
            ctx.failed_obligations.append(f"harness c02 died on bitstream histories rc={rc} {err[-200:]}")
            return
        results[release] = o
    model, rc, err = ctx.run_model("c02", lines) if ctx.lean_ok else (results[False], 0, "")
    for n, a, b in hist:
        ops = lines[a:b]
        ctx.case(("bs", tuple(ops)), any(o.startswith("eof") for o in results[False][a:b]))
        for release in (False, True):
            outs = results[release][a:b]
            for o in outs:
                ctx.count("bs:" + o.split()[0])
            bad = bs_oracle(n, ops, outs)
            if bad and len(ctx.violations) >= 6:
                ctx.count("bs:further-violating-histories")
                break
            if bad:
                ctx.violation("bitstream-geometry-broken", f"[{'release' if release else 'checked'}] {bad[1]}",
                              {"ops": ops[:bad[0] + 1], "impl": outs[:bad[0] + 1], "how": "feed ops to harness c02"},
                              key="c02:bs:" + bad[1][:40])
                break
            d = first_diff(outs, model[a:b])
            if d is not None:
                ctx.failed_obligations.append(
                    f"correspondence Bitstream vs Jxl.Unchecked.step differs at {ops[:d + 1]!r}: impl {outs[d]!r} model {model[a:b][d]!r}")
                break


# --------------------------------------------------------------------------------------------
# source pins: the expressions the Lean definitions transcribe must still be in the source

def fn_body(src, name):
    i = src.find(f"fn {name}(")
    if i < 0:
        return None
    j = src.find("{", i)
    depth, k = 0, j
    while k < len(src):
        depth += {"{": 1, "}": -1}.get(src[k], 0)
        if depth == 0:
            return src[j:k + 1]
        k += 1
    return None


TAIL = ["rows[idx].add(avg_width - 8)", "rows[idx].add(width - 8)", "row.add(x)",
        "rows[0x0].add(x)", "rows[0x1].add(x)", "rows[0x2].add(x)", "rows[0x3].add(x)",
        "rows[0x4].add(x)", "rows[0x5].add(x)", "rows[0x6].add(x)", "rows[0x7].add(x)"]
PINS = {
    "crates/jxl-modular/src/transform/squeeze.rs": {
        "inverse_h_i16_x86_64_avx2": {
            "ptr": ["rows[idx].add(x)", "rows[idx].add(avg_width - 1 + x)", "rows[idx].add(x)",
                    "rows[idx].add(avg_width - 1 + x)"] + TAIL,
            "scratch": ["x16 * 32 + dx * 2", "x16 * 32 + dx * 2 + 1", "x16 * 32 + 16 + dx * 2",
                        "x16 * 32 + 16 + dx * 2 + 1", "x16 * 32 + dx * 2", "x16 * 32 + dx * 2 + 1",
                        "width / 2 * 2 - dx * 2", "width / 2 * 2 - dx * 2 + 1"],
            "lines": ["if width <= 32 {", "let avg_width = width.div_ceil(2);", "let h8 = height / 8;",
                      "for x16 in 0..(avg_width - 1) / 16 {", "let x = x16 * 16 + 1;",
                      "if (avg_width - 1) % 16 >= 8 {", "let x16 = (avg_width - 1) / 16;",
                      "if (avg_width - 1) % 8 != 0 || width % 2 == 0 {", "let from = (!(width / 2) + 1) % 8;",
                      "let dx = 8 - dx;", "if width % 2 == 1 {", "scratch.last_mut().unwrap().write(avg);",
                      "let mut chunks_it = scratch.chunks_exact(8);", "let x = x8 * 8;",
                      "let x = width / 8 * 8 + dx;",
                      "let mut scratch = vec![MaybeUninit::<__m128i>::uninit(); width];",
                      "inverse_h_i16_base(&mut merged.split_vertical(h8 * 8).1);"],
        },
        "inverse_h_i16_x86_64_sse41": {
            "ptr": ["rows[idx].add(x)", "rows[idx].add(avg_width - 1 + x)"] + TAIL,
            "scratch": ["x8 * 16 + dx * 2", "x8 * 16 + dx * 2 + 1",
                        "width / 2 * 2 - dx * 2", "width / 2 * 2 - dx * 2 + 1"],
            "lines": ["if width <= 16 {", "let avg_width = width.div_ceil(2);", "let h8 = height / 8;",
                      "for x8 in 0..(avg_width - 1) / 8 {", "let x = x8 * 8 + 1;",
                      "if (avg_width - 1) % 8 != 0 || width % 2 == 0 {", "let from = (!(width / 2) + 1) % 8;",
                      "let dx = 8 - dx;", "if width % 2 == 1 {", "scratch.last_mut().unwrap().write(avg);",
                      "let mut chunks_it = scratch.chunks_exact(8);", "let x = x8 * 8;",
                      "let x = width / 8 * 8 + dx;",
                      "let mut scratch = vec![MaybeUninit::<__m128i>::uninit(); width];",
                      "inverse_h_i16_base(&mut merged.split_vertical(h8 * 8).1);"],
        },
    },
    "crates/jxl-bitstream/src/bitstream.rs": {
        "refill": {"lines": ["if let &[b0, b1, b2, b3, b4, b5, b6, b7, ..] = self.bytes {",
                             "let read_bytes = (63 - self.remaining_buf_bits) >> 3;",
                             "self.remaining_buf_bits |= 56;", "self.bytes.as_ptr().add(read_bytes),",
                             "self.bytes.len() - read_bytes,"]},
        "refill_slow": {"lines": ["while self.remaining_buf_bits < 56 {", "self.remaining_buf_bits += 8;"]},
    },
    "crates/jxl-coding/src/ans.rs": {
        "parse": {"lines": ["let table_size = (1u16 << log_alphabet_size) as usize;",
                            "let log_bucket_size = 12 - log_alphabet_size;",
                            "let mut dist = vec![0u16; table_size];"]},
        "read_symbol": {"lines": ["let idx = *state & 0xfff;", "let i = (idx >> self.log_bucket_size) as usize;",
                                  "let bucket = unsafe { *self.buckets.get_unchecked(i) };"]},
    },
    "crates/jxl-coding/src/lib.rs": {
        "parse": {"lines": ["bitstream.read_bits(2)? + 5"]},
    },
}


def check_pins(ctx):
    n = 0
    for rel, fns in PINS.items():
        try:
            src = open(os.path.join(REPO, rel)).read()
        except OSError as e:
            ctx.failed_obligations.append(f"source pin: cannot read {rel}: {e}")
            continue
        for fn, want in fns.items():
            body = fn_body(src, fn) if rel.endswith("squeeze.rs") or rel.endswith("bitstream.rs") else src
            if body is None:
                ctx.failed_obligations.append(f"source pin: fn {fn} disappeared from {rel} — the Lean transcription has no counterpart")
                continue
            flat = [l.strip() for l in body.splitlines()]
            for l in want.get("lines", []):
                n += 1
                if not any(l in x for x in flat):
                    ctx.failed_obligations.append(f"source pin: {rel} fn {fn} no longer contains `{l}` (transcribed in Model/Unchecked.lean)")
            if "ptr" in want:
                n += 1
                got = re.findall(r"\b(rows?(?:\[\w+\])?\.add\([^()]*\))", body)
                if got != want["ptr"]:
                    ctx.failed_obligations.append(f"source pin: raw-pointer offsets of {fn} changed: {got} (access plan transcribes {want['ptr']})")
                n += 1
                got = re.findall(r"scratch\[([^\]]*)\]", body)
                if got != want["scratch"]:
                    ctx.failed_obligations.append(f"source pin: scratch indices of {fn} changed: {got} (plan transcribes {want['scratch']})")
    # the Histogram::parse body must not resize `dist` / `buckets`
    src = open(os.path.join(REPO, "crates/jxl-coding/src/ans.rs")).read()
    for bad in ("dist.push", "dist.resize", "dist.truncate", "buckets.push", "buckets.pop", "buckets.truncate", "buckets.resize"):
        n += 1
        if bad in src:
            ctx.failed_obligations.append(f"source pin: ans.rs now contains `{bad}`: bucket-table length argument no longer applies")
    ctx.notes["source_pins_checked"] = n


def translate(ctx):
    p = subprocess.run([sys.executable, os.path.join(VERIF, "tools/translate_c02.py")], capture_output=True, text=True)
    ctx.notes["translate_c02"] = (p.stdout + p.stderr).strip()[-300:]
    if p.returncode != 0:
        ctx.failed_obligations.append("translator translate_c02.py failed: " + (p.stdout + p.stderr).strip()[-300:])


def check_transform_type(ctx):
    """TransformType::try_from: the bytes the real function lets through == the generated guard, and
    (property oracle on the implementation alone) all of them are declared discriminants"""
    # one byte per line: a byte that is not a variant aborts a checked build inside the transmute
    # (validity check of the debug profile); the release build returns Ok
    outs = run_lines_robust([ctx.harness_bin("c02")], [f"ttype1 {v}" for v in range(256)], per_line_timeout=20)
    outs_rel = run_lines_robust([ctx.harness_bin("c02", release=True)], [f"ttype1 {v}" for v in range(256)], per_line_timeout=20)
    acc = [v for v in range(256) if not ((outs[v] or "").startswith("ttype1 err") and (outs_rel[v] or "").startswith("ttype1 err"))]
    impl = [f"checked: {[(v, outs[v]) for v in acc[-3:]]} release: {[(v, outs_rel[v]) for v in acc[-3:]]}"]
    src = open(os.path.join(REPO, "crates/jxl-vardct/src/dct_select.rs")).read()
    em = re.search(r"pub enum TransformType\s*\{(.*?)\}", src, re.S)
    nvar = len([x for x in re.sub(r"//[^\n]*", "", em.group(1)).split(",") if x.strip()]) if em else 0
    ctx.case(("ttype", tuple(acc)), nontrivial=True)
    ctx.count("ttype:accepted-bytes", len(acc))
    bad = [v for v in acc if v >= nvar]
    if bad:
        ctx.violation("byte-transmuted-into-an-enum-without-such-a-variant",
                      f"TransformType::try_from accepts {bad} but the enum has {nvar} variants",
                      {"ops": [f"ttype1 {v}" for v in bad], "impl": impl[:1], "accepted_not_variants": bad,
                       "how": "echo 'ttype1 <byte>' | harness/target/{debug,release}/c02 ; jxl_vardct::TransformType::try_from(<byte>)"},
                      key="c02:transmute-invalid-enum")
    if ctx.lean_ok:
        mo, rc2, err2 = ctx.run_model("c02", ["ttype"])
        mm = re.match(r"ttype variants=(\d+) accepted=([\d,]*)", mo[0] if mo else "")
        if not mm or [int(x) for x in mm.group(2).split(",") if x] != acc or int(mm.group(1)) != nvar:
            ctx.failed_obligations.append(f"correspondence TransformType::try_from vs generated guard differs: impl {impl[:1]} model {mo[:1]}")


def check_plans(ctx):
    """evaluate the Lean access plans for all tested sizes (redundant with the theorems; evidence
    that the executable definitions are the ones the theorems speak about)"""
    lines = [f"plan {k} {w} {h}" for k in ("avx2", "sse41") for w in range(1, 131) for h in (1, 8, 20)]
    outs, rc, err = ctx.run_model("c02", lines)
    if rc != 0 or len(outs) != len(lines):
        ctx.failed_obligations.append("model driver died on plan queries")
        return
    for l, o in zip(lines, outs):
        m = re.match(r"n=(\d+) max-extent=(\d+) rows=(\d+) scratch=(\w+)", o)
        w, h = int(l.split()[2]), int(l.split()[3])
        if not m or int(m.group(2)) > w or int(m.group(3)) > h or m.group(4) != "ok":
            ctx.failed_obligations.append(f"access plan evaluates out of bounds: {l} -> {o}")
        lim = 32 if "avx2" in l else 16
        if m and (int(m.group(1)) > 0) != (w > lim and h >= 8):
            ctx.failed_obligations.append(f"access plan empty/non-empty mismatch: {l} -> {o}")


# --------------------------------------------------------------------------------------------
# wrap-around behaviour of the safe API in the release build (API-level observation, see Props)

def api_wrap_observations(ctx):
    """corpus/c02/*.ops: the two wrap-around witnesses of the safe API, replayed on both builds and on
    the model in both modes. Expected on the unchanged tree: checked build panics `arith`; the release
    build hands out overlapping groups / accepts the impossible grid, exactly as Mode.wrapping says."""
    cdir = os.path.join(VERIF, "corpus", "c02")
    obs = {}
    for f in sorted(os.listdir(cdir)) if os.path.isdir(cdir) else []:
        if not f.endswith(".ops"):
            continue
        ops = [l.strip() for l in open(os.path.join(cdir, f)) if l.strip()]
        for release, mode in ((False, ()), (True, ("wrapping",))):
            name = "release" if release else "checked"
            o, rc, _ = ctx.run_impl("c02", ops, release=release)
            m, _, _ = ctx.run_model("c02", ops, args=mode) if ctx.lean_ok else (o, 0, "")
            obs.setdefault(f, {})[name] = o[-1].split(" | ")[0][:80] if o else f"died rc={rc}"
            ctx.case(("corpus", f, name), True)
            if ctx.lean_ok and o != m:
                ctx.failed_obligations.append(
                    f"corpus {f}: {name} harness and model ({'wrapping' if mode else 'checked'}) differ: "
                    f"impl {[x[:100] for x in o]} model {[x[:100] for x in m]}")
    ctx.notes["api_wraparound_observation"] = {
        "what": "safe API of jxl-grid, optimised build only: into_groups_with_fixed_count(4, 2^63, 1, 3) returns two "
                "groups owning the same cells (gy*group_height wraps); from_buf(len 1, 1x3, stride 2^63) is accepted "
                "(stride*(height-1) wraps). Not reachable from decoded bytes (call sites pass sizes derived from "
                "group_dim and u32 dimensions), therefore recorded as an observation and not as a violation of C02 as "
                "stated. Lean: C02_groups_wrap_overlap_witness, C02_from_buf_wrap_witness. Proposed repair: "
                "fix-subgrid-wrap.patch (see corpus/c02/README.md)",
        "observed": obs}


# --------------------------------------------------------------------------------------------

def cpu_note(ctx):
    for release in (False, True):
        o, rc, _ = ctx.run_impl("c02", ["cpu"], release=release)
        ctx.notes["cpu_features_" + ("release" if release else "checked")] = o[0] if o else f"died rc={rc}"
    try:
        flags = [l for l in open("/proc/cpuinfo") if l.startswith("flags")][0].split()
        ctx.notes["cpuinfo_flags_subset"] = [f for f in flags if f in
                                             ("sse2", "ssse3", "sse4_1", "sse4_2", "avx", "avx2", "fma", "avx512f", "bmi2")]
    except (OSError, IndexError):
        pass
    ctx.notes["paths_not_forced"] = ("the dispatchers run the path the CPU selects (AVX2 here); the SSE4.1 kernels are "
                                     "additionally called directly through H7; NEON/wasm kernels cannot run on this machine")


def valgrind_run(ctx):
    lines = ["cpu"]
    ws = [1, 2, 7, 8, 9, 15, 16, 17, 18, 31, 32, 33, 34, 35, 47, 48, 49, 50, 63, 64, 65, 66, 67, 95, 96, 97, 98, 127, 128, 129, 130]
    hs = [1, 2, 7, 8, 9, 15, 16, 17, 20]
    lines += kernel_lines(ctx, ws, hs, 0, 2)          # guard 0: the grid is the whole allocation
    proc = Proc([ctx.harness_bin("c02")])
    for _ in range(12):
        ops, _ = gen_sequence(ctx.rng, proc, 25)
        lines += ops
    proc.close()
    for _ in range(30):
        lines += gen_bs(ctx.rng)[1]
    data = "".join(l + "\n" for l in lines)
    cmd = ["valgrind", "--error-exitcode=9", "--tool=memcheck", "-q", ctx.harness_bin("c02", True)]
    t0 = time.time()
    try:
        p = subprocess.run(cmd, input=data, capture_output=True, text=True, timeout=3000)
    except (subprocess.TimeoutExpired, OSError) as e:
        ctx.notes["valgrind"] = f"not completed: {e}"
        return
    ctx.notes["valgrind"] = {"cmd": " ".join(cmd), "lines": len(lines), "rc": p.returncode,
                             "wall_s": round(time.time() - t0, 1), "cpu": p.stdout.splitlines()[:1],
                             "kind": "implementation-side oracle (memcheck), not a proof"}
    ctx.count("valgrind:lines", len(lines))
    if p.returncode != 0:
        path = os.path.join(ctx.work, "valgrind-input.txt")
        open(path, "w").write(data)
        ctx.violation("memcheck-error", p.stderr[-1500:],
                      {"cmd": " ".join(cmd) + " < " + path, "ops_file": path,
                       "how": "run cmd; valgrind prints the offending access"}, key="c02:memcheck")
    else:
        bad = [(l, o) for l, o in zip(lines, p.stdout.splitlines())
               if o.split()[0] in ("CANARY", "MISMATCH", "CANARY-REF") or "OVERLAP" in o]
        for l, o in bad[:3]:
            ctx.violation("kernel-abnormal-under-valgrind", f"{l} -> {o[:200]}", {"ops": [l], "impl": [o]},
                          key="c02:valgrind-abnormal")


def run_as_vectored(ctx, n):
    """`MutableSubgrid::<f32>::as_vectored` by its definition: the SIMD view exists iff the start is aligned
    to the vector, and width and stride are multiples of the lane count; every vector cell (vx, vy) is then
    the `lanes` scalars at (lanes*vx .. , vy) of the sub-grid and nothing else of the buffer"""
    rng = ctx.rng
    lines = []
    for _ in range(n):
        lanes = rng.choice([4, 4, 8])
        w = rng.choice([lanes, 2 * lanes, 3 * lanes, rng.randint(1, 40)])
        h = rng.randint(1, 6)
        stride = rng.choice([w, w, w + lanes, w + rng.randint(0, 9), ((w + lanes - 1) // lanes) * lanes])
        off = rng.choice([0, 0, lanes, rng.randint(0, 12)])
        lines.append(f"vec {lanes} {off} {w} {h} {stride}")
    for release in (False, True):
        outs = run_lines_robust([ctx.harness_bin("c02", release=release)], lines, per_line_timeout=20)
        for l, o in zip(lines, outs):
            o = o or "crash"
            _, lanes, off, w, h, stride = l.split()
            lanes, off, w, h, stride = int(lanes), int(off), int(w), int(h), int(stride)
            ctx.case(("vec", l, release), nontrivial=True)
            if o == "unsupported":
                ctx.count("as_vectored:unsupported-lanes")
                continue
            want_some = (off * 4) % (lanes * 4) == 0 and w % lanes == 0 and stride % lanes == 0
            rep = {"ops": [l], "impl": [o[:400]], "profile": "release" if release else "checked",
                   "how": "echo '<op>' | harness/target/{debug,release}/c02"}
            if not (o == "none" or o.startswith("some ")):
                ctx.violation("as-vectored-crashed", o[:200], rep, key="c02:as_vectored-crash")
                continue
            ctx.count("as_vectored:" + o.split()[0])
            if (o != "none") != want_some:
                ctx.violation("as-vectored-view-exists-iff-aligned-and-lane-multiple",
                              f"{l}: answer {o.split(' | ')[0]}, definition says {'some' if want_some else 'none'}", rep,
                              key="c02:as_vectored-exists")
                continue
            if o != "none":
                head, _, body = o.partition(" | ")
                vals = list(map(int, body.split()))
                exp = [0] * len(vals)
                for y in range(h):
                    for x in range(w):
                        exp[off + y * stride + x] = 1000 * y + x // lanes + 1
                if head.split()[1:] != [str(w // lanes), str(h)] or vals != exp:
                    bad = next((i for i, (a, b) in enumerate(zip(vals, exp)) if a != b), None)
                    ctx.violation("as-vectored-view-addresses-other-cells",
                                  f"{l}: {head}; first differing buffer element {bad}", rep, key="c02:as_vectored-cells")


def run(ctx):
    translate(ctx)
    ctx.lean_ok = ctx.lean_build(MODULES)
    if ctx.lean_ok:
        ctx.audit(MODULES, ctx.update_lock)
        if not ctx.quick:
            ctx.leanchecker(MODULES)
    ctx.cargo_build(["c02"])
    ctx.cargo_build(["c02"], release=True)
    ctx.cov["rule"] = (
        "(a) seeded operation sequences (from_buf with stride>=width, subgrid with all bound kinds, in-place and "
        "scoped splits, merges of siblings and of strangers, into_groups / into_groups_with_fixed_count incl. "
        "out-of-range rows/columns, borrow_mut, get/set/row/swap at and past the edge) on real MutableSubgrid<u32>; "
        "each op is chosen from the implementation's previous answers; non-trivial = at least one assertion failure and "
        "three kinds of geometry ops; both harness builds; (b) every squeeze kernel entry (dispatching, generic, AVX2, "
        "SSE4.1, i32) on all widths 1..130 x heights 1..20, tame data (must equal the scalar kernel) and wild data "
        "(canaries only), plus RCT kernels; non-trivial = width>16 and height>=8; (c) Bitstream histories; (d) as_vectored "
        "(4 and 8 lanes) on seeded offsets / widths / heights / strides against its definition. distinct by content")
    cpu_note(ctx)
    check_pins(ctx)
    if ctx.lean_ok:
        check_plans(ctx)
    check_transform_type(ctx)
    run_grid_sequences(ctx, 700 if ctx.quick else 7000)
    run_bitstream(ctx, 400 if ctx.quick else 4000)
    run_as_vectored(ctx, 400 if ctx.quick else 6000)
    api_wrap_observations(ctx)
    ws, hs = range(1, 131), range(1, 21)
    lines = kernel_lines(ctx, ws, hs, 24, 2 if ctx.quick else 12)
    dbg = run_kernels(ctx, lines, False, "k")
    rel = run_kernels(ctx, lines, True, "k")
    if dbg and rel:
        for l, a, b in zip(lines, dbg, rel):
            if a != b:
                ctx.violation("release-differs-from-checked-build", f"{l}: checked {a} release {b}",
                              {"ops": [l], "impl_checked": [a], "impl_release": [b]}, key="c02:release-differs")
                break
    if not ctx.quick:
        valgrind_run(ctx)
    ctx.assumptions += [
        "usize = 64 bit, x86-64; only the code paths this CPU selects (plus the SSE4.1 kernels called directly) are run",
        "Lean speaks about element offsets, not about Rust's aliasing model, provenance or lifetimes: the theorems are "
        "index arithmetic and ownership geometry of the model; the model is tied to jxl-grid by the tag-and-read-back runs",
        "vertical squeeze kernels, EPF/Gabor/DCT SIMD, jxl-oxide fb.rs are not modelled: only the kernel runs with canaries "
        "(vertical squeeze) or nothing in this check (EPF/Gabor/DCT/fb.rs; whole-decoder differential runs of other checks)",
        "offsets derived from an existing sub-grid (y*stride+x) are treated as naturals; caller-supplied sizes are modelled "
        "with both overflow behaviours (checked / wrapping)",
        "canaries detect stray writes only; stray reads are looked for by valgrind in the thorough tier",
    ]
