"""C15 — output buffers agree with each other and honour orientation.

Theorems: Props/C15.lean over the orientation maps GENERATED from the source by
tools/translate_c15.py (run first, every time). Correspondence: images written by the Lean
reference encoder (8 orientations x gray/RGB x alpha/black/depth/spot extra channels x bit depths x
crop regions) are rendered by the real crates (harness/src/bin/c15.rs): image_all_channels,
image_planar, stream/stream_no_alpha into f32/u16/u8 buffers under several buffer-size sequences.
1. property oracle on the implementation's own output: dimensions, every form = the unoriented
   channels (the implementation's own uncropped render) moved by the orientation map of the
   specification (asked from the Lean model, `jxlmodel c15 spec`), integer streams = the specified
   f32 round/clamp of the floats, channel order, chunking;
2. model-vs-implementation: `jxlmodel c15 predict` (generated maps + cursor machine + Float32).
TEST (not proof): exhaustive u8/u16 conversion of all sample values of depths 1..16."""
import struct
from fractions import Fraction
from vlib import *
import planlib as pl
import translate_c15

MODULES = ["JxlModel.Props.C15"]
CORPUS = os.path.join(VERIF, "corpus", "c15")


# ---------------------------------------------------------------------------------------------
# exact f32 arithmetic (the machine's IEEE single precision, emulated with doubles where one
# rounding is provably enough and with rationals otherwise)
def f32(x):
    """round a double to the nearest f32 (ties to even), returned as a double"""
    return struct.unpack("<f", struct.pack("<f", x))[0]


def f32_bits(x):
    return struct.unpack("<I", struct.pack("<f", x))[0]


def bits_f32(b):
    return struct.unpack("<f", struct.pack("<I", b & 0xffffffff))[0]


def int_to_f32(n):
    """`n as f32` (exact for |n| < 2^53 as a double, then one rounding)"""
    return f32(float(n))


def rf(q):
    """exact rounding of a rational to f32 (nearest, ties to even)"""
    if q == 0:
        return 0.0
    sign = -1 if q < 0 else 1
    q = abs(q)
    e = q.numerator.bit_length() - q.denominator.bit_length()
    if Fraction(2) ** e > q:
        e -= 1
    e = max(e, -126)
    scale = Fraction(2) ** (23 - e)
    m = q * scale
    fl = m.numerator // m.denominator
    rem = m - fl
    if rem > Fraction(1, 2) or (rem == Fraction(1, 2) and fl & 1):
        fl += 1
    v = Fraction(fl) / scale
    if v >= Fraction(2) ** 128:
        return sign * float("inf")
    return sign * float(v)


def parse_int_sample(bits, s):
    """BitDepth::parse_integer_sample: f32(s) / f32(2^bits - 1); a double division of two f32
    values followed by one rounding is the correctly rounded f32 quotient (53 >= 2*24 + 2)"""
    return f32(int_to_f32(s) / int_to_f32((1 << bits) - 1))


def clampf(x, lo, hi):
    if x != x:
        return x
    return lo if x < lo else hi if x > hi else x


def f32_to_int(v, m):
    """(v as f64 * m + 0.5).clamp(0, m) as uN (repaired code): the product of a 24-bit and a
    <=16-bit significand and its sum with 0.5 are exact in a double"""
    if v != v:
        return 0
    t = clampf(v * m + 0.5, 0.0, float(m))
    return int(t)


def f32_to_int_old(v, m):
    """the unrepaired conversion: both operations rounded to f32"""
    if v != v:
        return 0
    t = f32(v * m)
    t = f32(t + 0.5)
    t = clampf(t, 0.0, float(m))
    return int(t)


def correctly_rounded(v, m):
    """round-half-up of the exact product v*m, clamped (v an f32 value held in a double)"""
    if v != v:
        return 0
    x = v * m                         # exact
    if x <= -1:
        return 0
    if x >= m + 1:
        return m
    import math
    return max(0, min(m, math.floor(x + 0.5)))   # x + 0.5 exact in a double here


def ideal_round(bits, m, s):
    d = (1 << bits) - 1
    return max(0, min(m, (2 * s * m + d) // (2 * d)))


def int_to_u(bits, m, s):
    """uN::copy_from_grid on an integer grid"""
    if (m == 255 and bits == 8) or (m == 65535 and bits == 16):
        return max(0, min(m, s))
    return f32_to_int(parse_int_sample(bits, s), m)


# ---------------------------------------------------------------------------------------------
def cmyk_icc():
    """encoded ICC stream of a 128-byte header-only profile whose colour space is 'CMYK': output
    size 128, no commands, header residuals against jxl-color's predict_header"""
    resid = [0] * 128
    for i, (a, b) in enumerate(zip(b"CMYK", b"RGB ")):
        resid[16 + i] = (a - b) & 255
    return [0x80, 0x01, 0x00] + resid


F16 = [0x0000, 0x3c00, 0x3800, 0x3400, 0x3266, 0x3a66, 0x3e00, 0xb800, 0x0001, 0x4000]


def gen_case(rng, opts=None):
    o = opts or {}
    w = o.get("w") or rng.choice([1, 2, 3, 4, 5, 6, 7, 8, 9, 11, 13, rng.randint(1, 24)])
    h = o.get("h") or rng.choice([1, 2, 3, 4, 5, 6, 7, 8, 10, 12, rng.randint(1, 24)])
    bits = o.get("bits") or rng.choice([1, 8, 8, 10, 16, 16, 24, 31, rng.choice([2, 5, 7, 9, 12, 13, 15, 17, 30])])
    gray = rng.random() < 0.35 if o.get("gray") is None else o["gray"]
    orient = o.get("orient") or rng.randint(1, 8)
    kinds = o.get("ecs")
    if kinds is None:
        kinds = rng.choice([[], [], [0], [0], [4], [4, 0], [0, 4], [1], [1, 0], [0, 1, 4], [0, 0], [4, 4, 0],
                            [3, 0], [2], [2, 0], [0, 2, 2], [4, 2, 0], [16, 0, 15]])
    cmyk = (4 in kinds and not gray and rng.random() < 0.85) if o.get("cmyk") is None else o["cmyk"]
    ecs = []
    for ty in kinds:
        eb = bits if rng.random() < 0.6 else rng.choice([1, 8, 10, 16, 24, 31])
        e = {"ty": ty, "dim_shift": 0, "bits": eb, "alpha_assoc": rng.random() < 0.3}
        if ty == 2:
            e["spot"] = [rng.choice(F16) for _ in range(3)] + [rng.choice(F16[:7])]
        ecs.append(e)
    maxbits = max([bits] + [e["bits"] for e in ecs])
    buf16 = maxbits <= 12 and rng.random() < 0.6
    img = {"w": w, "h": h, "bits": bits, "gray": gray, "buf16": buf16, "ecs": ecs, "orient": orient}
    if cmyk:
        img["icc"] = cmyk_icc()
    ncol = 1 if gray else 3
    oob = rng.random() < 0.25                          # samples outside the nominal range

    def pixels(b):
        hi = (1 << b) - 1
        style = rng.choice(["noise", "noise", "edges", "ramp", "sparse"])
        out = []
        for i in range(w * h):
            if style == "noise":
                v = rng.randint(0, hi)
            elif style == "edges":
                v = rng.choice([0, hi, min(1, hi), max(hi - 1, 0), hi // 2, hi // 2 + 1])
            elif style == "ramp":
                v = (i * max(1, hi // max(1, w * h - 1))) & hi
            else:
                v = 0 if rng.random() < 0.8 else rng.randint(0, hi)
            if oob and rng.random() < 0.1:
                lim = 30000 if buf16 else (1 << 30)
                v = rng.choice([-1, -2, -rng.randint(1, min(lim, hi + 2)), min(hi + rng.randint(1, 9), (1 << 31) - 1)])
                if buf16:
                    v = max(-32768, min(32767, v))
            out.append(v)
        return out
    nframes = 1
    anim = None
    if rng.random() < 0.08 and not o.get("single"):
        nframes = 2
        anim = (10, 1, 0, 0)
        img["anim"] = anim
    frames = []
    # blend mode Add onto the (empty) canvas makes the renderer hand out F32 grids
    fadd = (rng.random() < 0.12) if o.get("fadd") is None else o["fadd"]
    for k in range(nframes):
        chans = [(w, h, pixels(bits)) for _ in range(ncol)] + [(w, h, pixels(e["bits"])) for e in ecs]
        tree = ("L", 0, rng.choice([0, 1, 2, 5]), 0, 1)
        fr = {"gshift": o.get("gshift", rng.randrange(4)), "chans": chans, "tr": [], "pals": [], "tree": tree, "wp": None}
        if fadd:
            fr["blend"] = {"mode": 1}
            fr["ecblend"] = [{"mode": 1} for _ in ecs]
        if anim:
            fr["dur"] = 1
            fr["is_last"] = k == nframes - 1
        # restoration filter (+ squeeze): colour grids are cropped to the filter padding while extra
        # channels may be decoded in full, so channel grids of one render cover different regions
        if o.get("filters", rng.random() < 0.25) and bits <= 16:
            fr["gab"] = True
            fr["epf"] = rng.choice([0, 0, 1, 2])
            if w >= 2 and h >= 2 and rng.random() < 0.6:
                fr["tr"] = [("sq", [])]
        frames.append(fr)
    # oriented size
    W, H = (w, h) if orient <= 4 else (h, w)
    r = rng.random()
    if o.get("region") is not None:
        region = o["region"]
    elif r < 0.5:
        region = None
    elif r < 0.8:                                       # inside
        rw, rh = rng.randint(1, W), rng.randint(1, H)
        region = (rng.randint(0, W - rw), rng.randint(0, H - rh), rw, rh)
    elif r < 0.93:                                      # sticking out / outside
        region = (rng.randint(0, W + 2), rng.randint(0, H + 2), rng.randint(1, W + 3), rng.randint(1, H + 3))
    elif r < 0.97:
        region = (rng.randint(0, W - 1), rng.randint(0, H - 1), 1, 1)
    else:                                               # empty request
        region = (rng.randint(0, W), rng.randint(0, H), rng.choice([0, 0, 2]), rng.choice([0, 3, 0]))
        if region[2] and region[3]:
            region = (region[0], region[1], 0, region[3])
    spot = None
    if 2 in kinds:
        spot = rng.choice([None, None, 1, 0])
    nst = W * H * 5
    specs = ["W", "R"]
    pool = [0, 1, 1, 2, 3, 4, 5, 7, 11, max(1, W * ncol - 1), W * ncol + 1, max(1, nst // 3)]
    lst = [rng.choice(pool) for _ in range(rng.randint(1, 5))]
    if all(x == 0 for x in lst):
        lst.append(3)
    specs.append(",".join(map(str, lst)))
    if rng.random() < 0.3:
        specs.append(str(rng.choice([1, 2, 3, 5])))
    return {"img": img, "frames": frames, "region": region, "spot": spot, "specs": specs, "cmyk": cmyk,
            "oob": oob, "fadd": fadd}


def gen_big_case(rng):
    """several 128-pixel groups, small crop: the renderer decodes only the groups it needs, so the
    grids start at a non-zero offset (`left - region.left` in from_grids / from_render)"""
    w, h = rng.choice([130, 200, 257, 300]), rng.choice([129, 140, 260])
    orient = rng.randint(1, 8)
    W, H = (w, h) if orient <= 4 else (h, w)
    rw, rh = rng.randint(1, 9), rng.randint(1, 9)
    edge = lambda n, r: rng.choice([0, n - r, max(0, 128 - r // 2 - rng.randint(0, 2)), rng.randint(0, n - r), n - r + 2])
    region = (edge(W, rw), edge(H, rh), rw, rh)
    c = gen_case(rng, {"w": w, "h": h, "orient": orient, "region": region, "gshift": 0, "single": True,
                       "bits": rng.choice([8, 16, 10]), "ecs": rng.choice([[], [0]]), "fadd": False})
    c["specs"] = ["W", "R", "3,1"]
    return c


# ---------------------------------------------------------------------------------------------
class ParseErr(Exception):
    pass


def norm_site(tok):
    """panic site: drop the checkout prefix"""
    m = re.search(r"(jxl-[a-z0-9-]+/src/\S+)", tok)
    return m.group(1) if m else tok


def parse_render(line):
    """harness answer -> dict (see harness/src/bin/c15.rs)"""
    w = line.split()
    if not w or w[0] != "ok":
        return {"status": " ".join(w[:3]) if w else "empty"}
    it = iter(w[1:])
    nx = lambda: next(it)
    ni = lambda: int(next(it))
    out = {"status": "ok", "iw": ni(), "ih": ni(), "orient": ni(), "pfch": ni(), "pfblack": ni(), "pfalpha": ni()}
    nk = ni()
    out["U"] = []
    try:
        for _ in range(nk):
            if nx() != "U":
                raise ParseErr("U")
            t = nx()
            if t == "kerr":
                out["U"].append(("kerr", nx()))
                continue
            if t == "panic":
                out["U"].append(("panic", norm_site(nx())))
                continue
            chans = []
            for _ in range(int(t)):
                kind, bits, ty = nx(), ni(), nx()
                spot = [ni() for _ in range(4)] if ty == "2" else None
                cw, ch = ni(), ni()
                data = [ni() for _ in range(cw * ch)]
                chans.append({"kind": kind, "bits": bits, "ty": ty, "spot": spot, "w": cw, "h": ch, "data": data})
            out["U"].append(("ok", chans))
        out["K"] = []
        rest = list(it)
        out["K"] = parse_forms(rest, nk)
    except StopIteration:
        raise ParseErr("truncated")
    return out


def parse_forms(w, nk=None):
    """token list `K o IL .. PL .. ST ..`* -> list of keyframe dicts"""
    i = 0
    ks = []
    n = len(w)

    def body_panic(i):
        return w[i] == "panic"
    while i < n:
        if w[i] != "K":
            raise ParseErr(f"expected K at {i}: {w[i:i+4]}")
        i += 1
        if w[i] == "kerr":
            ks.append({"err": "kerr " + w[i + 1]}); i += 2
            continue
        if w[i] == "panic":
            ks.append({"err": "panic " + norm_site(w[i + 1])}); i += 2
            continue
        k = {"orient": int(w[i]), "ST": {}}
        i += 1
        while i < n and w[i] != "K":
            tag = w[i]; i += 1
            if tag == "GR":
                m = int(w[i]); i += 1
                k["GR"] = [(int(w[i + 2 * j]), int(w[i + 2 * j + 1])) for j in range(m)]; i += 2 * m
            elif tag == "IL":
                if body_panic(i):
                    k["IL"] = ("panic", norm_site(w[i + 1])); i += 2
                    continue
                fw, fh, fc = int(w[i]), int(w[i + 1]), int(w[i + 2]); i += 3
                k["IL"] = (fw, fh, fc, list(map(int, w[i:i + fw * fh * fc]))); i += fw * fh * fc
            elif tag == "PL":
                if body_panic(i):
                    k["PL"] = ("panic", norm_site(w[i + 1])); i += 2
                    continue
                m = int(w[i]); i += 1
                pls = []
                for _ in range(m):
                    fw, fh, fc = int(w[i]), int(w[i + 1]), int(w[i + 2]); i += 3
                    pls.append((fw, fh, fc, list(map(int, w[i:i + fw * fh * fc])))); i += fw * fh * fc
                k["PL"] = pls
            elif tag == "ST":
                a, t, si = int(w[i]), w[i + 1], int(w[i + 2]); i += 3
                if body_panic(i):
                    k["ST"][(a, t, si)] = ("panic", norm_site(w[i + 1])); i += 2
                    continue
                sw, sh, sc, nc = int(w[i]), int(w[i + 1]), int(w[i + 2]), int(w[i + 3]); i += 4
                counts = list(map(int, w[i:i + nc])); i += nc
                dirty, tot = int(w[i]), int(w[i + 1]); i += 2
                k["ST"][(a, t, si)] = (sw, sh, sc, counts, dirty, list(map(int, w[i:i + tot]))); i += tot
            else:
                raise ParseErr(f"unknown tag {tag} at {i}")
        ks.append(k)
    return ks


# ---------------------------------------------------------------------------------------------
class Oracle:
    """the property evaluated on one harness answer; `spec_map(o, w, h)` is the orientation map of
    the specification, obtained from the Lean model"""

    def __init__(self, ctx, spec_map):
        self.ctx, self.spec_map = ctx, spec_map

    def expected_sizes(self, spec, W, C, total):
        return None

    def check(self, case, res, replay, tag):
        """returns list of (kind, detail, key) problems"""
        probs = []
        img = case["img"]
        o, iw, ih = img["orient"], img["w"], img["h"]
        W, H = (iw, ih) if o <= 4 else (ih, iw)
        P = lambda kind, detail, key=None: probs.append((kind, detail, key or kind))
        if res["orient"] != o:
            P("orientation-misreported", {"header": o, "reported": res["orient"]})
        if (res["iw"], res["ih"]) != (W, H):
            P("oriented-image-size", {"expected": [W, H], "reported": [res["iw"], res["ih"]]})
        region = case["region"]
        L, T, RW, RH = region if region else (0, 0, W, H)
        empty = RW == 0 or RH == 0
        inv = None
        for kidx, ((ust, U), K) in enumerate(zip(res["U"], res["K"])):
            where = {"keyframe": kidx}
            if ust != "ok":
                P("unoriented-render-failed", {**where, "what": [ust, U]}, f"{ust}:{U}")
                continue
            if "err" in K:
                P("render-failed", {**where, "what": K["err"]}, K["err"].replace(" ", ":", 1))
                continue
            if K["orient"] != o:
                P("orientation-misreported", {**where, "render.orientation": K["orient"]})
            if any(g != (iw, ih) for g in K.get("GR", [])):
                self.ctx.count("cropped-render-holds-partial-grids")
            nchan = len(U)
            ncol = sum(1 for c in U if c["ty"] == "c")
            self.ctx.count("grids:" + "".join(sorted({c["kind"] for c in U})))
            if any((c["w"], c["h"]) != (iw, ih) for c in U):
                P("unoriented-channel-size", {**where, "sizes": [(c["w"], c["h"]) for c in U], "image": [iw, ih]})
                continue
            if inv is None:
                fwd = self.spec_map(o, iw, ih)
                inv = {p: k for k, p in enumerate(fwd)}
                if len(inv) != iw * ih:
                    P("spec-map-not-injective", {})
            # unoriented linear index (or None) for every output pixel
            src = [inv.get((L + i, T + j)) for j in range(RH) for i in range(RW)]
            npx = RW * RH
            # expected f32 per channel, unoriented value -> f32
            def fval(c, s):
                return bits_f32(s) if c["kind"] == "f" else parse_int_sample(c["bits"], s)
            E = []
            for c in U:
                cache = {}
                col = []
                for k in src:
                    if k is None:
                        col.append(0.0)
                    else:
                        s = c["data"][k]
                        v = cache.get(s)
                        if v is None:
                            v = cache[s] = fval(c, s)
                        col.append(v)
                E.append(col)
            Eb = [[f32_bits(v) for v in col] for col in E]

            def dims_ok(name, got):
                if empty:
                    if tuple(got) != (RW, RH):
                        P("empty-request-not-empty", {**where, "form": name, "requested": [RW, RH], "got": list(got)},
                          "empty-crop")
                    return False
                if tuple(got) != (RW, RH):
                    P("form-dimensions", {**where, "form": name, "expected": [RW, RH], "got": list(got)})
                    return False
                return True
            # ---- interleaved
            il = K.get("IL")
            if il and il[0] == "panic":
                P("panic", {**where, "form": "image_all_channels", "site": il[1]}, "panic:" + il[1])
            elif il:
                fw, fh, fc, data = il
                if fc != nchan:
                    P("form-channels", {**where, "form": "image_all_channels", "expected": nchan, "got": fc})
                elif dims_ok("image_all_channels", (fw, fh)):
                    exp = [Eb[c][p] for p in range(npx) for c in range(nchan)]
                    if data != exp:
                        bad = next(i for i, (a, b) in enumerate(zip(data, exp)) if a != b)
                        P("interleaved-differs-from-oriented-channels",
                          {**where, "index": bad, "pixel": [bad // nchan % RW, bad // nchan // RW], "channel": bad % nchan,
                           "got_bits": data[bad], "expected_bits": exp[bad]})
            # ---- planar
            plr = K.get("PL")
            if plr and plr[0] == "panic":
                P("panic", {**where, "form": "image_planar", "site": plr[1]}, "panic:" + plr[1])
            elif plr is not None:
                if len(plr) != nchan:
                    P("form-channels", {**where, "form": "image_planar", "expected": nchan, "got": len(plr)})
                else:
                    for c, (fw, fh, fc, data) in enumerate(plr):
                        if fc != 1:
                            P("form-channels", {**where, "form": f"image_planar[{c}]", "expected": 1, "got": fc})
                        elif dims_ok(f"image_planar[{c}]", (fw, fh)) and data != Eb[c]:
                            bad = next(i for i, (a, b) in enumerate(zip(data, Eb[c])) if a != b)
                            P("planar-differs-from-oriented-channels",
                              {**where, "channel": c, "pixel": [bad % RW, bad // RW], "got_bits": data[bad],
                               "expected_bits": Eb[c][bad]})
                        if il and il[0] != "panic" and il[2] == nchan and (il[0], il[1]) == (fw, fh) \
                                and il[3][c::nchan] != data:
                            P("interleaved-planar-disagree", {**where, "channel": c})
            # ---- streams
            ec = U[ncol:]
            black = next((ncol + i for i, c in enumerate(ec) if c["ty"] == "4"), None) if res["pfblack"] else None
            alpha = next((ncol + i for i, c in enumerate(ec) if c["ty"] == "0"), None)
            if (alpha is not None) != bool(res["pfalpha"]):
                P("pixel-format-alpha", {**where, "pixel_format.has_alpha": res["pfalpha"], "alpha_channel": alpha})
            spot_on = case["spot"] if case["spot"] is not None else (0 if img["gray"] else 1)
            spots = [c for c in ec if c["ty"] == "2"] if (spot_on and ncol == 3) else []
            for a in (1, 0):
                order = list(range(ncol)) + ([black] if black is not None else []) + \
                        ([alpha] if (a and alpha is not None) else [])
                if a and black is not None and len(order) != res["pfch"]:
                    P("pixel-format-channels", {**where, "pixel_format.channels": res["pfch"], "stream": len(order)})
                C = len(order)
                # expected per stream channel
                def chan_f32(ci, sc):
                    if sc >= 3 or not spots:
                        return E[ci]
                    out = []
                    for p in range(npx):
                        tmp = E[ci][p]
                        for s in spots:
                            k = src[p]
                            sol = bits_f32(s["spot"][3])
                            color = bits_f32(s["spot"][sc])
                            if k is None:
                                # outside the image the spot grid has no sample: value 0 * solidity
                                sv = 0.0
                            else:
                                sv = fval(s, s["data"][k])
                            mix = rf(Fraction(sv) * Fraction(sol))
                            t1 = rf(Fraction(color) * Fraction(mix))
                            t2 = rf(Fraction(tmp) * Fraction(rf(1 - Fraction(mix))))
                            tmp = rf(Fraction(t1) + Fraction(t2))
                        out.append(tmp)
                    return out
                SF = [chan_f32(ci, sc) for sc, ci in enumerate(order)]
                mixed = bool(spots)

                def chan_int(ci, sc, m):
                    if mixed and sc < 3:
                        return [f32_to_int(v, m) for v in SF[sc]]
                    c = U[ci]
                    out = []
                    cache = {}
                    for p, k in enumerate(src):
                        if k is None:
                            out.append(0)
                            continue
                        s = c["data"][k]
                        v = cache.get(s)
                        if v is None:
                            v = cache[s] = (f32_to_int(bits_f32(s), m) if c["kind"] == "f" else int_to_u(c["bits"], m, s))
                        out.append(v)
                    return out
                exp = {"f": [f32_bits(SF[sc][p]) for p in range(npx) for sc in range(C)]}
                for t, m in (("h", 65535), ("b", 255)):
                    cols = [chan_int(ci, sc, m) for sc, ci in enumerate(order)]
                    exp[t] = [cols[sc][p] for p in range(npx) for sc in range(C)]
                for t in "fhb":
                    for si, spec in enumerate(case["specs"]):
                        st = K["ST"].get((a, t, si))
                        name = f"{'stream' if a else 'stream_no_alpha'}<{ {'f':'f32','h':'u16','b':'u8'}[t] }>[{spec}]"
                        if st is None:
                            P("missing-form", {**where, "form": name})
                            continue
                        if st[0] == "panic":
                            P("panic", {**where, "form": name, "site": st[1]}, "panic:" + st[1])
                            continue
                        sw, sh, sc, counts, dirty, data = st
                        if sc != C:
                            P("stream-channel-count", {**where, "form": name, "expected": C, "got": sc,
                                                        "rule": "colour, black if CMYK, first alpha"})
                            continue
                        if not dims_ok(name, (sw, sh)):
                            continue
                        total = RW * RH * C
                        if dirty:
                            P("write-to-buffer-touched-beyond-count", {**where, "form": name, "flags": dirty})
                        # counts: every call fills min(size, remaining)
                        sizes = self.call_sizes(spec, RW, C, total, len(counts))
                        rem = total
                        okc = True
                        for n, sz in zip(counts, sizes):
                            if n != min(sz, rem):
                                okc = False
                                break
                            rem -= n
                        if not okc or sum(counts) != total:
                            P("write-to-buffer-counts", {**where, "form": name, "counts": counts[:40], "sizes": sizes[:40],
                                                         "total_samples": total})
                        if data != exp[t]:
                            nb = min(len(data), len(exp[t]))
                            bad = next((i for i in range(nb) if data[i] != exp[t][i]), nb)
                            whole = K["ST"].get((a, t, 0))
                            P("stream-differs-from-oriented-channels" if spec == "W" or (whole and whole[0] != "panic" and whole[5] == data)
                              else "chunked-stream-differs-from-whole",
                              {**where, "form": name, "index": bad, "pixel": [bad // C % RW, bad // C // RW] if C else None,
                               "stream_channel": bad % C if C else None,
                               "source_channel": order[bad % C] if C else None,
                               "got": data[bad] if bad < len(data) else None,
                               "expected": exp[t][bad] if bad < len(exp[t]) else None, "got_len": len(data), "expected_len": len(exp[t])})
                        elif t != "f":
                            # "correctly rounded" relative to the float the f32 stream shows
                            m = 65535 if t == "h" else 255
                            dev = 0
                            for p in range(len(data)):
                                v = bits_f32(exp["f"][p])
                                if correctly_rounded(v, m) != data[p]:
                                    dev += 1
                            if dev:
                                self.ctx.count(f"double-rounding-deviations:{'u16' if t == 'h' else 'u8'}", dev)
                                p = next(p for p in range(len(data))
                                         if correctly_rounded(bits_f32(exp["f"][p]), m) != data[p])
                                P("integer-stream-not-correctly-rounded",
                                  {**where, "form": name, "index": p, "float_bits": exp["f"][p], "got": data[p],
                                   "correctly_rounded": correctly_rounded(bits_f32(exp["f"][p]), m), "deviations": dev},
                                  "double-rounding")
        return probs

    @staticmethod
    def call_sizes(spec, W, C, total, ncalls):
        if spec == "W":
            base = [total + 5]
        elif spec == "R":
            base = [max(W * C, 1)]
        else:
            base = list(map(int, spec.split(",")))
        out = [base[k % len(base)] for k in range(max(0, ncalls - 1))]
        return out + [2]


# ---------------------------------------------------------------------------------------------
def predict_line(case, res, kidx):
    """input of `jxlmodel c15 predict` for one keyframe, built from the implementation's own
    unoriented dump"""
    img = case["img"]
    U = res["U"][kidx][1]
    ncol = sum(1 for c in U if c["ty"] == "c")
    s = ["predict", img["orient"], img["w"], img["h"], "region",
         "full" if not case["region"] else ",".join(map(str, case["region"])),
         "cmyk", res["pfblack"], "spot",
         case["spot"] if case["spot"] is not None else (0 if img["gray"] else 1),
         "ncolor", ncol, "chans", len(U)]
    for c in U:
        s += [c["kind"], c["bits"], c["ty"]]
        if c["spot"]:
            s += c["spot"]
        s += [c["w"], c["h"]] + c["data"]
    s += ["chunks", len(case["specs"])] + case["specs"]
    return " ".join(map(str, s))


def render_line(hexs, case):
    reg = "full" if not case["region"] else ",".join(map(str, case["region"]))
    s = f"render {hexs} region={reg} chunks={';'.join(case['specs'])}"
    if case["spot"] is not None:
        s += f" spot={case['spot']}"
    return s


def describe(case):
    img = case["img"]
    return {"orientation": img["orient"], "size": [img["w"], img["h"]], "bits": img["bits"], "gray": img["gray"],
            "extra_channels": [(e["ty"], e["bits"]) for e in img["ecs"]], "cmyk_icc": case["cmyk"],
            "region": case["region"], "render_spot_color": case["spot"], "chunks": case["specs"]}


def exhaustive_conversions(ctx, depths):
    """TEST: every sample value of every depth through the real u8/u16/f32 streams"""
    lines, metas = [], []
    for b in depths:
        n = 1 << b
        extra = [-1, -2, -(n // 2) - 1, n, n + 1, 2 * n + 3] if b < 16 else [-1, -2, -40000]
        vals = list(range(n)) + extra
        w = 1 << ((b + 1) // 2)
        h = (len(vals) + w - 1) // w
        vals += [0] * (w * h - len(vals))
        img = {"w": w, "h": h, "bits": b, "gray": True, "buf16": False, "ecs": [], "orient": 1}
        fr = {"gshift": 1, "chans": [(w, h, vals)], "tr": [], "pals": [], "tree": ("L", 0, 0, 0, 1), "wp": None}
        lines.append(pl.plan_line(img, [fr]))
        metas.append((b, w, h, vals))
    encs = run_lines_robust([MODEL_EXE, "enc"], lines, per_line_timeout=120)
    rl = []
    for e in encs:
        r = pl.parse_enc_output(e) if e and e.startswith("ok") else None
        rl.append(f"render {r[0]} region=full chunks=W" if r else "bad")
    outs = run_lines_robust([ctx.harness_bin("c15")], rl, per_line_timeout=120)
    convs = run_lines_robust([MODEL_EXE, "c15"], [f"conv {b} {min(v)} {max(v)}" for (b, _, _, v) in metas],
                             per_line_timeout=120)
    for (b, w, h, vals), o, cv in zip(metas, outs, convs):
        replay = {"what": f"exhaustive depth {b}: {w}x{h} gray image holding every sample value", "how":
                  "tools/props/c15.py exhaustive_conversions"}
        try:
            res = parse_render(o or "")
        except ParseErr as e:
            res = {"status": "unparsable " + str(e)}
        if res["status"] != "ok" or "err" in res["K"][0]:
            ctx.violation("exhaustive-render-failed", (o or "")[:300], replay, key=f"exhaustive-render:{b}")
            continue
        K = res["K"][0]
        lo = min(vals)
        cw = cv.split() if cv and cv.startswith("ok") else None
        model = None
        if cw:
            nums = list(map(int, cw[1:]))
            model = {lo + i: tuple(nums[5 * i:5 * i + 5]) for i in range(len(nums) // 5)}
        else:
            ctx.failed_obligations.append(f"model conv op failed for depth {b}: {(cv or '')[:100]}")
        dev_spec = dev_model = dev_cr = dev_ideal = 0
        first = None
        for t, m, col in (("h", 65535, 1), ("b", 255, 2)):
            st = K["ST"].get((1, t, 0))
            fs = K["ST"].get((1, "f", 0))
            if not st or st[0] == "panic" or not fs or fs[0] == "panic":
                ctx.violation("panic", {"depth": b, "form": t, "what": st}, replay, key=f"panic:{st[1] if st else '?'}")
                continue
            data, fdata = st[5], fs[5]
            for i, s in enumerate(vals):
                got = data[i]
                ctx.cov["evaluations"] += 0
                spec = int_to_u(b, m, s)
                if got != spec:
                    dev_spec += 1
                    first = first or {"depth": b, "sample": s, "to": "u16" if m == 65535 else "u8", "got": got, "f32_spec": spec}
                if model and model[s][col] != got:
                    dev_model += 1
                if fdata[i] != f32_bits(parse_int_sample(b, s)):
                    dev_spec += 1
                    first = first or {"depth": b, "sample": s, "to": "f32", "got_bits": fdata[i]}
                if model and m == 255 and model[s][0] != fdata[i]:
                    dev_model += 1
                if correctly_rounded(bits_f32(fdata[i]), m) != got:
                    dev_cr += 1
                    ctx.notes.setdefault("double_rounding_examples", [])
                    if len(ctx.notes["double_rounding_examples"]) < 8:
                        ctx.notes["double_rounding_examples"].append(
                            {"depth": b, "sample": s, "to": "u16" if m == 65535 else "u8", "got": got,
                             "correctly_rounded_float": correctly_rounded(bits_f32(fdata[i]), m),
                             "ideal_of_integer": ideal_round(b, m, s)})
                if ideal_round(b, m, s) != got:
                    dev_ideal += 1
        ctx.case(("exhaustive", b), True)
        ctx.count("exhaustive:samples", len(vals) * 2)
        ctx.count("exhaustive:differs-from-f32-spec", dev_spec)
        ctx.count("exhaustive:differs-from-correctly-rounded-float", dev_cr)
        ctx.count("exhaustive:differs-from-ideal-of-integer-sample", dev_ideal)
        if dev_spec:
            ctx.violation("integer-stream-not-the-specified-rounding", first, replay, key="conv-spec")
        if dev_cr:
            ctx.violation("integer-stream-not-correctly-rounded", {"depth": b, "count": dev_cr,
                          "examples": ctx.notes.get("double_rounding_examples", [])[:4]}, replay, key="double-rounding")
        if dev_model:
            ctx.failed_obligations.append(f"Float32 conversion model differs from the implementation at depth {b} ({dev_model} values)")


def loading_campaign(ctx, orc):
    import feedlib as fl
    rng = ctx.rng
    imgs = []
    for _ in range(12 if ctx.quick else 150):
        img, frames = fl.gen_multiframe(rng)
        fl.cap_depth(img)
        img["anim"] = None
        for f in frames:
            f["dur"] = 0                      # layers of ONE keyframe: a partly loaded frame falls back to the layers below
            f.pop("tocperm", None)
        imgs.append((img, frames))
    plans = [pl.plan_line(i, f) for i, f in imgs]
    encs = run_lines_robust([MODEL_EXE, "enc"], plans, per_line_timeout=60)
    lines, meta = [], []
    for (img, frames), plan, e in zip(imgs, plans, encs):
        r = pl.parse_enc_output(e) if e and e.startswith("ok") else None
        if r is None:
            continue
        hexs, n = r[0], len(r[0]) // 2
        o, iw, ih = img["orient"], img["w"], img["h"]
        W, H = (iw, ih) if o <= 4 else (ih, iw)
        cuts = sorted({rng.randint(n // 4, n) for _ in range(10 if ctx.quick else 30)})
        for cut in cuts:
            rw, rh = rng.randint(1, W), rng.randint(1, H)
            region = None if rng.random() < 0.25 else (rng.randint(0, W - rw), rng.randint(0, H - rh), rw, rh)
            case = {"img": img, "frames": frames, "region": region, "specs": ["W"], "spot": None, "cmyk": False, "tag": "loading"}
            reg = "full" if not region else ",".join(map(str, region))
            lines.append(f"loading {hexs} cut={cut} region={reg} chunks=W")
            meta.append((case, plan, cut))
    outs = run_lines_robust([ctx.harness_bin("c15")], lines, per_line_timeout=30)
    for (case, plan, cut), ln, o in zip(meta, lines, outs):
        o = o or "crash"
        replay = {"plan": plan if len(plan) < 6000 else plan[:6000] + "...", "cut": cut, "region": case["region"],
                  "harness_line": ln if len(ln) < 8000 else ln[:8000] + "...",
                  "how": "echo '<harness_line>' | harness/target/debug/c15   (plan -> lean/.lake/build/bin/jxlmodel enc)"}
        ctx.case(("loading", ln), nontrivial=not o.startswith("skip"))
        if o.startswith("skip"):
            ctx.count("loading:" + o.split()[1][:24])
            continue
        if o.startswith("panic") or o.startswith("crash") or o == "hang":
            site = norm_site(o.split()[1]) if len(o.split()) > 1 else o
            ctx.violation("render-panic-or-hang", o[:300], replay, key=f"{o.split()[0]}:{site}")
            continue
        try:
            res = parse_render(o)
            probs = orc.check(case, res, replay, "loading")
        except (ParseErr, ValueError, IndexError, RuntimeError) as e:
            ctx.failed_obligations.append(f"loading: harness answer unusable ({e!r}): {o[:120]}")
            continue
        ctx.count("loading:rendered")
        seen = set()
        for kind, detail, key in probs:
            if kind == "render-failed":        # the second request may still say need-more-data
                ctx.count("loading:second-request-" + str(detail.get("what"))[:30])
                continue
            if kind == "unoriented-channel-size":
                # a loading frame that is not composed onto the canvas keeps its own (frame sized) grids: the
                # oracle cannot place them without the frame offset, which the API does not expose
                ctx.count("loading:grids-are-frame-sized(not judged)")
                continue
            if (kind, key) in seen:
                continue
            seen.add((kind, key))
            ctx.count("oracle:" + kind)
            ctx.violation(kind, dict(detail, of="render_loading_frame"), replay, key="loading:" + key)
        if not probs:
            ctx.count("oracle:ok")


def run(ctx):
    # 1. regenerate the maps from the source; a construct that cannot be read is a broken tie
    try:
        translate_c15.main(REPO, VERIF)
    except translate_c15.TranslateError as e:
        ctx.failed_obligations.append(str(e))
    except Exception as e:
        ctx.failed_obligations.append(f"translate_c15 crashed: {e!r}")
    ok = ctx.lean_build(MODULES)
    if ok:
        ctx.audit(MODULES, ctx.update_lock)
        if not ctx.quick:
            ctx.leanchecker(MODULES)
    else:
        # the driver may still be buildable from the previous model only if the proofs broke:
        # try the executable alone so that the campaign can look for a concrete failing input
        with Lock():
            rc, out, err, dt = sh(["lake", "build", "jxlmodel"], cwd=LEAN, timeout=3600)
        if rc != 0:
            ctx.failed_obligations.append("jxlmodel does not build")
    have_model = os.path.exists(MODEL_EXE)
    ctx.cargo_build(["c15"])
    q = ctx.quick
    n_random = 420 if q else 7000
    cases = []

    def load_case(c, tag):
        c["region"] = tuple(c["region"]) if c.get("region") else None
        for fr in c["frames"]:
            fr["chans"] = [tuple(x) for x in fr["chans"]]
            fr["tree"] = tuple(fr["tree"])
        c["tag"] = tag
        return c
    replaying = getattr(ctx, "replay", None)
    if replaying:
        rj = json.load(open(replaying))["replay"]
        if not rj.get("case_full"):
            ctx.failed_obligations.append("replay file carries no case_full (case too large): use its harness_line")
            return
        cases.append(load_case(rj["case_full"], "replay"))
        n_random = 0
    # corpus: stored witnesses first
    if os.path.isdir(CORPUS) and not replaying:
        for f in sorted(os.listdir(CORPUS)):
            if f.endswith(".json"):
                cases.append(load_case(json.load(open(os.path.join(CORPUS, f))), "corpus:" + f))
    # systematic: every orientation x gray/RGB x (none, alpha, black+alpha CMYK, depth) x depths
    for o in (range(1, 9) if not replaying else []):
        for gray in (False, True):
            for ecs in ([], [0], [4, 0], [1, 0]):
                if gray and 4 in ecs:
                    continue
                for bits in ((1, 8, 10, 16, 24, 31) if (not q or ecs in ([], [4, 0])) else (8, 16, 31)):
                    c = gen_case(ctx.rng, {"orient": o, "gray": gray, "ecs": ecs, "bits": bits, "single": True,
                                            "w": ctx.rng.choice([2, 3, 5, 7]), "h": ctx.rng.choice([1, 2, 4, 6])})
                    c["tag"] = "systematic"
                    cases.append(c)
    for _ in range(n_random):
        c = gen_case(ctx.rng)
        c["tag"] = "random"
        cases.append(c)
    for _ in range(0 if replaying else 5 if q else 60):
        c = gen_big_case(ctx.rng)
        c["tag"] = "multi-group"
        cases.append(c)
    ctx.cov["rule"] = ("images written by the Lean reference encoder: orientation 1..8 x gray/RGB x extra channels "
                       "(alpha, black with a CMYK ICC profile, depth, spot colour with non-zero solidity, selection mask, "
                       "optional; also several alphas/blacks and depths differing from the colour depth) x bit depths "
                       "1..31 (1, 8, 10, 16, 24, 31 systematically) x full / inside / protruding / outside / 1x1 / empty "
                       "crop regions x set_render_spot_color x buffer-size sequences (whole, row by row, seeded odd "
                       "sizes with zeros); samples include values outside the nominal range; some two-keyframe "
                       "animations. Non-trivial = more than one distinct sample value. Distinct by plan + request.")
    lines = [pl.plan_line(c["img"], c["frames"]) for c in cases]
    encs = run_lines_robust([MODEL_EXE, "enc"], lines, per_line_timeout=60) if have_model else [None] * len(lines)
    todo = []
    for c, line, e in zip(cases, lines, encs):
        r = pl.parse_enc_output(e) if e and e.startswith("ok") else None
        if r is None:
            ctx.count("encoder:" + (e.split()[1] if e and len(e.split()) > 1 else "none"))
            continue
        todo.append((c, line, r))
    rlines = [render_line(r[0], c) for (c, _, r) in todo]
    outs = run_lines_robust([ctx.harness_bin("c15")], rlines, per_line_timeout=30)
    spec_cache = {}

    def spec_map(o, w, h):
        k = (o, w, h)
        if k not in spec_cache:
            res, rc, err = run_lines([MODEL_EXE, "c15"], [f"spec {o} {w} {h}"])
            ws = res[0].split() if res else []
            if not ws or ws[0] != "ok":
                raise RuntimeError("model spec op failed: " + (res[0][:100] if res else err))
            nums = list(map(int, ws[3:]))
            spec_cache[k] = [(nums[2 * i], nums[2 * i + 1]) for i in range(len(nums) // 2)]
        return spec_cache[k]
    # pre-fetch all spec maps in one process
    need = sorted({(c["img"]["orient"], c["img"]["w"], c["img"]["h"]) for (c, _, _) in todo})
    if have_model and need:
        res, rc, err = run_lines([MODEL_EXE, "c15"], [f"spec {o} {w} {h}" for (o, w, h) in need])
        for k, l in zip(need, res):
            ws = l.split()
            if ws and ws[0] == "ok":
                nums = list(map(int, ws[3:]))
                spec_cache[k] = [(nums[2 * i], nums[2 * i + 1]) for i in range(len(nums) // 2)]
    orc = Oracle(ctx, spec_map)
    plines, pmeta = [], []
    parsed = []
    for (c, line, r), rl, o in zip(todo, rlines, outs):
        replay = {"case": describe(c), "plan": line if len(line) < 4000 else line[:4000] + "...",
                  "codestream_hex": r[0] if len(r[0]) < 8000 else r[0][:8000] + "...",
                  "harness_line": rl if len(rl) < 8000 else rl[:8000] + "...",
                  "case_full": c if len(line) < 20000 else None,
                  "how": "python3 tools/check.py C15 --replay <this file>   or   echo '<harness_line>' | "
                         "harness/target/debug/c15   (plan -> lean/.lake/build/bin/jxlmodel enc)"}
        vals = set()
        for fr in c["frames"]:
            for ch in fr["chans"]:
                vals.update(ch[2][:64])
        ctx.case((line, rl.split(" ", 2)[2]), nontrivial=len(vals) > 1)
        img = c["img"]
        ctx.count(f"orientation:{img['orient']}")
        ctx.count(f"bits:{img['bits']}")
        ctx.count("colour:" + ("gray" if img["gray"] else "cmyk" if c["cmyk"] else "rgb"))
        ctx.count("region:" + ("full" if not c["region"] else "empty" if 0 in c["region"][2:] else "crop"))
        for e in img["ecs"]:
            ctx.count(f"ec-type:{e['ty']}")
        if len(c["frames"]) > 1:
            ctx.count("two-keyframes")
        if c["oob"]:
            ctx.count("out-of-range-samples")
        if c.get("fadd"):
            ctx.count("blend-add-frame(F32 grids)")
        ctx.count("tag:" + c["tag"].split(":")[0])
        o = o or "crash"
        if o.startswith("panic") or o.startswith("crash") or o == "hang":
            site = norm_site(o.split()[1]) if len(o.split()) > 1 else o
            ctx.violation("render-panic-or-hang", o[:300], replay, key=f"{o.split()[0]}:{site}")
            parsed.append(None)
            continue
        try:
            res = parse_render(o)
        except (ParseErr, ValueError, IndexError) as e:
            ctx.failed_obligations.append(f"harness answer unparsable ({e!r}): {o[:120]}")
            parsed.append(None)
            continue
        if res["status"] != "ok":
            ctx.violation("valid-stream-rejected", o[:200], replay, key="rejected")
            parsed.append(None)
            continue
        # the decoder returned the encoded samples? (C03's claim; here it guards the oracle's input)
        for kidx, (ust, U) in enumerate(res["U"]):
            if ust == "ok" and kidx < len(r[1]):
                got = [(ch["w"], ch["h"], ch["data"]) for ch in U]
                if all(ch["kind"] == "i" for ch in U) and got != r[1][kidx]["chans"]:
                    ctx.count("decoded-differs-from-encoded(C03)")
        try:
            probs = orc.check(c, res, replay, c["tag"])
        except RuntimeError as e:
            ctx.failed_obligations.append(str(e))
            probs = []
        seen = set()
        for kind, detail, key in probs:
            if (kind, key) in seen:
                continue
            seen.add((kind, key))
            ctx.count("oracle:" + kind)
            ctx.violation(kind, detail, replay, key=key)
        if not probs:
            ctx.count("oracle:ok")
            if len(ctx.cov["samples"]) < 4 and len(line) < 600:
                ctx.sample({"case": describe(c), "plan": line, "codestream_hex": r[0]})
        parsed.append(res)
        for kidx, (ust, U) in enumerate(res["U"]):
            if ust == "ok" and "err" not in res["K"][kidx]:
                plines.append(predict_line(c, res, kidx))
                pmeta.append((len(parsed) - 1, kidx, replay, probs))
    # 1b. the same oracle on `render_loading_frame()` of a partly fed multi-frame image (layers with their own
    # offsets): the forms must describe the grids that render holds, wherever the stream was cut
    if have_model and not replaying:
        loading_campaign(ctx, orc)
    # 2. model vs implementation
    if have_model and plines:
        preds = run_lines_robust([MODEL_EXE, "c15"], plines, per_line_timeout=120)
        ndiff = 0
        for (pi, kidx, replay, probs), p in zip(pmeta, preds):
            if not p or not p.startswith("ok "):
                ctx.failed_obligations.append(f"model predict failed: {(p or '')[:100]} case {replay['case']}")
                continue
            try:
                mk = parse_forms(p.split()[1:])[0]
            except (ParseErr, ValueError, IndexError) as e:
                ctx.failed_obligations.append(f"model answer unparsable: {e!r}")
                continue
            ik = parsed[pi]["K"][kidx]
            diffs = []
            if ik.get("IL") != mk.get("IL") and ik.get("IL", ("",))[0] != "panic":
                diffs.append("image_all_channels")
            if ik.get("PL") != mk.get("PL") and (not ik.get("PL") or ik["PL"][0] != "panic"):
                diffs.append("image_planar")
            for key, v in ik["ST"].items():
                if v[0] == "panic":
                    continue
                mv = mk["ST"].get(key)
                if mv is None or tuple(v) != tuple(mv):
                    diffs.append(f"stream{key}")
            ctx.count("model:agree" if not diffs else "model:differ")
            if diffs and ndiff < 12:
                ndiff += 1
                msg = (f"correspondence model vs fb.rs differs in {diffs[:4]} for {replay['case']}"
                       + (" (the oracle also failed on this case)" if probs else ""))
                ctx.failed_obligations.append(msg)
    # 3. TEST: exhaustive conversions
    if have_model and not replaying:
        exhaustive_conversions(ctx, list(range(1, 17)))
        ctx.notes["exhaustive_conversions"] = ("TEST, not proof: every sample value of every depth 1..16 (plus values "
                                               "outside the range) through the real f32/u16/u8 streams, compared with "
                                               "the specified conversion, with round-half-up of the float in exact "
                                               "arithmetic, and with the Float32 model; counters exhaustive:*")
    ctx.assumptions += [
        "frames are written without a frame-level crop (x0 = y0 = 0) and extra channels without dim_shift; "
        "the renderer's grids then cover the whole image, which is what the model assumes for grid regions",
        "the unoriented channel data used by the oracle is the implementation's own uncropped render "
        "(Render::color_channels/extra_channels); that it equals the encoded samples is C03's claim (counted here)",
        "IEEE f32 arithmetic is not proved: the Float32 model is compared bit for bit on every sample, and the u8/u16 "
        "conversions exhaustively for depths 1..16 (a test)",
        "black is only carried by the streams when the colour encoding is CMYK (an embedded 128-byte CMYK ICC header "
        "here); colour management itself is not exercised (no CMS in this build)",
    ]
