"""Writes small multi-frame JPEG XL images (8x8, Modular, 1-bit residuals) with chosen reference
structure: which frames are keyframes, which slot each frame blends over and which it overwrites.
They are the multi-keyframe inputs of the C08/C20 checks (the repository ships a single fixture
with one keyframe). Layout knowledge: design-probes/craft2.py (its output decodes to the intended
samples); frame header fields follow crates/jxl-frame/src/header.rs. The checks never trust this
writer: every image is opened and rendered cleanly by the real decoder first, and its structure is
read back through `describe`."""
import os, random


class BW:
    def __init__(self):
        self.bits = []

    def u(self, n, v):
        for i in range(n):
            self.bits.append((v >> i) & 1)

    def pad(self):
        while len(self.bits) % 8:
            self.bits.append(0)

    def bytes(self):
        self.pad()
        out = bytearray()
        for i in range(0, len(self.bits), 8):
            b = 0
            for j in range(8):
                b |= self.bits[i + j] << j
            out.append(b)
        return bytes(out)


def image_header(w, width, height):
    w.u(16, 0x0aff)
    w.u(1, 0)
    w.u(2, 0); w.u(9, height - 1)
    w.u(3, 0)
    w.u(2, 0); w.u(9, width - 1)
    w.u(1, 0)            # metadata all_default = false
    w.u(1, 1)            # extra_fields
    w.u(3, 0)            # orientation 1
    w.u(1, 0)            # have_intr_size
    w.u(1, 0)            # have_preview
    w.u(1, 1)            # have_animation
    w.u(2, 0)            # tps_numerator = 100
    w.u(2, 0)            # tps_denominator = 1
    w.u(2, 0)            # num_loops = 0
    w.u(1, 0)            # have_timecodes
    w.u(1, 0); w.u(2, 0)  # bit depth: integer, 8
    w.u(1, 1)            # modular_16bit_buffers
    w.u(2, 0)            # num_extra = 0
    w.u(1, 0)            # xyb_encoded = false
    w.u(1, 1)            # colour_encoding all_default (sRGB)
    w.u(1, 1)            # tone_mapping all_default
    w.u(2, 0)            # extensions
    w.u(1, 1)            # default_m
    w.pad()


REPLACE, ADD = 0, 1


def frame_header(w, f):
    """f: dict(kind='regular'|'refonly', mode, source, duration, last, save)"""
    refonly = f.get("kind") == "refonly"
    w.u(1, 0)                      # all_default
    w.u(2, 2 if refonly else 0)    # frame_type
    w.u(1, 1)                      # modular
    w.u(2, 0)                      # flags
    w.u(1, 0)                      # do_ycbcr
    w.u(2, 0)                      # upsampling = 1
    w.u(2, 1)                      # group_size_shift
    if not refonly:
        w.u(2, 0)                  # passes.num_passes = 1
    w.u(1, 0)                      # have_crop
    resets = True
    if not refonly:
        mode = f.get("mode", REPLACE)
        w.u(2, mode)               # blending_info.mode (U32(0,1,2,3+u(2)): selector = value for 0..2)
        resets = mode == REPLACE   # no crop: a full-frame Replace resets the canvas
        if not resets:
            w.u(2, f.get("source", 0))
        dur = f.get("duration", 0)
        assert dur in (0, 1)
        w.u(2, dur)                # duration: U32(0, 1, u(8), u(32))
        w.u(1, 1 if f.get("last") else 0)
    last = bool(f.get("last")) and not refonly
    save = f.get("save", 0)
    if not last:
        w.u(2, save)
    dur = f.get("duration", 0) if not refonly else 0
    if refonly or (resets and (not last) and (dur == 0 or save != 0)):
        w.u(1, 1)                  # save_before_ct
    w.u(2, 0)                      # name
    w.u(1, 0)                      # restoration_filter.all_default = false
    w.u(1, 0)                      # gab disabled
    w.u(2, 0)                      # epf iters 0
    w.u(2, 0)                      # rf extensions
    w.u(2, 0)                      # extensions


def section(pixels, width, height, nch=3):
    s = BW()
    s.u(1, 1)            # lf_dequant all_default
    s.u(1, 1)            # global tree present
    s.u(1, 0)            # tree decoder: lz77 disabled
    s.u(1, 1); s.u(2, 0)  # simple clustering nbits=0
    s.u(1, 1)            # prefix code
    s.u(4, 15)
    s.u(1, 0)            # alphabet size 1
    s.u(1, 0)            # sample decoder: lz77
    s.u(1, 1)            # prefix
    s.u(4, 15)
    s.u(1, 1); s.u(4, 1); s.u(1, 0)   # alphabet size 3
    s.u(2, 1)            # hskip=1 simple
    s.u(2, 1)            # nsym=2
    s.u(2, 0); s.u(2, 2)
    s.u(1, 1)            # use_global_tree
    s.u(1, 1)            # default_wp
    s.u(2, 0)            # nb_transforms 0
    for c in range(nch):
        for y in range(height):
            for x in range(width):
                s.u(1, pixels[c][y][x])
    return s.bytes()


def make(frames, width=8, height=8, seed=1):
    rng = random.Random(seed)
    w = BW()
    image_header(w, width, height)
    out = bytearray(w.bytes())
    for f in frames:
        pixels = [[[rng.randint(0, 1) for _ in range(width)] for _ in range(height)] for _ in range(3)]
        sec = section(pixels, width, height)
        fw = BW()
        frame_header(fw, f)
        fw.u(1, 0)       # TOC not permuted
        fw.pad()
        assert len(sec) < 1024
        fw.u(2, 0); fw.u(10, len(sec))
        fw.pad()
        out += fw.bytes() + sec
    return bytes(out)


# name -> frame list. Slots: `save` overwrites a slot, `source` is the slot blended over.
STRUCTURES = {
    # f0 layer (not shown) in slot 1; f1, f2 keyframes blending over slot 1; f2 overwrites slot 1
    # (so it resets f0 after compositing); f3 last keyframe over f2
    "anim_shared_ref": [
        dict(mode=REPLACE, duration=0, save=1),
        dict(mode=ADD, source=1, duration=1, save=2),
        dict(mode=ADD, source=1, duration=1, save=1),
        dict(mode=ADD, source=1, duration=1, last=True),
    ],
    # f0 in slot 1, f1 (layer, resets the canvas) in slot 2; f2 blends over slot 2 but overwrites
    # slot 1: it resets f0 without ever blending over it; f3 last keyframe
    "anim_overwrite_other": [
        dict(mode=REPLACE, duration=0, save=1),
        dict(mode=REPLACE, duration=0, save=2),
        dict(mode=ADD, source=2, duration=1, save=1),
        dict(mode=ADD, source=1, duration=1, last=True),
    ],
    # a chain of layers ending in two keyframes, plus a reference-only frame
    "chain_refonly": [
        dict(kind="refonly", save=3),
        dict(mode=REPLACE, duration=0, save=1),
        dict(mode=ADD, source=1, duration=0, save=1),
        dict(mode=ADD, source=1, duration=1, save=1),
        dict(mode=ADD, source=3, duration=1, save=2),
        dict(mode=ADD, source=2, duration=1, last=True),
    ],
}


def ensure(directory):
    """writes the images (deterministically) and returns [(name, path)]"""
    os.makedirs(directory, exist_ok=True)
    res = []
    for name, frames in STRUCTURES.items():
        p = os.path.join(directory, name + ".jxl")
        data = make(frames, seed=len(name))
        if not os.path.exists(p) or open(p, "rb").read() != data:
            open(p, "wb").write(data)
        res.append((name, p))
    return res


if __name__ == "__main__":
    import sys
    for n, p in ensure(sys.argv[1] if len(sys.argv) > 1 else "."):
        print(n, p, os.path.getsize(p))
