"""C13 — resource accounting. Theorems: Props/C13.lean (tracker state machine, every history).
Correspondence: random operation histories on the real AllocTracker vs the Lean model, plus the
accounting oracle evaluated on the implementation's own answers."""
from vlib import *
import glob
import planlib as pl

MODULES = ["JxlModel.Props.C13"]
W = 2 ** 64


def gen_history(rng, n):
    """mostly-valid histories: sizes near the remaining budget, out-of-order drops, resizes"""
    limit = rng.choice([0, 1, 7, 64, 1000, 4096, 10 ** 6, 2 ** 32, 2 ** 63, W - 1])
    ops = [f"init {limit}"]
    left, live = limit, []
    for _ in range(n):
        r = rng.random()
        if r < 0.45:
            size = rng.choice([1, 2, 4, 8, 16])
            k = rng.random()
            if k < 0.5:
                count = rng.randint(0, max(0, left // size // 2))
            elif k < 0.8:
                count = max(0, left // size + rng.choice([-1, 0, 0, 1, 1, 2]))
            elif k < 0.97:
                count = rng.randint(0, 2 ** rng.randint(0, 62))
            else:
                count = min(W - 1, (W - 1) // size + rng.choice([0, 1, 2]))      # multiplication edge
            count = min(count, W - 1)
            ops.append(f"alloc {count} {size}")
            b = count * size
            if b < W and b <= left:
                left -= b
                live.append(b)
        elif r < 0.75 and live:
            i = rng.randrange(len(live))
            ops.append(f"drop {i}")
            left += live.pop(i)
        elif r < 0.87:
            room = W - 1 - (left + sum(live))
            by = rng.choice([0, 1, rng.randint(0, 4096), rng.randint(0, max(0, room))])
            by = min(by, room)                                        # NoWrap histories only
            ops.append(f"expand {by}")
            left += by
        else:
            by = min(W - 1, rng.choice([0, 1, left, left + 1, rng.randint(0, left + 2)]))
            ops.append(f"shrink {by}")
            if by <= left:
                left -= by
    return ops


def oracle(ops, outs):
    """the property evaluated on the implementation's own outputs (no model involved):
    left + live bytes == initial + expands - shrinks; oom exactly when it does not fit."""
    limit = left = 0
    live = []
    for i, (op, out) in enumerate(zip(ops, outs)):
        w = op.split()
        m = re.match(r"(\S+)(?: (\d+))? left=(\d+) live=(\d+)$", out)
        if not m:
            return i, "unparsable/abnormal output: " + out
        res, arg, l, n = m.group(1), m.group(2), int(m.group(3)), int(m.group(4))
        if w[0] == "init":
            limit = left = int(w[1]); live = []
        elif w[0] == "alloc":
            b = int(w[1]) * int(w[2])
            if b >= W:
                if res != "panic-mul":          # wraps or worse
                    return i, "size multiplication overflow not detected"
            elif res == "ok":
                if b > left:
                    return i, "allocation beyond the limit succeeded"
                left -= b; live.append(b)
            elif res == "oom":
                if b <= left:
                    return i, "allocation within the limit failed"
            else:
                return i, "abnormal result " + res
        elif w[0] == "drop":
            left += live.pop(int(w[1]))
        elif w[0] == "expand":
            limit += int(w[1]); left += int(w[1])
        elif w[0] == "shrink":
            if res == "ok":
                if int(w[1]) > left:
                    return i, "shrink below outstanding succeeded"
                limit -= int(w[1]); left -= int(w[1])
            elif int(w[1]) <= left:
                return i, "shrink within budget failed"
        if l + sum(live) != limit:
            return i, f"conservation broken: left {l} + outstanding {sum(live)} != limit {limit}"
        if sum(live) > limit:
            return i, "tracked total exceeds limit"
    return None


def run(ctx):
    ok = ctx.lean_build(MODULES)
    if ok:
        ctx.audit(MODULES, ctx.update_lock)
        if not ctx.quick:
            ctx.leanchecker(MODULES)
    ctx.cargo_build(["c13"])
    n_hist = 300 if ctx.quick else 6000
    ctx.cov["rule"] = ("seeded random operation histories (init/alloc/drop/expand/shrink) on the real "
                       "AllocTracker and on the Lean model; sizes aimed at the remaining budget +-1, "
                       "usize multiplication edge, random drop order; a history is non-trivial if it "
                       "contains at least one failed request and one drop; distinct by content")
    all_ops, bounds = [], []
    for h in range(n_hist):
        ops = gen_history(ctx.rng, ctx.rng.randint(5, 60))
        bounds.append((len(all_ops), len(all_ops) + len(ops)))
        all_ops += ops
    impl, rc, err = ctx.run_impl("c13", all_ops)
    model, rc2, err2 = ctx.run_model("c13", all_ops) if ok else (impl, 0, "")
    if rc != 0 or len(impl) != len(all_ops):
        ctx.failed_obligations.append(f"harness c13 died rc={rc} {err[-300:]}")
        return
    if ok and (rc2 != 0 or len(model) != len(all_ops)):
        ctx.failed_obligations.append(f"model driver died rc={rc2} {err2[-300:]}")
        model = impl
    for (a, b) in bounds:
        ops, io, mo = all_ops[a:b], impl[a:b], model[a:b]
        for o in io:
            ctx.count(o.split()[0])
        nontriv = any(o.startswith("oom") for o in io) and any(op.startswith("drop") for op in ops)
        ctx.case(tuple(ops), nontriv)
        if a == 0 or (nontriv and len(ctx.cov["samples"]) < 3):
            ctx.sample({"ops": ops[:12], "impl": io[:12]})
        bad = oracle(ops, io)
        if bad is not None:
            i, why = bad
            ctx.violation("implementation-violates-accounting", why,
                          {"ops": ops[:i + 1], "impl": io[:i + 1], "model": mo[:i + 1],
                           "how": "feed ops to harness/target/debug/c13"}, key=f"c13:{why}")
            continue
        d = first_diff(io, mo)
        if d is not None:
            ctx.failed_obligations.append(
                f"correspondence AllocTracker vs Jxl.Alloc.step differs at op {ops[d]!r}: impl {io[d]!r} model {mo[d]!r}")
    end_to_end(ctx, ok)
    ctx.assumptions += [
        "usize = 64 bit; histories in which expand_limit wraps the limit past usize::MAX are excluded (NoWrap)",
        "atomic read-modify-write operations are linearizable, so concurrent histories are sequences",
        "the decoder's own use of the tracker (every handle dropped on every error path) is exercised "
        "by the end-to-end limit sweep below, not proved",
    ]


def end_to_end(ctx, ok):
    """limit sweep through the whole decoder: exhaustion is an Err, the tracked peak stays within the
    limit, and after dropping the image and every render the full budget is back (hook H1)"""
    ctx.cargo_build(["c13e"])
    rng = ctx.rng
    streams = [("fixture", open(REPO + "/crates/jxl-oxide-tests/tests/cms/cmyk_layers.jxl", "rb").read())]
    for f in sorted(glob.glob(REPO + "/crates/jxl-oxide-tests/tests/fuzz_findings/*.fuzz"))[: (12 if ctx.quick else 61)]:
        streams.append(("hostile:" + os.path.basename(f), open(f, "rb").read()))
    if ok:
        plans = []
        for i in range(8 if ctx.quick else 80):
            img, fr = pl.gen_modular_image(rng, {"multi_group": True} if i % 4 == 3 else None)
            plans.append(pl.plan_line(img, fr))
        for e in run_lines_robust([MODEL_EXE, "enc"], plans, per_line_timeout=60):
            r = pl.parse_enc_output(e) if e and e.startswith("ok") else None
            if r:
                streams.append(("encoder", bytes.fromhex(r[0])))
    ample = 1 << 30
    clean = run_lines_robust([ctx.harness_bin("c13e")], [f"sweep {d.hex()} {ample}" for _, d in streams], per_line_timeout=60)
    lines, meta = [], []
    for (label, data), c in zip(streams, clean):
        m = re.match(r"(\S+) peak=(\d+) left=(\d+) outstanding=(\d+) allocs=(\d+)", c or "")
        if not m:
            ctx.violation("decoder-panicked-or-hung-under-ample-limit", (c or "")[:300],
                          {"bytes_hex": data.hex(), "limit": ample}, key="c13e:" + (c or "crash").split()[0][:60])
            continue
        peak, allocs = int(m.group(2)), int(m.group(5))
        limits = {0, 1, peak - 1, peak, peak + 1, peak // 2, peak // 3, 2 * peak, ample}
        limits |= {rng.randint(0, max(1, peak)) for _ in range(6 if ctx.quick else 40)}
        for l in sorted(x for x in limits if x >= 0):
            lines.append(f"sweep {data.hex()} {l}"); meta.append((label, data, l, None, peak))
        ks = sorted({0, 1, allocs // 2, max(0, allocs - 1)} | {rng.randrange(max(1, allocs)) for _ in range(6 if ctx.quick else 60)})
        for k in ks:
            lines.append(f"sweep {data.hex()} {ample} {k}"); meta.append((label, data, ample, k, peak))
    outs = run_lines_robust([ctx.harness_bin("c13e")], lines, per_line_timeout=60, batch=50)
    for (label, data, limit, k, peak), o in zip(meta, outs):
        o = o or "crash"
        ctx.case(("e2e", data, limit, k), nontrivial=True)
        ctx.count("e2e:" + label.split(":")[0])
        replay = {"bytes_hex": data.hex(), "limit": limit, "fail_from": k,
                  "how": "echo 'sweep <hex> <limit> [fail_from]' | harness/target/debug/c13e"}
        m = re.match(r"(\S+) peak=(\d+) left=(\d+) outstanding=(\d+) allocs=(\d+)", o)
        if not m:
            ctx.violation("exhaustion-not-an-error", o[:300], replay, key="c13e:" + o.split()[0][:60])
            continue
        outcome, pk, left, outst = m.group(1), int(m.group(2)), int(m.group(3)), int(m.group(4))
        ctx.count("e2e-outcome:" + outcome.split("_")[0])
        if outcome.startswith("panic"):
            mm = re.match(r"panic_([^_]+\.rs:\d+)", outcome)
            ctx.violation("exhaustion-panicked", outcome[:300], replay, key="panic:" + (mm.group(1) if mm else "?"))
        elif pk > limit:
            ctx.violation("tracked-total-exceeded-limit", f"peak {pk} > limit {limit}", replay, key="c13e:peak")
        elif outst != 0 or left != limit:
            ctx.violation("budget-not-restored-after-drop", f"left {left} of {limit}, outstanding {outst}", replay, key="c13e:leak")
        elif k is None and limit >= ample and not outcome.startswith("ok") and label in ("fixture", "encoder"):
            ctx.violation("valid-image-failed-under-ample-limit", outcome, replay, key="c13e:ample")
