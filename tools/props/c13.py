"""C13 — resource accounting. Theorems: Props/C13.lean (tracker state machine, every history).
Correspondence: random operation histories on the real AllocTracker vs the Lean model, plus the
accounting oracle evaluated on the implementation's own answers."""
from vlib import *
import glob
import planlib as pl

MODULES = ["JxlModel.Props.C13"]
W = 2 ** 64


def gen_history(rng, n):
    """mostly-valid histories: sizes near the remaining budget, out-of-order drops, resizes"""
    limit = rng.choice([0, 1, 7, 64, 1000, 4096, 10 ** 6, 2 ** 32, 2 ** 63, W - 1])
    ops = [f"init {limit}"]
    left, live = limit, []
    for _ in range(n):
        r = rng.random()
        if r < 0.45:
            size = rng.choice([1, 2, 4, 8, 16])
            k = rng.random()
            if k < 0.5:
                count = rng.randint(0, max(0, left // size // 2))
            elif k < 0.8:
                count = max(0, left // size + rng.choice([-1, 0, 0, 1, 1, 2]))
            elif k < 0.97:
                count = rng.randint(0, 2 ** rng.randint(0, 62))
            else:
                count = min(W - 1, (W - 1) // size + rng.choice([0, 1, 2]))      # multiplication edge
            count = min(count, W - 1)
            ops.append(f"alloc {count} {size}")
            b = count * size
            if b < W and b <= left:
                left -= b
                live.append(b)
        elif r < 0.75 and live:
            i = rng.randrange(len(live))
            ops.append(f"drop {i}")
            left += live.pop(i)
        elif r < 0.87:
            room = W - 1 - (left + sum(live))
            by = rng.choice([0, 1, rng.randint(0, 4096), rng.randint(0, max(0, room))])
            by = min(by, room)                                        # NoWrap histories only
            ops.append(f"expand {by}")
            left += by
        else:
            by = min(W - 1, rng.choice([0, 1, left, left + 1, rng.randint(0, left + 2)]))
            ops.append(f"shrink {by}")
            if by <= left:
                left -= by
    return ops


def oracle(ops, outs):
    """the property evaluated on the implementation's own outputs (no model involved):
    left + live bytes == initial + expands - shrinks; oom exactly when it does not fit."""
    limit = left = 0
    live = []
    for i, (op, out) in enumerate(zip(ops, outs)):
        w = op.split()
        m = re.match(r"(\S+)(?: (\d+))? left=(\d+) live=(\d+)$", out)
        if not m:
            return i, "unparsable/abnormal output: " + out
        res, arg, l, n = m.group(1), m.group(2), int(m.group(3)), int(m.group(4))
        if w[0] == "init":
            limit = left = int(w[1]); live = []
        elif w[0] == "alloc":
            b = int(w[1]) * int(w[2])
            if b >= W:
                if res != "panic-mul":          # wraps or worse
                    return i, "size multiplication overflow not detected"
            elif res == "ok":
                if b > left:
                    return i, "allocation beyond the limit succeeded"
                left -= b; live.append(b)
            elif res == "oom":
                if b <= left:
                    return i, "allocation within the limit failed"
            else:
                return i, "abnormal result " + res
        elif w[0] == "drop":
            left += live.pop(int(w[1]))
        elif w[0] == "expand":
            limit += int(w[1]); left += int(w[1])
        elif w[0] == "shrink":
            if res == "ok":
                if int(w[1]) > left:
                    return i, "shrink below outstanding succeeded"
                limit -= int(w[1]); left -= int(w[1])
            elif int(w[1]) <= left:
                return i, "shrink within budget failed"
        if l + sum(live) != limit:
            return i, f"conservation broken: left {l} + outstanding {sum(live)} != limit {limit}"
        if sum(live) > limit:
            return i, "tracked total exceeds limit"
    return None


def translate(ctx):
    """regenerate Gen/AllocOps.lean from alloc_tracker.rs (atomic operation shape of each op)"""
    p = subprocess.run([sys.executable, os.path.join(VERIF, "tools/translate_c13.py")], capture_output=True, text=True)
    ctx.notes["translate_c13"] = (p.stdout + p.stderr).strip()[-300:]
    if p.returncode != 0:
        ctx.failed_obligations.append("translator translate_c13.py failed: " + (p.stdout + p.stderr).strip()[-300:])


def run(ctx):
    translate(ctx)
    ok = ctx.lean_build(MODULES)
    if ok:
        ctx.audit(MODULES, ctx.update_lock)
        if not ctx.quick:
            ctx.leanchecker(MODULES)
    ctx.cargo_build(["c13"])
    n_hist = 300 if ctx.quick else 6000
    ctx.cov["rule"] = ("seeded random operation histories (init/alloc/drop/expand/shrink) on the real "
                       "AllocTracker and on the Lean model; sizes aimed at the remaining budget +-1, "
                       "usize multiplication edge, random drop order; a history is non-trivial if it "
                       "contains at least one failed request and one drop; distinct by content")
    all_ops, bounds = [], []
    for h in range(n_hist):
        ops = gen_history(ctx.rng, ctx.rng.randint(5, 60))
        bounds.append((len(all_ops), len(all_ops) + len(ops)))
        all_ops += ops
    impl, rc, err = ctx.run_impl("c13", all_ops)
    model, rc2, err2 = ctx.run_model("c13", all_ops) if ok else (impl, 0, "")
    if rc != 0 or len(impl) != len(all_ops):
        ctx.failed_obligations.append(f"harness c13 died rc={rc} {err[-300:]}")
        return
    if ok and (rc2 != 0 or len(model) != len(all_ops)):
        ctx.failed_obligations.append(f"model driver died rc={rc2} {err2[-300:]}")
        model = impl
    for (a, b) in bounds:
        ops, io, mo = all_ops[a:b], impl[a:b], model[a:b]
        for o in io:
            ctx.count(o.split()[0])
        nontriv = any(o.startswith("oom") for o in io) and any(op.startswith("drop") for op in ops)
        ctx.case(tuple(ops), nontriv)
        if a == 0 or (nontriv and len(ctx.cov["samples"]) < 3):
            ctx.sample({"ops": ops[:12], "impl": io[:12]})
        bad = oracle(ops, io)
        if bad is not None:
            i, why = bad
            ctx.violation("implementation-violates-accounting", why,
                          {"ops": ops[:i + 1], "impl": io[:i + 1], "model": mo[:i + 1],
                           "how": "feed ops to harness/target/debug/c13"}, key=f"c13:{why}")
            continue
        d = first_diff(io, mo)
        if d is not None:
            ctx.failed_obligations.append(
                f"correspondence AllocTracker vs Jxl.Alloc.step differs at op {ops[d]!r}: impl {io[d]!r} model {mo[d]!r}")
    concurrent(ctx)
    set_limits(ctx, ok)
    end_to_end(ctx, ok)
    ctx.assumptions += [
        "usize = 64 bit; histories in which expand_limit wraps the limit past usize::MAX are excluded (NoWrap)",
        "atomic read-modify-write operations are linearizable, so concurrent histories are sequences: each "
        "tracker operation is a single RMW (C13_ops_are_single_rmw over Gen/AllocOps.lean, regenerated from "
        "alloc_tracker.rs); a multi-threaded stress run looks for a schedule in which the bytes of live handles "
        "exceed the limit or an over-limit request succeeds",
        "JxlDecoder::set_limits (image integration) is modelled by Jxl.Alloc.setLimits; tied by running the same "
        "set_limits sequences on the real decoder (hook H8) and on the model",
        "the decoder's own use of the tracker (every handle dropped on every error path) is exercised "
        "by the end-to-end limit sweep below, not proved",
    ]


def concurrent(ctx):
    """search for a schedule that breaks the single-RMW reading of the tracker"""
    rng = ctx.rng
    lines = [f"stress {t} {30000 if ctx.quick else 400000} {l} {rng.randrange(1 << 62)}"
             for t in (2, 4, 8, 16) for l in (1 << 20, 3000, 97)]
    outs = run_lines_robust([ctx.harness_bin("c13")], lines, per_line_timeout=300)
    for line, o in zip(lines, outs):
        ctx.case(("stress", line), nontrivial=True)
        m = re.match(r"stress max_live=(\d+) limit=(\d+) refused_ok=(\d+) left=(\d+)", o or "")
        rep = {"op": line, "answer": o, "how": "echo '<op>' | harness/target/debug/c13 (schedule dependent: repeat)"}
        if not m:
            ctx.violation("concurrent-stress-crashed", (o or "crash")[:200], rep, key="c13:stress-crash")
            continue
        mx, lim, wrong, left = (int(x) for x in m.groups())
        ctx.count("stress-runs")
        if mx > lim:
            ctx.violation("concurrent-callers-exceeded-limit", f"live bytes {mx} > limit {lim}", rep, key="c13:stress-exceeded")
        elif wrong:
            ctx.violation("over-limit-request-succeeded-under-contention", f"{wrong} times", rep, key="c13:stress-over-limit-ok")
        elif left != lim:
            ctx.violation("budget-not-restored-after-concurrent-use", f"left {left} of {lim}", rep, key="c13:stress-leak")


def set_limits(ctx, ok):
    """JxlDecoder::set_limits sequences: real decoder (c13i, hook H8) vs Jxl.Alloc.setLimits, plus the
    oracle on the implementation alone: total budget == last accepted limit, refusal iff it does not fit"""
    ctx.cargo_build(["c13i"])
    rng = ctx.rng
    fixture = open(REPO + "/crates/jxl-oxide-tests/tests/cms/cmyk_layers.jxl", "rb").read().hex()
    W = 2 ** 64
    scripts = []
    for _ in range(40 if ctx.quick else 600):
        ops = []
        for _ in range(rng.randint(1, 8)):
            v = rng.choice(["none", 0, 1, 100, 407, 408, 409, 4096, 10 ** 6, 10 ** 9, W - 1,
                            rng.randrange(0, 2000), rng.randrange(0, 1 << 40)])
            ops.append(f"set:{v}")
        scripts.append(ops)
    lines = ["dec " + fixture + " " + " ".join(o) for o in scripts]
    outs = run_lines_robust([ctx.harness_bin("c13i")], lines, per_line_timeout=60)
    mlines, spans = [], []
    for ops, o in zip(scripts, outs):
        parts = (o or "crash").split(" | ")
        ctx.case(("set_limits", tuple(ops)), nontrivial=any("refused" in p for p in parts) and any(p.startswith("ok") for p in parts))
        rep = {"script": " ".join(ops), "answer": (o or "")[:600], "how": "echo 'dec <fixture hex> <ops>' | harness/target/debug/c13i"}
        if len(parts) != len(ops) + 1 or not parts[0].startswith("new "):
            ctx.violation("set-limits-crashed", (o or "crash")[:200], rep, key="c13:set-limits-crash")
            continue
        m0 = re.match(r"new total=(\d+) out=(\d+) cur=(\d+)", parts[0])
        total, out = int(m0.group(1)), int(m0.group(2))
        bad = None
        for op, p_ in zip(ops, parts[1:]):
            m = re.match(r"(ok|refused|err) total=(\d+) out=(\d+) cur=(\d+)", p_)
            if not m:
                bad = "unparsable " + p_; break
            new = W - 1 if op == "set:none" else int(op[4:])
            ctx.count("set_limits:" + m.group(1))
            if m.group(1) == "ok":
                if new < int(m.group(3)):
                    bad = f"limit {new} below the {m.group(3)} bytes handed out was accepted"; break
                total = new
            elif m.group(1) == "refused":
                if new >= int(m.group(3)):
                    bad = f"limit {new} that fits the {m.group(3)} bytes handed out was refused"; break
            else:
                bad = "unexpected error"; break
            if int(m.group(2)) != total:
                bad = f"after {op}: tracker budget {m.group(2)} != last accepted limit {total}"; break
        if bad:
            ctx.violation("set-limits-budget-is-not-the-last-accepted-limit", bad, rep, key="c13:set-limits")
            continue
        spans.append((len(mlines), ops, parts))
        mlines.append(f"dnew {out}")
        mlines += ["dset " + op[4:] for op in ops]
    if ok and mlines:
        mo, rc, err = ctx.run_model("c13", mlines)
        if rc != 0 or len(mo) != len(mlines):
            ctx.failed_obligations.append(f"model driver (set_limits) died rc={rc} {err[-200:]}")
        else:
            for a, ops, parts in spans:
                got = mo[a:a + len(ops) + 1]
                if got != parts:
                    d = first_diff(parts, got)
                    ctx.failed_obligations.append(
                        f"correspondence JxlDecoder::set_limits vs Jxl.Alloc.setLimits differs at {(['new'] + ops)[d]!r}: "
                        f"impl {parts[d]!r} model {got[d]!r}")
                    break
    # a decode under the installed limit: it must fail when the image needs more than the limit,
    # also after refused calls in between (the budget is the last ACCEPTED limit)
    if ok:
        plans = []
        for i in range(4 if ctx.quick else 40):
            img, fr = pl.gen_modular_image(rng)
            plans.append(pl.plan_line(img, fr))
        hexes = []
        for e in run_lines_robust([MODEL_EXE, "enc"], plans, per_line_timeout=60):
            r = pl.parse_enc_output(e) if e and e.startswith("ok") else None
            if r:
                hexes.append(r[0])
        amp = run_lines_robust([ctx.harness_bin("c13i")], [f"dec {h} set:none decode" for h in hexes], per_line_timeout=60)
        dl, meta = [], []
        for h, o in zip(hexes, amp):
            m = re.search(r"\| (\S+) total=\d+ out=\d+ cur=\d+ peak=(\d+)$", o or "")
            m0 = re.match(r"new total=\d+ out=(\d+)", o or "")
            if not m or m.group(1) != "ok" or not m0:
                ctx.count("set_limits-decode:ample-" + ((o or "crash").split(" | ")[-1].split()[0]))
                continue
            peak, out0 = int(m.group(2)), int(m0.group(1))
            for pre in ("", f"set:{2 * peak} set:0 ", f"set:{peak - 1} set:{out0 - 1} set:{3 * peak} set:1 "):
                for lim in (peak - 1, peak, max(out0, peak // 2)):
                    dl.append(f"dec {h} {pre}set:{lim} decode"); meta.append((peak, lim))
        for line, (peak, lim), o in zip(dl, meta, run_lines_robust([ctx.harness_bin("c13i")], dl, per_line_timeout=60)):
            parts = (o or "crash").split(" | ")
            ctx.case(("set_limits-decode", line), nontrivial=True)
            m = re.match(r"(\S+) total=(\d+) out=(\d+) cur=(\d+) peak=(\d+)", parts[-1])
            rep = {"script": line[:20] + "..." + line[-120:], "codestream_hex": line.split()[1], "answer": (o or "")[-300:],
                   "needs_bytes": peak, "limit": lim, "how": "echo '<script>' | harness/target/debug/c13i"}
            if not m:
                ctx.violation("decode-under-set-limits-crashed", (o or "crash")[:200], rep, key="c13:set-limits-decode-crash")
                continue
            ctx.count("set_limits-decode:" + m.group(1))
            if int(m.group(2)) != lim:
                ctx.violation("set-limits-budget-is-not-the-last-accepted-limit", f"budget {m.group(2)} != {lim}", rep, key="c13:set-limits")
            elif lim < peak and m.group(1) == "ok":
                ctx.violation("decode-succeeded-beyond-the-installed-limit", f"needs {peak}, limit {lim}", rep, key="c13:set-limits-decode")
            elif int(m.group(5)) > lim:
                ctx.violation("tracked-total-exceeded-limit", f"peak {m.group(5)} > limit {lim}", rep, key="c13:set-limits-peak")
            elif lim >= peak and m.group(1) != "ok":
                ctx.violation("decode-failed-within-the-installed-limit", f"needs {peak}, limit {lim}: {m.group(1)}", rep, key="c13:set-limits-decode-fail")


def end_to_end(ctx, ok):
    """limit sweep through the whole decoder: exhaustion is an Err, the tracked peak stays within the
    limit, and after dropping the image and every render the full budget is back (hook H1)"""
    ctx.cargo_build(["c13e"])
    rng = ctx.rng
    streams = [("fixture", open(REPO + "/crates/jxl-oxide-tests/tests/cms/cmyk_layers.jxl", "rb").read())]
    for f in sorted(glob.glob(REPO + "/crates/jxl-oxide-tests/tests/fuzz_findings/*.fuzz"))[: (12 if ctx.quick else 61)]:
        streams.append(("hostile:" + os.path.basename(f), open(f, "rb").read()))
    if ok:
        plans = []
        for i in range(8 if ctx.quick else 80):
            img, fr = pl.gen_modular_image(rng, {"multi_group": True} if i % 4 == 3 else None)
            plans.append(pl.plan_line(img, fr))
        # XYB-encoded Modular images, narrow and wide buffers: the renderer converts the integer grids to
        # float itself (ImageBuffer::cast_to_float / convert_to_float_modular_xyb) - buffers that change
        # owner on the way must stay charged exactly once (seeded: c13-cast-to-float-leaks-handle)
        nx = 0
        while nx < (4 if ctx.quick else 40):
            img, fr = pl.gen_modular_image(rng, {"bits": rng.choice([8, 10, 12])})
            if img["gray"] or any(t[0] in ("pal",) for t in fr[0]["tr"]):
                continue
            img["xyb"] = True
            img["buf16"] = nx % 2 == 1
            plans.append(pl.plan_line(img, fr))
            nx += 1
        for e in run_lines_robust([MODEL_EXE, "enc"], plans, per_line_timeout=60):
            r = pl.parse_enc_output(e) if e and e.startswith("ok") else None
            if r:
                streams.append(("encoder", bytes.fromhex(r[0])))
    import feedlib as fl
    for label, data, _jpeg in fl.synth_vardct(ctx, 4 if ctx.quick else 40):
        streams.append(("vardct", data))
    ample = 1 << 30
    clean = run_lines_robust([ctx.harness_bin("c13e")], [f"sweep {d.hex()} {ample}" for _, d in streams], per_line_timeout=60)
    lines, meta = [], []
    for (label, data), c in zip(streams, clean):
        m = re.match(r"(\S+) peak=(\d+) left=(\d+) outstanding=(\d+) allocs=(\d+)", c or "")
        if not m:
            ctx.violation("decoder-panicked-or-hung-under-ample-limit", (c or "")[:300],
                          {"bytes_hex": data.hex(), "limit": ample}, key="c13e:" + (c or "crash").split()[0][:60])
            continue
        peak, allocs = int(m.group(2)), int(m.group(5))
        limits = {0, 1, peak - 1, peak, peak + 1, peak // 2, peak // 3, 2 * peak, ample}
        limits |= {rng.randint(0, max(1, peak)) for _ in range(6 if ctx.quick else 40)}
        for l in sorted(x for x in limits if x >= 0):
            lines.append(f"sweep {data.hex()} {l}"); meta.append((label, data, l, None, peak))
        ks = sorted({0, 1, allocs // 2, max(0, allocs - 1)} | {rng.randrange(max(1, allocs)) for _ in range(6 if ctx.quick else 60)})
        for k in ks:
            lines.append(f"sweep {data.hex()} {ample} {k}"); meta.append((label, data, ample, k, peak))
        # incremental feeding, the caller keeps feeding after an error
        for _ in range(6 if ctx.quick else 40):
            chunk = rng.choice([1, 7, 64, 333, 1000, 4096, 9613, max(1, len(data) // 3)])
            if len(data) > 20000 and chunk < 4096:
                chunk = 4096        # try_init re-parses from the start at every feed: small chunks are quadratic
            if rng.random() < 0.5:
                l = rng.choice([peak - 1, peak // 2, peak // 3, rng.randint(0, max(1, peak))])
                lines.append(f"feeds {data.hex()} {max(0, l)} {chunk}"); meta.append((label, data, max(0, l), None, peak))
            else:
                k = rng.randrange(max(1, allocs))
                lines.append(f"feeds {data.hex()} {ample} {chunk} {k}"); meta.append((label, data, ample, k, peak))
    # a caller that repeats a refused feed_bytes call: what the image holds after feeding is charged,
    # however it got there (group byte buffers carry their handle for their lifetime). `held` of a run
    # whose every call was accepted in the end must be that of the clean run.
    rl, rmeta = [], []
    for (label, data) in streams:
        if label.startswith("hostile"):
            continue
        chunk = rng.choice([64, 333, 4096, max(1, len(data) // 3), len(data)])
        if len(data) > 20000 and chunk < 4096:
            chunk = 4096
        rl.append(f"retry {data.hex()} {ample} {chunk}"); rmeta.append((label, data, chunk))
    held_clean = {}
    for (label, data, chunk), o in zip(rmeta, run_lines_robust([ctx.harness_bin("c13e")], rl, per_line_timeout=180, batch=20)):
        m = re.search(r" held=(\d+) accepted=1$", o or "")
        if m and (o or "").startswith("ok "):
            held_clean[(data, chunk)] = int(m.group(1))
    for (data, chunk), h in held_clean.items():
        label = next(l for l, d in streams if d == data)
        for l in sorted({max(0, h - 1), h // 2, (3 * h) // 4} | {rng.randint(0, max(1, h)) for _ in range(4 if ctx.quick else 30)}):
            lines.append(f"retry {data.hex()} {l} {chunk}"); meta.append((label, data, l, None, chunk))
    outs = run_lines_robust([ctx.harness_bin("c13e")], lines, per_line_timeout=180, batch=50)
    for (label, data, limit, k, peak), ln, o in zip(meta, lines, outs):
        o = o or "crash"
        ctx.case(("e2e", data, limit, k), nontrivial=True)
        ctx.count("e2e:" + label.split(":")[0])
        opw = ln.split()
        replay = {"bytes_hex": data.hex(), "limit": limit, "fail_from": k, "op": opw[0], "op_args": opw[2:],
                  "how": "echo '<op> <hex> <op_args>' | harness/target/debug/c13e  (sweep <hex> <limit> [fail_from] | "
                         "feeds <hex> <limit> <chunk> [fail_from])"}
        m = re.match(r"(\S+) peak=(\d+) left=(\d+) outstanding=(\d+) allocs=(\d+)", o)
        if not m:
            ctx.violation("exhaustion-not-an-error", o[:300], replay, key="c13e:" + o.split()[0][:60])
            continue
        outcome, pk, left, outst = m.group(1), int(m.group(2)), int(m.group(3)), int(m.group(4))
        ctx.count("e2e-outcome:" + outcome.split("_")[0])
        if outcome.startswith("panic"):
            mm = re.match(r"panic_([^_]+\.rs:\d+)", outcome)
            ctx.violation("exhaustion-panicked", outcome[:300], replay, key="panic:" + (mm.group(1) if mm else "?"))
        elif pk > limit:
            ctx.violation("tracked-total-exceeded-limit", f"peak {pk} > limit {limit}", replay, key="c13e:peak")
        elif outst != 0 or left != limit:
            ctx.violation("budget-not-restored-after-drop", f"left {left} of {limit}, outstanding {outst}", replay, key="c13e:leak")
        elif opw[0] == "retry":
            ctx.count("e2e:retry-after-refused-feed")
            mh = re.search(r" held=(\d+) accepted=(\d)$", o)
            want = held_clean.get((data, peak))        # for retry lines the last field of meta is the chunk size
            if mh and mh.group(2) == "1" and want is not None:
                ctx.count("e2e:retry-all-calls-accepted")
                if int(mh.group(1)) != want:
                    ctx.violation("held-memory-not-charged-after-a-retried-feed",
                                  f"every feed_bytes call was accepted in the end (limit {limit}) but the image holds {mh.group(1)} tracked "
                                  f"bytes; the same feeding without a refusal holds {want}", replay, key="c13e:held-uncharged")
        elif k is None and limit >= ample and not outcome.startswith("ok") and label in ("fixture", "encoder", "vardct"):
            ctx.violation("valid-image-failed-under-ample-limit", outcome, replay, key="c13e:ample")
