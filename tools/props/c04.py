"""C04 — entropy decoding inverts the specified coding.
Theorems: Props/C04.lean. Correspondence: Python draws a *plan* (every header form, coder kind,
cluster-map coding, integer config, LZ77 setting) and a symbol sequence, the Lean reference encoder
(`jxlmodel c04enc`) turns them into a bit string, then the real `jxl_coding::Decoder`
(harness/src/bin/c04.rs) and the Lean decoder model (`jxlmodel c04`) decode it.
Oracle on the implementation first: decoded values == the plan's sequence (LZ77 expanded by this
file, independently of Lean), bits consumed == encoder's bit count, header bits == encoder's header
bits, finalize ok. Second stream: malformed inputs (bit flips / truncation / garbage), where model
and implementation must agree on every value, bit position and error class; panics are violations
keyed by site."""
from vlib import *
import translate_c04

MODULES = ["JxlModel.Props.C04", "JxlModel.Props.C04Table"]
M32 = 2 ** 32
# frozen Spec copy of the 120 special distances (dx, dy) — deliberately NOT read from /repo
SPECIAL_SPEC = [(0, 1), (1, 0), (1, 1), (-1, 1), (0, 2), (2, 0), (1, 2), (-1, 2), (2, 1), (-2, 1), (2, 2), (-2, 2), (0, 3), (3, 0), (1, 3), (-1, 3), (3, 1), (-3, 1), (2, 3), (-2, 3), (3, 2), (-3, 2), (0, 4), (4, 0), (1, 4), (-1, 4), (4, 1), (-4, 1), (3, 3), (-3, 3), (2, 4), (-2, 4), (4, 2), (-4, 2), (0, 5), (3, 4), (-3, 4), (4, 3), (-4, 3), (5, 0), (1, 5), (-1, 5), (5, 1), (-5, 1), (2, 5), (-2, 5), (5, 2), (-5, 2), (4, 4), (-4, 4), (3, 5), (-3, 5), (5, 3), (-5, 3), (0, 6), (6, 0), (1, 6), (-1, 6), (6, 1), (-6, 1), (2, 6), (-2, 6), (6, 2), (-6, 2), (4, 5), (-4, 5), (5, 4), (-5, 4), (3, 6), (-3, 6), (6, 3), (-6, 3), (0, 7), (7, 0), (1, 7), (-1, 7), (5, 5), (-5, 5), (7, 1), (-7, 1), (4, 6), (-4, 6), (6, 4), (-6, 4), (2, 7), (-2, 7), (7, 2), (-7, 2), (3, 7), (-3, 7), (7, 3), (-7, 3), (5, 6), (-5, 6), (6, 5), (-6, 5), (8, 0), (4, 7), (-4, 7), (7, 4), (-7, 4), (8, 1), (8, 2), (6, 6), (-6, 6), (8, 3), (5, 7), (-5, 7), (7, 5), (-7, 5), (8, 4), (6, 7), (-6, 7), (7, 6), (-7, 6), (8, 5), (7, 7), (-7, 7), (8, 6), (8, 7)]


# ------------------------------------------------------------------------------------------------
# hybrid integers (independent re-implementation, used to pick values that fit the alphabets)
def token_of(cfg, v):
    se, msb, lsb = cfg
    if v < (1 << se):
        return v
    n = v.bit_length() - 1
    m = v - (1 << n)
    return (1 << se) + ((n - se) << (msb + lsb)) + ((m >> (n - msb)) << lsb) + (m & ((1 << lsb) - 1))


def max_bits_for(cfg, limit):
    """largest bit length b ≤ 32 such that every v < 2^b has token < limit"""
    b = 0
    while b < 32 and token_of(cfg, (1 << (b + 1)) - 1) < limit:
        b += 1
    return b


def rand_config(rng, la):
    k = rng.random()
    if k < 0.12:
        return (la, 0, 0)
    se = rng.randint(0, la - 1) if k < 0.9 else rng.choice([0, la - 1])
    msb = rng.randint(0, se)
    lsb = rng.randint(0, se - msb)
    if rng.random() < 0.3:
        msb, lsb = 0, 0
    return (se, msb, lsb)


def rand_value(rng, bits):
    if bits == 0:
        return 0
    k = rng.random()
    if k < 0.55:
        return rng.randrange(0, min(1 << bits, 24))
    if k < 0.8:
        return rng.randrange(0, 1 << rng.randint(1, bits))
    if k < 0.9:
        return (1 << bits) - 1 - rng.randrange(0, min(4, 1 << bits))
    b = rng.randint(1, bits)
    return min((1 << bits) - 1, (1 << b) - rng.choice([0, 1]))


# ------------------------------------------------------------------------------------------------
def complete_lengths(rng, n, maxlen=15, deep=False):
    """random complete prefix code lengths for n ≥ 2 leaves"""
    if deep and n <= maxlen + 1:
        ls = list(range(1, n)) + [n - 1]          # 1,2,…,n-1,n-1
        return ls
    cnt = [0] * (maxlen + 2)
    cnt[1] = 2
    total = 2
    mode = rng.random()
    while total < n:
        cand = [l for l in range(1, maxlen) if cnt[l] > 0]
        if mode < 0.4:
            l = cand[0]                                   # balanced
        elif mode < 0.7:
            l = rng.choice(cand)                          # by length class
        else:
            l = rng.choices(cand, weights=[cnt[l] for l in cand])[0]   # by leaf
        cnt[l] -= 1
        cnt[l + 1] += 2
        total += 1
    leaves = [l for l in range(1, maxlen + 1) for _ in range(cnt[l])]
    rng.shuffle(leaves)
    return leaves


def composition(rng, total, n):
    """n positive integers summing to total"""
    if n == 1:
        return [total]
    k = rng.random()
    if k < 0.3:
        cuts = sorted(rng.sample(range(1, total), n - 1))
        return [b - a for a, b in zip([0] + cuts, cuts + [total])]
    w = [rng.random() ** rng.choice([1, 3, 8]) + 1e-9 for _ in range(n)]
    s = sum(w)
    d = [max(1, int(x * (total - n) / s)) for x in w]
    diff = total - sum(d)
    i = max(range(n), key=lambda i: d[i])
    d[i] += diff
    if d[i] < 1:
        return composition(rng, total, n)
    return d


class Gen:
    def __init__(self, rng, special):
        self.rng = rng
        self.special = special

    # ---- plan pieces -------------------------------------------------------------------------
    def pform(self):
        r = self.rng
        k = r.random()
        if k < 0.35:
            return "pa"
        if k < 0.5:
            return "ps"
        return f"pc {r.randint(0, 1)} {r.choice([0, 0, 2, 3])}"

    def aform(self):
        r = self.rng
        k = r.random()
        if k < 0.3:
            return "aa"
        if k < 0.4:
            return "af"
        if k < 0.5:
            return r.choice(["a1", "a2"])
        return f"ag {r.choice(list(range(14)) + [13, 13, 13, 13])} {r.randint(0, 1)}"

    def raw_distance(self, mult, code):
        if mult == 0:
            return code
        if code < 120:
            off, d = self.special[code]
            return max(off + mult * d - 1, 0)
        return code - 120

    def dist_code_for(self, mult, distance):
        """a coded value giving `distance` (≥1) before the num_decoded clamp"""
        if mult == 0:
            return distance - 1
        cands = [k for k in range(120) if self.raw_distance(mult, k) + 1 == distance]
        if cands and self.rng.random() < 0.8:
            return self.rng.choice(cands)
        return distance - 1 + 120

    def inner_plan(self, ids, total_dist, depth):
        """plan for coding a cluster map (numDist = 1)"""
        r = self.rng
        kind_ans = r.random() < 0.5
        la = r.choice([5, 6, 7, 8]) if kind_ans else 15
        top = max(ids) if ids else 0
        lz = "N"
        cm = [0]
        inner = "S"
        nb = 0
        if total_dist > 2 and depth < 2 and r.random() < 0.25:
            # LZ77 header inside the cluster-map decoder (no copies are emitted)
            ms = r.choice([224, 512, 4096, r.randint(8, 300)])
            lz = f"L {ms} {r.choice([3, 4, 6, 20])} {' '.join(map(str, rand_config(r, 8)))}"
            cm = r.choice([[0, 0], [0, 1], [1, 0]])
            nb = r.randint(1, 3)
            if r.random() < 0.4:
                inner = f"C {r.randint(0, 1)} " + self.inner_plan(cm, 2, depth + 1)[0]
            limit_extra = ms
        else:
            limit_extra = 1 << 30
        nc = max(cm) + 1
        limit = min(1 << la, limit_extra)
        cfgs = []
        for _ in range(nc):
            for _try in range(50):
                c = rand_config(r, la)
                if all(token_of(c, v) < limit for v in range(top + 1)):
                    break
            else:
                c = (min(la, 8), 0, 0) if (1 << min(la, 8)) > top and limit > top else (la, 0, 0)
            cfgs.append(c)
        ok = all(token_of(cfgs[cm[0]], v) < limit for v in ids)
        codes = [f"U {self.pform()} {self.aform()}" for _ in range(nc)]
        coder = f"A {la}" if kind_ans else "H"
        plan = (f"P 1 {lz} {len(cm)} {' '.join(map(str, cm))} {nb} {inner} {coder} "
                f"{nc} {' '.join(' '.join(map(str, c)) for c in cfgs)} {nc} {' '.join(codes)}")
        return plan, ok

    def mtf_encode(self, cm):
        tbl = list(range(256))
        out = []
        for v in cm:
            i = tbl.index(v)
            out.append(i)
            tbl.pop(i)
            tbl.insert(0, v)
        return out

    def cluster_coding(self, cm, total_dist, force=None):
        """returns (nbits, inner string)"""
        r = self.rng
        nc = max(cm) + 1
        simple_ok = nc <= 8
        want_simple = simple_ok and (r.random() < 0.5 if force is None else force == "simple")
        if total_dist == 1:
            return 0, "S", "trivial"
        if want_simple:
            nb = r.randint(max(nc - 1, 0).bit_length(), 3)
            return nb, "S", "simple"
        mtf = r.randint(0, 1)
        ids = self.mtf_encode(cm) if mtf else cm
        for _ in range(20):
            ip, ok = self.inner_plan(ids, total_dist, 0)
            if ok:
                return 0, f"C {mtf} {ip}", "coded-mtf" if mtf else "coded"
        nb = 3
        return (nb, "S", "simple") if simple_ok else (0, None, None)

    # ---- one instance ------------------------------------------------------------------------
    def instance(self, quick=True):
        r = self.rng
        kind_ans = r.random() < 0.5
        la = r.choice([5, 6, 7, 8, 8]) if kind_ans else 15
        alpha = 1 << la
        nd = r.choice([1, 1, 2, 2, 3, 4, 5, 8, 12, r.randint(1, 40)])
        mult = 0 if r.random() < 0.5 else r.choice([1, 2, 3, 7, 8, 64, 513, r.randint(1, 5000)])
        use_lz = r.random() < 0.4
        rle_shape = use_lz and r.random() < 0.3
        if rle_shape and mult == 0:
            mult = r.choice([1, 5, 100])
        lz = None
        if use_lz:
            if kind_ans:
                ms = r.randint(8, max(8, alpha - 12)) if la < 8 or r.random() < 0.7 else 224
            else:
                ms = r.choice([224, 512, 4096, r.randint(8, 8 + 32767), r.randint(8, 600)])
            ml = r.choice([3, 4, r.randint(5, 8), r.randint(9, 264), r.randint(9, 40)])
            for _ in range(100):
                lc = rand_config(r, 8)
                # length tokens must fit between min_symbol and the alphabet
                room = alpha - ms
                if room >= 1 and max_bits_for(lc, room) >= 1:
                    break
            else:
                use_lz = False
            if use_lz:
                lz = (ms, ml, lc)
        total = nd + (1 if lz else 0)
        # clusters
        max_nc = min(total, 256)
        nc = r.choice([1, min(2, max_nc), r.randint(1, min(max_nc, 8)), r.randint(1, max_nc)])
        if rle_shape:
            nc = max(nc, 2) if total >= 2 else nc
        cm = list(range(nc)) + [r.randrange(nc) for _ in range(total - nc)]
        r.shuffle(cm)
        if rle_shape:
            # the distance context gets its own cluster
            own = cm[-1]
            others = [c for c in cm[:-1] if c == own]
            if others or nc == 1:
                # re-map: make last a fresh cluster id
                cm = [min(c, nc - 2) if nc >= 2 else 0 for c in cm[:-1]]
                used = sorted(set(cm))
                remap = {c: i for i, c in enumerate(used)}
                cm = [remap[c] for c in cm] + [len(used)]
                nc = len(used) + 1
        # normalise ids so there is no hole
        used = sorted(set(cm))
        remap = {c: i for i, c in enumerate(used)}
        if r.random() < 0.5:
            perm = list(range(len(used)))
            r.shuffle(perm)
            remap = {c: perm[i] for i, c in enumerate(used)}
        cm = [remap[c] for c in cm]
        nc = len(used)
        nb, inner, cc_kind = self.cluster_coding(cm, total)
        if inner is None:
            return None
        # configs and value ranges per cluster
        lit_limit = min(alpha, lz[0]) if lz else alpha
        cfgs, bits = [], []
        for c in range(nc):
            for _ in range(30):
                cfg = rand_config(r, la)
                b = max_bits_for(cfg, lit_limit)
                if b >= 1 or r.random() < 0.1:
                    break
            cfgs.append(cfg)
            bits.append(b)
        lzc = cm[-1]
        if rle_shape:
            cfgs[lzc] = (0, 0, 0)
            bits[lzc] = max_bits_for(cfgs[lzc], alpha)
        dist_bits = max_bits_for(cfgs[lzc], alpha) if lz else 0
        # cluster value pools (skewed distributions; special shapes)
        shapes = []
        pools = []
        for c in range(nc):
            shape = r.choice(["one", "two", "few", "few", "many", "wide", "wide"])
            b = bits[c]
            if shape == "one":
                pool = [rand_value(r, b)]
            elif shape == "two":
                pool = [rand_value(r, b), rand_value(r, b)]
            elif shape == "few":
                pool = [rand_value(r, b) for _ in range(r.randint(3, 6))]
            elif shape == "many":
                pool = [rand_value(r, b) for _ in range(r.randint(10, 60))]
            else:
                pool = None
            shapes.append(shape)
            pools.append(pool)
        n_items = r.choice([0, 1, 2, 5, 20, 50, r.randint(0, 400), r.randint(100, 400)])
        if not quick and r.random() < 0.05:
            n_items = r.randint(400, 2000)
        items, out, ctxs = [], [], []
        budget = 4000
        lits_ctx = [i for i in range(nd)]
        while len(items) < n_items and len(out) < budget:
            ctx = r.choice(lits_ctx)
            c = cm[ctx]
            if lz and out and r.random() < (0.5 if rle_shape else 0.25):
                ms, ml, lc = lz
                lb = max_bits_for(lc, alpha - ms)
                extra = rand_value(r, min(lb, 12))
                if r.random() < 0.1:
                    extra = min((1 << lb) - 1, r.randint(200, 3000))
                ln = ml + extra
                if len(out) + ln > budget + 3000:
                    ln = ml
                if rle_shape:
                    code = 1
                else:
                    k = r.random()
                    if k < 0.6:
                        d = r.randint(1, len(out))
                        if r.random() < 0.4:
                            d = min(len(out), r.choice([1, 1, 2, mult, mult + 1, max(1, mult - 1), 2 * mult + 1]) or 1)
                        code = self.dist_code_for(mult, max(1, d))
                    elif k < 0.8:
                        code = r.randrange(0, 120)            # special / tiny codes, clamped
                    else:
                        code = rand_value(r, dist_bits)       # possibly beyond num_decoded → clamp
                    if code >= (1 << dist_bits):
                        code = code % (1 << dist_bits) if dist_bits else 0
                dist = min(min((1 << 20) - 1, self.raw_distance(mult, code)) + 1, len(out))
                for _ in range(ln):
                    out.append(out[-dist])
                items.append(f"c {ctx} {ln} {code}")
                ctxs += [ctx] + [r.choice(lits_ctx) for _ in range(ln - 1)]
            else:
                pool = pools[c]
                v = r.choice(pool) if pool else rand_value(r, bits[c])
                items.append(f"l {ctx} {v}")
                out.append(v)
                ctxs.append(ctx)
        # codes
        codes = []
        for c in range(nc):
            codes.append(f"U {self.pform()} {self.aform()}")
        desc = {"coder": f"ans{la}" if kind_ans else "prefix", "lz77": bool(lz), "rle_shape": rle_shape,
                "cluster_coding": cc_kind, "mult": mult, "nd": nd, "nc": nc}
        lzs = "N" if not lz else f"L {lz[0]} {lz[1]} {' '.join(map(str, lz[2]))}"
        coder = f"A {la}" if kind_ans else "H"
        plan = (f"P {nd} {lzs} {len(cm)} {' '.join(map(str, cm))} {nb} {inner} {coder} "
                f"{nc} {' '.join(' '.join(map(str, c)) for c in cfgs)} {nc} {' '.join(codes)}")
        line = f"enc {mult} {plan} {len(items)} {' '.join(items)}"
        return {"line": line, "nd": nd, "mult": mult, "out": out, "ctxs": ctxs, "desc": desc,
                "items": items, "cm": cm, "cfgs": cfgs, "lz": lz, "nc": nc, "plan_head":
                (nd, lzs, cm, nb, inner, coder, cfgs), "kind_ans": kind_ans, "la": la}

    # ---- boundary family: every special-distance row with distinct history values ---------------
    def sweep(self, rows):
        """one small instance per (row, multiplier): distinct literals, then a copy through that row,
        so that a wrong offset in the row changes the output"""
        r = self.rng
        out_insts = []
        for k in rows:
            mult = r.choice([1, 2, 3, 5, 9, 20])
            off, d = self.special[k]
            need = max(off + mult * d, 1) + 3
            n = need + r.randint(0, 5)
            ans = r.random() < 0.3 and n < 200
            ms = 224 if ans else 512
            cfg = (8, 0, 0) if ans else (15, 0, 0)
            items = [f"l 0 {v}" for v in range(n)]
            out = list(range(n))
            ln = r.randint(3, 6)
            dist = min(min((1 << 20) - 1, self.raw_distance(mult, k)) + 1, len(out))
            for _ in range(ln):
                out.append(out[-dist])
            items.append(f"c 0 {ln} {k}")
            tail = r.randint(0, 3)
            for t in range(tail):
                items.append(f"l 0 {t}")
                out.append(t)
            ctxs = [0] * len(out)
            coder = "A 8" if ans else "H"
            lzs = f"L {ms} 3 0 0 0"
            plan = (f"P 1 {lzs} 2 0 1 1 S {coder} 2 {' '.join(map(str, cfg))} {' '.join(map(str, cfg))} "
                    f"2 U {self.pform()} {self.aform()} U pa aa")
            out_insts.append({
                "line": f"enc {mult} {plan} {len(items)} {' '.join(items)}", "nd": 1, "mult": mult, "out": out,
                "ctxs": ctxs, "items": items, "cm": [0, 1], "cfgs": [cfg, cfg], "lz": (ms, 3, (0, 0, 0)), "nc": 2,
                "kind_ans": ans, "la": 8 if ans else 15,
                "desc": {"coder": "ans8" if ans else "prefix", "lz77": True, "rle_shape": False,
                         "cluster_coding": "simple", "mult": mult, "nd": 1, "nc": 2, "sweep": True}})
        return out_insts

    # ---- explicit codes: replaces the `U` entries of an instance by explicit ones ----------------
    def explicit_codes(self, inst):
        """second pass once the tokens per cluster are known"""
        r = self.rng
        cm, cfgs, lz = inst["cm"], inst["cfgs"], inst["lz"]
        toks = [set() for _ in range(inst["nc"])]
        for it in inst["items"]:
            w = it.split()
            ctx = int(w[1])
            c = cm[ctx]
            if w[0] == "l":
                toks[c].add(token_of(cfgs[c], int(w[2])))
            else:
                toks[c].add(lz[0] + token_of(lz[2], int(w[2]) - lz[1]))
                toks[cm[-1]].add(token_of(cfgs[cm[-1]], int(w[3])))
        codes = []
        kinds = []
        for c in range(inst["nc"]):
            t = sorted(toks[c])
            if inst["kind_ans"]:
                T = 1 << inst["la"]
                extra = r.choice([0, 0, 1, 3, r.randint(0, 20)])
                syms = set(t)
                while len(syms) < min(T, len(t) + extra):
                    syms.add(r.randrange(0, T if r.random() < 0.5 else min(T, (max(t) if t else 0) + 8)))
                syms = sorted(syms) or [r.randrange(T)]
                d = [0] * (max(syms) + 1)
                if r.random() < 0.1 and len(syms) == len(d):
                    a = len(d)
                    d = [4096 // a + 1] * (4096 % a) + [4096 // a] * (a - 4096 % a)
                    form = "af"
                else:
                    for s, p in zip(syms, composition(r, 4096, len(syms))):
                        d[s] = p
                    form = r.choice(["aa", "ag 13 0", "ag 13 1", "a1", "a2", "af", "ag 5 1"])
                codes.append(f"D {form} {len(d)} {' '.join(map(str, d))}")
                kinds.append("dist:" + form.split()[0])
            else:
                big = r.random() < 0.08
                extra = r.choice([0, 0, 1, 2, 5, r.randint(0, 40)])
                if big:
                    extra = r.choice([300, 1000, 5000, 32768])
                top = max(t) if t else 0
                count = max(top + 1, r.choice([top + 1, top + 1 + r.randint(0, 20), 1 << (top.bit_length())]))
                if big:
                    count = r.choice([count, 1 << 15, r.randint(top + 1, 1 << 15)])
                count = min(count, 1 << 15)
                syms = set(t)
                tries = 0
                while len(syms) < min(count, len(t) + extra) and tries < 100000:
                    syms.add(r.randrange(0, count))
                    tries += 1
                syms = sorted(syms) or [r.randrange(count)]
                lens = [0] * count
                if len(syms) == 1:
                    lens[syms[0]] = 1
                else:
                    for s, l in zip(syms, complete_lengths(r, len(syms), 15, deep=r.random() < 0.15)):
                        lens[s] = l
                codes.append(f"Lh {count} {self.pform()} {count} {' '.join(map(str, lens))}")
                kinds.append("lengths" + ("-big" if count > 4096 else ""))
        nd, lzs, cm, nb, inner, coder, cfgs = inst["plan_head"]
        plan = (f"P {nd} {lzs} {len(cm)} {' '.join(map(str, cm))} {nb} {inner} {coder} "
                f"{len(cfgs)} {' '.join(' '.join(map(str, c)) for c in cfgs)} {len(codes)} {' '.join(codes)}")
        inst = dict(inst)
        inst["line"] = f"enc {inst['mult']} {plan} {len(inst['items'])} {' '.join(inst['items'])}"
        inst["desc"] = dict(inst["desc"], explicit=True)
        return inst


# ------------------------------------------------------------------------------------------------
VAL_RE = re.compile(r"^hdr=ok:(\d+) st=(\S*) vals=(\S*) fin=(\S+) end=(\d+)$")


def parse_dec(line):
    m = VAL_RE.match(line)
    if not m:
        return None
    vals = [tuple(map(int, x.split("@"))) for x in m.group(3).split(",") if x]
    return {"hdr": int(m.group(1)), "st": m.group(2).split(","), "vals": vals, "fin": m.group(4),
            "end": int(m.group(5))}


def panic_key(line):
    """`panic <file:line>_<message>` → key by site (crate-relative file:line)"""
    m = re.match(r"panic (\S+)", line)
    if not m:
        return None
    site = re.search(r"(jxl-[a-z-]+/src/[^:_]+(?:_[^:]*)?:\d+)", m.group(1))
    return "c04:panic:" + (site.group(1) if site else m.group(1)[:60])


def mutate(rng, hexs, hdr_bits):
    b = bytearray.fromhex(hexs) if hexs != "-" else bytearray()
    k = rng.random()
    if not b:
        return "-", "empty"
    if k < 0.45:
        for _ in range(rng.choice([1, 1, 2, 3])):
            lim = len(b) * 8 if rng.random() < 0.4 else min(len(b) * 8, max(8, hdr_bits))
            p = rng.randrange(lim)
            b[p // 8] ^= 1 << (p % 8)
        kind = "bitflip"
    elif k < 0.75:
        cut = rng.randrange(0, len(b))
        b = b[:cut]
        kind = "truncate"
    elif k < 0.85:
        b = bytearray(rng.randrange(256) for _ in range(rng.randint(1, 40)))
        kind = "garbage"
    elif k < 0.93:
        p = rng.randrange(len(b))
        b[p] = rng.randrange(256)
        kind = "byte"
    else:
        b = b + bytearray(rng.randrange(256) for _ in range(rng.randint(1, 8)))
        p = rng.randrange(min(len(b), max(1, hdr_bits // 8 + 1)))
        b[p] ^= 1 << rng.randrange(8)
        kind = "flip+extend"
    return (b.hex() if b else "-"), kind


def run_both(ctx, lines, ok_model):
    impl, rc, err = ctx.run_impl("c04", lines)
    if rc != 0 or len(impl) != len(lines):
        # the worker died (abort / stack overflow): find the line
        impl = []
        for l in lines:
            o, rc1, err1 = ctx.run_impl("c04", [l])
            impl.append(o[0] if rc1 == 0 and o else f"abort rc={rc1}")
    if ok_model:
        # every 8th dec / rle / perm line also runs the Impl table reader in the model (ops deci / rlei / permi)
        def mark(i, l):
            w = l.split(" ", 1)
            if i % 8 == 0 and w[0] in ("dec", "rle", "perm") and len(w) == 2:
                return w[0] + "i " + w[1]
            return l
        model, rc2, err2 = ctx.run_model("c04", [mark(i, l) for i, l in enumerate(lines)])
        if rc2 != 0 or len(model) != len(lines):
            ctx.failed_obligations.append(f"model driver c04 died rc={rc2} {err2[-300:]}")
            model = impl
        else:
            # the model driver also runs the Impl table reader (PrefixTable.lean) next to the Spec
            # reader at every token position; a disagreement is marked on the model's line
            bad = [(l, mo) for l, mo in zip(lines, model) if "impl-spec-mismatch" in mo]
            for l, mo in bad[:5]:
                ctx.violation("impl-spec-mismatch", mo[-300:],
                              {"line": l, "model": mo[:2000],
                               "how": "feed line to jxlmodel c04: the two-level table reader (Impl) and the canonical-interval reader (Spec) disagree"},
                              key="c04:impl-spec-mismatch")
            if bad:
                ctx.count("impl-spec-mismatch", len(bad))
                ctx.failed_obligations.append(
                    f"prefix table reader (Impl) differs from the Spec reader on {len(bad)} decoded stream(s), first: {bad[0][0][:200]}")
    else:
        model = impl
    return impl, model


# ------------------------------------------------------------------------------------------------
# `ptab`: with_code_lengths tables (Impl) against the canonical code (Spec) on all 2^15 look-aheads
def split_lengths(rng, n_leaves, maxlen=15, multi=False, deep_bias=0.0):
    """complete code by repeatedly splitting a leaf: length l → two of l+1 (l < maxlen); with
    `multi` a split may go d levels at once (l → 2^d leaves of l+d), which leaves unused lengths"""
    leaves = [1, 1]
    guard = 0
    while len(leaves) < n_leaves and guard < 10 * n_leaves + 100:
        guard += 1
        cand = [i for i, l in enumerate(leaves) if l < maxlen]
        if not cand:
            break
        if rng.random() < deep_bias:
            m = max(leaves[i] for i in cand)
            cand = [i for i in cand if leaves[i] == m]
        i = rng.choice(cand)
        l = leaves[i]
        d = 1
        if multi and rng.random() < 0.3:
            d = rng.randint(1, min(maxlen - l, 4))
        leaves[i:i + 1] = [l + d] * (1 << d)
    return leaves


def place_symbols(rng, leaves, zeros):
    """shuffle the symbols and insert `zeros` unused ones"""
    v = list(leaves) + [0] * zeros
    rng.shuffle(v)
    return v


def ptab_case(rng, kind):
    """(length vector, complete?)"""
    if kind == "short":                      # (a) every length ≤ 10: top-level table only
        n = rng.choice([2, 3, 4, 5, 8, 16, 17, rng.randint(2, 64), rng.randint(2, 200)])
        leaves = split_lengths(rng, n, maxlen=rng.randint(max(1, (n - 1).bit_length()), 10))
        return place_symbols(rng, leaves, rng.choice([0, 0, 1, rng.randint(0, 40)])), True
    if kind == "flat":                       # all leaves on one level (1 … 15)
        d = rng.randint(1, 8) if rng.random() < 0.85 else rng.randint(9, 11)    # 2^15·2^d steps in the model
        return place_symbols(rng, [d] * (1 << d), rng.choice([0, 3])), True
    if kind == "chain":                      # (b) 1,2,…,k-1,k,k, k up to 15: nested chunks with replication
        k = rng.randint(11, 15)
        leaves = list(range(1, k + 1)) + [k]
        if rng.random() < 0.5:
            return leaves, True
        return place_symbols(rng, leaves, rng.choice([0, 5, 40])), True
    if kind == "sparse":                     # (c) 1,2,3,… with long gaps between the used symbols
        k = rng.randint(11, 15)
        leaves = list(range(1, k + 1)) + [k]
        if rng.random() < 0.5:
            leaves.reverse()
        v = []
        for l in leaves:
            v += [0] * rng.choice([0, 1, 7, 30]) + [l]
        return v + [0] * rng.choice([0, 9]), True
    if kind == "tail":                       # ≤ 10 levels, then sub-trees below level 10 with gaps
        leaves = split_lengths(rng, rng.randint(11, 40), maxlen=10, deep_bias=0.7)
        out = []
        for l in leaves:
            if l == 10 and rng.random() < 0.7:
                sub = split_lengths(rng, rng.randint(2, 12), maxlen=5, multi=True)
                out += [10 + x for x in sub]
            elif l == 10 and rng.random() < 0.5:
                d = rng.randint(1, 5)
                out += [10 + d] * (1 << d)
            else:
                out.append(l)
        return place_symbols(rng, out, rng.choice([0, 2, 20])), True
    if kind == "random":                     # (d) random splits, shuffled, zeros inserted
        n = rng.choice([rng.randint(2, 40), rng.randint(20, 150), rng.randint(100, 300)])
        leaves = split_lengths(rng, n, multi=rng.random() < 0.5, deep_bias=rng.choice([0.0, 0.3, 0.8]))
        return place_symbols(rng, leaves, rng.choice([0, 1, rng.randint(0, 60)])), True
    # (e) incomplete (Kraft sum < 1), never over-subscribed
    base, _ = ptab_case(rng, rng.choice(["short", "chain", "tail", "random"]))
    used = [i for i, l in enumerate(base) if l > 0]
    how = rng.choice(["drop", "longer", "drop2", "empty", "zeros", "one"])
    if how == "empty":
        return [], False
    if how == "zeros":
        return [0] * rng.randint(1, 20), False
    if how == "one":                         # one used symbol with a non-zero length
        return place_symbols(rng, [rng.randint(1, 15)], rng.randint(0, 5)), False
    if how == "longer":
        c = [i for i in used if base[i] < 15]
        if c:
            base[rng.choice(c)] += rng.randint(1, 2)
            base = [min(l, 15) for l in base]
            return base, False
    for i in rng.sample(used, 1 if how != "drop2" else min(2, len(used))):
        base[i] = 0
    return base, False


def ptab_cases(ctx, ok):
    if not ok:
        return
    rng = ctx.rng
    scale = 1 if ctx.quick else 10
    plan = [("short", 8), ("flat", 3), ("chain", 6), ("sparse", 5), ("tail", 7), ("random", 7), ("incomplete", 6)]
    cases = [([1, 1], True, "short"), (list(range(1, 16)) + [15], True, "chain")]
    for kind, k in plan:
        for _ in range(k * scale - (1 if kind in ("short", "chain") else 0)):
            lens, complete = ptab_case(rng, kind)
            cases.append((lens, complete, kind))
    lines = ["ptab %d%s" % (len(lens), "".join(" %d" % l for l in lens)) for lens, _, _ in cases]
    out, rc, err = ctx.run_model("c04", lines)
    if rc != 0 or len(out) != len(lines):
        ctx.failed_obligations.append(f"model driver c04 (ptab) died rc={rc} {err[-300:]}")
        return
    for (lens, complete, kind), l, o in zip(cases, lines, out):
        ctx.case(l, True)
        ctx.count("ptab:" + kind)
        if any(x > 10 for x in lens):
            ctx.count("ptab:second-level")
        replay = {"line": l, "model": o[:400], "kraft_complete": complete,
                  "how": "feed line to jxlmodel c04 (Impl tables of with_code_lengths/read_symbol against the Spec code on all 2^15 look-aheads)"}
        if "impl-spec-mismatch" in o:
            ctx.violation("impl-spec-mismatch", o[:300], replay, key="c04:impl-spec-mismatch")
        elif complete and not o.startswith("ok agree=32768"):
            ctx.violation("impl-spec-mismatch", "complete code rejected by both constructions: " + o[:200], replay,
                          key="c04:ptab-complete-rejected")
        elif not complete and not o.startswith("both-err:"):
            ctx.violation("impl-spec-mismatch", "incomplete code accepted: " + o[:200], replay,
                          key="c04:ptab-incomplete-accepted")
        else:
            ctx.count("ptab-result:" + ("agree" if complete else "both-err"))
    ctx.sample({"ptab": lines[1], "model": out[1]}, limit=8)


def run(ctx):
    translate_c04.main()
    ok = ctx.lean_build(MODULES)
    if ok:
        ctx.audit(MODULES, ctx.update_lock)
        if not ctx.quick:
            ctx.leanchecker(MODULES)
    else:
        # a theorem no longer checks (already recorded). The executable model and encoder may still
        # build: keep searching for a concrete failing input with them.
        with Lock():
            rc, out, err, dt = sh(["lake", "build", "jxlmodel"], cwd=LEAN, timeout=3600)
        ok = rc == 0
    ctx.cargo_build(["c04"])
    rng = ctx.rng
    table_mismatch = translate_c04.special_distances(REPO) != SPECIAL_SPEC
    if table_mismatch:
        ctx.failed_obligations.append("SPECIAL_DISTANCES in jxl-coding/src/lib.rs differs from the frozen Spec table")
    g = Gen(rng, SPECIAL_SPEC)
    n_inst = 3000 if ctx.quick else 30000
    n_perm = 150 if ctx.quick else 1500
    n_clu = 150 if ctx.quick else 1500
    ctx.cov["rule"] = (
        "seeded plans (coder kind, log_alphabet_size, cluster map + its coding, IntegerConfig per cluster, "
        "header form per histogram, LZ77 parameters, distance multiplier) and item sequences, encoded by "
        "the Lean reference encoder and decoded by jxl_coding and by the Lean model; plus permutations, "
        "bare cluster maps, RLE-mode decoding, and a malformed stream (bit flips, truncation, garbage). "
        "A case is non-trivial if it decodes at least one symbol or ends in a specific error; distinct by content")

    # ---------------- corpus first ---------------------------------------------------------------
    corpus = os.path.join(VERIF, "corpus", "c04")
    corpus_lines = []
    if os.path.isdir(corpus):
        for f in sorted(os.listdir(corpus)):
            if f.endswith(".lines"):
                corpus_lines += [l.strip() for l in open(os.path.join(corpus, f)) if l.strip() and not l.startswith("#")]
    if corpus_lines:
        impl, model = run_both(ctx, corpus_lines, ok)
        for l, io, mo in zip(corpus_lines, impl, model):
            ctx.case(("corpus", l), True)
            ctx.count("corpus")
            pk = panic_key(io)
            if pk:
                ctx.violation("implementation-panics", io, {"line": l, "how": "feed line to harness/target/debug/c04"}, key=pk)
            elif io != mo:
                ctx.failed_obligations.append(f"corpus line disagrees: impl {io[:200]!r} model {mo[:200]!r} line {l[:200]!r}")

    # ---------------- valid streams --------------------------------------------------------------
    insts = g.sweep(list(range(120)) * (1 if ctx.quick else 4))
    n_inst += len(insts)
    while len(insts) < n_inst:
        inst = g.instance(ctx.quick)
        if inst is None:
            continue
        if rng.random() < 0.35:
            inst = g.explicit_codes(inst)
        insts.append(inst)
    enc_out, rc, err = ctx.run_model("c04enc", [i["line"] for i in insts]) if ok else ([], 1, "lean build failed")
    if rc != 0 or len(enc_out) != len(insts):
        ctx.failed_obligations.append(f"encoder driver died rc={rc} {err[-300:]}")
        return
    dec_lines, rle_lines, keep = [], [], []
    for inst, eo in zip(insts, enc_out):
        w = eo.split()
        if w[0] != "ok":
            ctx.count("plan-rejected-by-encoder")
            continue
        nbits, hexs, hbits = int(w[1]), w[2], int(w[3])
        exp = list(map(int, w[6:6 + int(w[5])]))
        inst.update(nbits=nbits, hex=hexs, hbits=hbits)
        if "forms" in w:
            for f in w[w.index("forms") + 1:]:
                ctx.count("form:" + f)
        if exp != inst["out"]:
            ctx.failed_obligations.append(
                f"Lean expandItems differs from the independent expansion: {inst['line'][:300]}")
        # a reader may stop in the middle of the last LZ77 copy (it asks for as many symbols as it
        # needs; the copy's tokens are all consumed when the copy starts): still a valid stream
        last = inst["items"][-1].split() if inst["items"] else []
        if last and last[0] == "c" and int(last[2]) >= 2 and rng.random() < 0.6:
            k = rng.randint(1, int(last[2]) - 1)
            inst["ctxs"] = inst["ctxs"][:-k]
            inst["out"] = inst["out"][:-k]
            inst["desc"]["stops_inside_copy"] = True
        keep.append(inst)
        dec_lines.append(f"dec {inst['nd']} {inst['mult']} {hexs} {len(inst['ctxs'])} {' '.join(map(str, inst['ctxs']))}")
    rejected = len(insts) - len(keep)
    if rejected > len(insts) // 3:
        ctx.failed_obligations.append(f"generator: {rejected}/{len(insts)} plans rejected by EntropyPlan.check")
    impl, model = run_both(ctx, dec_lines, ok)
    mal = []
    for inst, dl, io, mo in zip(keep, dec_lines, impl, model):
        d = inst["desc"]
        ctx.count("coder:" + d["coder"])
        ctx.count("lz77:" + ("on" if d["lz77"] else "off"))
        ctx.count("clusters:" + str(d["cluster_coding"]))
        ctx.count("mult:" + ("0" if d["mult"] == 0 else ">0"))
        if d.get("explicit"):
            ctx.count("codes:explicit")
        if d.get("sweep"):
            ctx.count("special-distance-sweep")
        if d.get("stops_inside_copy"):
            ctx.count("reader-stops-inside-last-copy")
        ctx.case(inst["line"], len(inst["out"]) > 0)
        if len(ctx.cov["samples"]) < 4:
            ctx.sample({"enc": inst["line"][:400], "dec": dl[:200], "impl": io[:200]})
        replay = {"enc_line": inst["line"], "dec_line": dl, "impl": io[:2000], "model": mo[:2000],
                  "how": "echo enc_line | lean/.lake/build/bin/jxlmodel c04enc ; echo dec_line | harness/target/debug/c04"}
        pk = panic_key(io)
        if pk or io.startswith("abort"):
            ctx.violation("implementation-panics-on-valid-stream", io, replay, key=pk or "c04:abort")
            continue
        p = parse_dec(io)
        why = None
        if p is None:
            why = "decoder reports an error on a valid stream: " + io[-120:]
        elif [v for v, _ in p["vals"]] != inst["out"]:
            why = "decoded sequence differs from the encoded one"
        elif p["hdr"] != inst["hbits"]:
            why = f"header consumed {p['hdr']} bits, encoder wrote {inst['hbits']}"
        elif p["end"] != inst["nbits"]:
            why = f"decoder consumed {p['end']} bits, encoder wrote {inst['nbits']}"
        elif p["fin"] != "ok":
            why = "final state check rejected a valid stream"
        elif any(b2 < b1 for (_, b1), (_, b2) in zip(p["vals"], p["vals"][1:])):
            why = "bit position not monotone"
        else:
            # single_token shortcut: every literal of such a cluster must be that token
            for c, t in enumerate(p["st"]):
                if t not in ("-", ""):
                    for it in inst["items"]:
                        ws = it.split()
                        if ws[0] == "l" and inst["cm"][int(ws[1])] == c and int(ws[2]) != int(t):
                            why = f"single_token({c}) = {t} but the cluster carries {ws[2]}"
        if why:
            # the model's special-distance table is regenerated from the source: if the source table left
            # the Spec, model and implementation are wrong together and the failing stream is a real one
            follows_source = table_mismatch and d["lz77"] and d["mult"] > 0
            if io == mo and not follows_source:
                # model agrees with the implementation against the encoder: the encoder (or the generator) is wrong
                ctx.failed_obligations.append(f"encoder/decoder-model round trip broken ({why}): {inst['line'][:300]}")
            else:
                ctx.violation("implementation-violates-roundtrip", why, replay, key="c04:roundtrip:" + why.split(":")[0][:40])
            continue
        if io != mo:
            ctx.failed_obligations.append(
                f"correspondence jxl_coding vs model differs on a valid stream: impl {io[:160]!r} model {mo[:160]!r} :: {dl[:200]}")
        if d["rle_shape"]:
            rle_lines.append((inst, f"rle {inst['nd']} {inst['hex']} "))
        mal.append(inst)

    # ---------------- boundary: copy lengths around 2^32 (the guard of C04_lz77_expand / F9) --------
    blines, binfo = [], []
    for _ in range(40 if ctx.quick else 400):
        ans = rng.random() < 0.5
        ms = rng.randint(8, 200)
        ml = rng.choice([3, 4, rng.randint(5, 8), rng.randint(9, 264)])
        mult = rng.choice([1, 3, 100])
        v = rng.randint(0, 7)
        ln = M32 + rng.choice([-1, 0, 0, 1, ml - 1, ml - 2, -rng.randint(1, 1000)])
        ln = max(ml, min(ln, M32 - 1 + ml))
        coder = "A 8" if ans else "H"
        plan = f"P 1 L {ms} {ml} 0 0 0 2 0 1 1 S {coder} 2 3 0 0 0 0 0 2 U pa aa U pa aa"
        blines.append(f"encnx {mult} {plan} 2 l 0 {v} c 0 {ln} 1")
        binfo.append((mult, v, ln))
    benc, rc, err = ctx.run_model("c04enc", blines) if ok else ([], 1, "")
    dl, di = [], []
    for (mult, v, ln), bl, eo in zip(binfo, blines, benc):
        w = eo.split()
        if w[0] != "ok":
            ctx.failed_obligations.append(f"boundary plan rejected by the encoder: {bl} -> {eo}")
            continue
        k = rng.randint(2, 6)
        dl.append(f"dec 1 {mult} {w[2]} {k} {' '.join('0' * k)}")
        di.append(("dec", v, ln, k, bl))
        dl.append(f"rle 1 {w[2]} 2 0 0")
        di.append(("rle", v, ln, 2, bl))
    if dl:
        impl, model = run_both(ctx, dl, ok)
        for (op, v, ln, k, bl), l, io, mo in zip(di, dl, impl, model):
            ctx.case(l, True)
            ctx.count("boundary:" + op + (":overflow" if ln >= M32 else ":fits"))
            replay = {"enc_line": bl, "line": l, "impl": io[:600], "model": mo[:600],
                      "how": "echo enc_line | jxlmodel c04enc ; echo line | harness/target/debug/c04"}
            pk = panic_key(io)
            if pk:
                ctx.violation("implementation-panics-at-length-guard", io[:300], replay, key=pk)
                continue
            if op == "dec":
                vals = re.search(r"vals=(\S*)", io)
                got = [int(x.split("@")[0]) for x in vals.group(1).split(",") if x] if vals else None
                want_ok = ln < M32
                good = (got == [v] * k and "err=" not in io) if want_ok else (got == [v] and "err=lz77-symbol@1" in io)
            else:
                good = (f"toks=V{v}@" in io) and ((f",R{ln}@" in io) if ln < M32 else ("err=lz77-symbol@1" in io))
            if not good:
                if io == mo:
                    ctx.failed_obligations.append(f"boundary case: model and implementation agree against the expectation: {l} -> {io[:200]}")
                else:
                    ctx.violation("implementation-violates-length-guard", io[:300], replay, key="c04:length-guard")
            elif io != mo:
                ctx.failed_obligations.append(f"boundary correspondence: impl {io[:160]!r} model {mo[:160]!r}")

    # ---------------- RLE mode -------------------------------------------------------------------
    rl = []
    for inst, pre in rle_lines:
        # one call per item: the context of a copy is the context of its first symbol
        cx = [int(it.split()[1]) for it in inst["items"]]
        rl.append(pre + f"{len(cx)} {' '.join(map(str, cx))}")
    if rl:
        impl, model = run_both(ctx, rl, ok)
        for (inst, _), l, io, mo in zip(rle_lines, rl, impl, model):
            ctx.case(l, True)
            replay = {"enc_line": inst["line"], "rle_line": l, "impl": io[:2000], "model": mo[:2000]}
            pk = panic_key(io)
            if pk:
                ctx.violation("implementation-panics-in-rle-mode", io, replay, key=pk)
                continue
            m = re.match(r"^hdr=ok:\d+ toks=(\S*) end=(\d+)$", io)
            if not m:
                ctx.count("rle:not-offered-or-error")
                if io != mo:
                    ctx.failed_obligations.append(f"RLE mode: impl {io[:160]!r} model {mo[:160]!r}")
                continue
            ctx.count("rle:decoded")
            toks = [x.split("@")[0] for x in m.group(1).split(",") if x]
            want = []
            for it in inst["items"]:
                ws = it.split()
                want.append(("V" + ws[2]) if ws[0] == "l" else ("R" + ws[2]))
            if toks != want or int(m.group(2)) != inst["nbits"]:
                if io == mo:
                    ctx.failed_obligations.append(f"RLE round trip broken in model and implementation alike: {inst['line'][:300]}")
                else:
                    ctx.violation("rle-mode-differs-from-lz77", "RLE tokens do not match the encoded parse", replay,
                                  key="c04:rle-mismatch")
            elif io != mo:
                ctx.failed_obligations.append(f"RLE mode correspondence: impl {io[:160]!r} model {mo[:160]!r}")

    # ---------------- permutations ----------------------------------------------------------------
    plines, pinfo = [], []
    for _ in range(n_perm):
        size = rng.choice([1, 2, 3, 8, 17, rng.randint(1, 64), rng.randint(1, 300)])
        skip = rng.choice([0, 0, 1, rng.randint(0, size)])
        tail = list(range(skip, size))
        k = rng.random()
        if k < 0.15:
            pass                                  # identity
        elif k < 0.5:
            for _ in range(rng.randint(1, 4)):    # few transpositions → many trailing zeros
                if len(tail) >= 2:
                    a, b = rng.randrange(len(tail)), rng.randrange(len(tail))
                    tail[a], tail[b] = tail[b], tail[a]
        else:
            rng.shuffle(tail)
        perm = list(range(skip)) + tail
        kind_ans = rng.random() < 0.5
        coder = "A 8" if kind_ans else "H"
        nc = rng.randint(1, 8)
        cm = list(range(nc)) + [rng.randrange(nc) for _ in range(8 - nc)]
        rng.shuffle(cm)
        used = sorted(set(cm)); remap = {c: i for i, c in enumerate(used)}; cm = [remap[c] for c in cm]; nc = len(used)
        cfg = rng.choice([(4, 1, 1), (4, 2, 0), (0, 0, 0), (8, 0, 0) if kind_ans else (15, 0, 0), (3, 1, 0)])
        plan = (f"P 8 N 8 {' '.join(map(str, cm))} 3 S {coder} {nc} {' '.join(' '.join(map(str, cfg)) for _ in range(nc))} "
                f"{nc} {' '.join('U ' + g.pform() + ' ' + g.aform() for _ in range(nc))}")
        plines.append(f"encperm {plan} {size} {skip} {' '.join(map(str, perm))}")
        pinfo.append((size, skip, perm))
    penc, rc, err = ctx.run_model("c04enc", plines)
    if rc != 0 or len(penc) != len(plines):
        ctx.failed_obligations.append(f"encoder driver (perm) died rc={rc}")
        penc = []
    dl, di = [], []
    for (size, skip, perm), pl, eo in zip(pinfo, plines, penc):
        w = eo.split()
        if w[0] != "ok":
            ctx.count("perm-rejected-by-encoder")
            continue
        dl.append(f"perm 8 {size} {skip} {w[2]}")
        di.append((perm, int(w[1]), pl))
    if dl:
        impl, model = run_both(ctx, dl, ok)
        for (perm, nbits, pl), l, io, mo in zip(di, dl, impl, model):
            ctx.case(l, len(perm) > 1)
            ctx.count("perm")
            replay = {"enc_line": pl, "dec_line": l, "impl": io[:1000], "model": mo[:1000]}
            pk = panic_key(io)
            if pk:
                ctx.violation("implementation-panics", io, replay, key=pk)
                continue
            m = re.match(r"^hdr=ok:\d+ perm=ok:(\S*) fin=ok end=(\d+)$", io)
            good = m and [int(x) for x in m.group(1).split(",") if x] == perm and int(m.group(2)) == nbits
            if not good:
                if io == mo:
                    ctx.failed_obligations.append(f"permutation encoder/model round trip broken: {pl[:200]} -> {io[:200]}")
                else:
                    ctx.violation("implementation-violates-roundtrip", "permutation decodes differently", replay,
                                  key="c04:perm-roundtrip")
            elif io != mo:
                ctx.failed_obligations.append(f"perm correspondence: impl {io[:160]!r} model {mo[:160]!r}")
            if m:
                mal.append({"perm_line": l, "hex": l.split()[-1], "hbits": 64})

    # ---------------- bare cluster maps -------------------------------------------------------------
    clines, cinfo = [], []
    for _ in range(n_clu):
        total = rng.choice([2, 2, 3, 5, 8, 20, rng.randint(2, 120), rng.randint(2, 300)])
        max_nc = min(total, 256)
        nc = rng.choice([1, 2, rng.randint(1, min(8, max_nc)), rng.randint(1, max_nc)])
        nc = min(nc, max_nc)
        cm = list(range(nc)) + [rng.randrange(nc) for _ in range(total - nc)]
        rng.shuffle(cm)
        if rng.random() < 0.5:
            # first-occurrence order (what MTF likes)
            seen = {}
            cm = [seen.setdefault(c, len(seen)) for c in cm]
        nb, inner, kind = g.cluster_coding(cm, total)
        if inner is None:
            continue
        plan = f"P {total} N {total} {' '.join(map(str, cm))} {nb} {inner} H {nc} {' '.join('0 0 0' for _ in range(nc))} {nc} {' '.join('U pa aa' for _ in range(nc))}"
        clines.append("encclusters " + plan)
        cinfo.append((total, cm, kind))
    cenc, rc, err = ctx.run_model("c04enc", clines)
    if rc != 0 or len(cenc) != len(clines):
        ctx.failed_obligations.append(f"encoder driver (clusters) died rc={rc}")
        cenc = []
    dl, di = [], []
    for (total, cm, kind), cl, eo in zip(cinfo, clines, cenc):
        w = eo.split()
        if w[0] != "ok":
            continue
        dl.append(f"clusters {total} {w[2]}")
        di.append((cm, int(w[1]), cl, kind))
    if dl:
        impl, model = run_both(ctx, dl, ok)
        for (cm, nbits, cl, kind), l, io, mo in zip(di, dl, impl, model):
            ctx.case(l, True)
            ctx.count("clusters-op:" + kind)
            replay = {"enc_line": cl, "dec_line": l, "impl": io[:1000], "model": mo[:1000]}
            pk = panic_key(io)
            if pk:
                ctx.violation("implementation-panics", io, replay, key=pk)
                continue
            want = f"ok:{max(cm) + 1}:{','.join(map(str, cm))} end={nbits}"
            if io != want:
                if io == mo:
                    ctx.failed_obligations.append(f"cluster-map encoder/model round trip broken: {cl[:200]} -> {io[:200]}")
                else:
                    ctx.violation("implementation-violates-roundtrip", "cluster map decodes differently", replay,
                                  key="c04:clusters-roundtrip")
            elif io != mo:
                ctx.failed_obligations.append(f"clusters correspondence: impl {io[:160]!r} model {mo[:160]!r}")
            # malformed variants of cluster maps (hole check, invalid ids)
            for _ in range(2):
                hx, kind2 = mutate(rng, l.split()[-1], nbits)
                mal.append({"clusters_line": f"clusters {l.split()[1]} {hx}"})

    # ---------------- malformed streams -------------------------------------------------------------
    mlines = []
    n_mal = len(keep) if ctx.quick else len(keep)
    pool = [m for m in mal]
    for k in range(n_mal):
        src = rng.choice(pool) if pool else None
        if src is None:
            break
        if "clusters_line" in src:
            mlines.append(src["clusters_line"])
            ctx.count("malformed:clusters")
        elif "perm_line" in src:
            w = src["perm_line"].split()
            hx, kind = mutate(rng, w[-1], src["hbits"])
            mlines.append(" ".join(w[:-1] + [hx]))
            ctx.count("malformed:" + kind)
        else:
            hx, kind = mutate(rng, src["hex"], src["hbits"])
            cx = src["ctxs"]
            if rng.random() < 0.3:
                cx = cx + [rng.randrange(src["nd"]) for _ in range(rng.randint(1, 10))]   # read past the end
            op = "dec"
            if src["desc"]["rle_shape"] and rng.random() < 0.5:
                mlines.append(f"rle {src['nd']} {hx} {len(cx)} {' '.join(map(str, cx))}")
            else:
                mlines.append(f"dec {src['nd']} {src['mult']} {hx} {len(cx)} {' '.join(map(str, cx))}")
            ctx.count("malformed:" + kind)
    if mlines:
        impl, model = run_both(ctx, mlines, ok)
        for l, io, mo in zip(mlines, impl, model):
            m = re.search(r"err[=:]([a-z0-9-]+)", io)
            kind = m.group(1) if m else ("ok" if "fin=ok" in io or io.startswith("ok:") or "perm=ok" in io else "other")
            ctx.count("malformed-result:" + kind)
            ctx.case(l, bool(m) or kind == "ok")
            replay = {"line": l, "impl": io[:2000], "model": mo[:2000], "how": "feed line to harness/target/debug/c04 and to jxlmodel c04"}
            pk = panic_key(io)
            if pk or io.startswith("abort"):
                ctx.violation("implementation-panics-on-malformed-stream", io[:300], replay, key=pk or "c04:abort")
            elif io != mo:
                ctx.failed_obligations.append(
                    f"correspondence on malformed stream: impl {io[-160:]!r} model {mo[-160:]!r} :: {l[:120]}")
    window_cases(ctx, ok)
    ptab_cases(ctx, ok)
    ctx.assumptions += [
        "the bit reader is modelled abstractly (bit list, zero padded peeks, silent failure of the unchecked consume in read_uint_prefilled); the 64-bit buffer refill is exercised only through the correspondence run",
        "dist_multiplier < 2^27 (offset + multiplier*dist is computed in i32 by the code)",
        "fewer than 2^32 symbols per stream (num_decoded/copy_pos are u32 in the code)",
        "prefix codes are modelled at the Spec level (canonical code from the length vector); the two-level bit-reversed tables are tied to it by execution only",
    ]


def window_cases(ctx, ok):
    """the 2^20-value LZ77 window: a tiny stream that expands past 2^20 values (one long overlapping
    copy), then copies from exactly the window size, one less, and beyond it (clamped). Expected
    values come from the Lean encoder's `expandItems`; only the real decoder is run on them (the
    list-based model decoder is not meant for a million symbols)."""
    if not ok:
        return
    W = 1 << 20
    rng = ctx.rng
    for coder in (["H", "A 8"] if not ctx.quick else ["H"]):
        a, b, c = rng.sample(range(1, 200), 3)
        period = rng.choice([3, 5, 7])
        lits = [a, b, c, a + 1, b + 1, c + 1, a + 2][:period]
        items = [f"l 0 {v}" for v in lits]
        items.append(f"c 0 {W + rng.randint(0, 50)} {period - 1}")          # distance = period
        for dist in (W, W - 1, W + 5, W - 2, 1 << 21):
            items.append(f"c 0 {rng.randint(3, 9)} {dist - 1}")              # mult 0: code = distance - 1
        # length tokens must fit between min_symbol 224 and the alphabet: 2^8 for ANS, so a coarser length config there
        lenconf = "4 1 1" if coder == "H" else "0 0 0"
        plan = f"P 1 L 224 3 {lenconf} 2 0 1 1 S {coder} 2 4 1 1 4 1 1 2 U pa aa U pa aa"
        line = f"enc 0 {plan} {len(items)} {' '.join(items)}"
        enc, rc, err = ctx.run_model("c04enc", [line], timeout=600)
        if rc != 0 or not enc or not enc[0].startswith("ok"):
            ctx.failed_obligations.append("LZ77 window case: the reference encoder refused the plan: " + (enc[0][:120] if enc else err[-120:]))
            continue
        w = enc[0].split()
        nbits, hexs = int(w[1]), w[2]
        k = w.index("exp")
        n = int(w[k + 1])
        exp = list(map(int, w[k + 2:k + 2 + n]))
        dec_line = f"dec 1 0 {hexs} {n} " + " ".join(["0"] * n)
        out = run_lines_robust([ctx.harness_bin("c04")], [dec_line], per_line_timeout=300)[0] or "crash"
        ctx.case(("window", line), nontrivial=True)
        ctx.count("window-cases")
        replay = {"enc_line": line[:2000], "stream_hex": hexs, "n": n,
                  "how": "enc_line | jxlmodel c04enc ; 'dec 1 0 <hex> <n> 0*n' | harness/target/debug/c04"}
        d = parse_dec(out)
        if d is None:
            key = panic_key(out) or "c04:window:" + out.split()[0][:40]
            ctx.violation("lz77-window-decode-failed", out[:300], replay, key=key)
            continue
        got = [v for v, _ in d["vals"]]
        if got != exp:
            i = next((j for j, (x, y) in enumerate(zip(got, exp)) if x != y), min(len(got), len(exp)))
            ctx.violation("lz77-window-copy-wrong", f"first difference at symbol {i}: got {got[i:i+4]} expected {exp[i:i+4]}",
                          replay, key="c04:lz77-window")
        elif d["end"] != nbits:
            ctx.violation("lz77-window-bit-count", f"consumed {d['end']} of {nbits}", replay, key="c04:lz77-window-bits")
