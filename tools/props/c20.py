"""C20 — concurrent renders of shared frames run once at a time, agree, and never deadlock.
Theorems: Props/C20.lean (interleaving semantics of the render-handle protocol, any number of
threads and frames, invariants by induction over transition sequences).
Correspondence (testing, not proof — real interleavings are sampled, not enumerated):
 * sequential refinement: every atomic step function against the real methods in single-threaded
   histories with injected failures (handle states via H3, scheduling-point trace via H4);
 * controlled schedules: 2-3 real threads driven through the H4 scheduling points by a controlling
   scheduler (one thread runs from one lock acquisition to the next), schedules with up to two
   pre-emptions plus random ones, with and without an injected failure; each executed schedule is
   replayed on the model (trace acceptance, final states, results, ghost clobber flag);
 * uncontrolled stress (N threads x rounds, rayon pools) and a biased stress with sleeps at chosen
   scheduling points: executions per frame at a time <= 1, all callers get bit-identical frames,
   everything returns before the deadline."""
from vlib import *
from props.c08lib import *

MODULES = ["JxlModel.Props.C20"]


def sched_case(ctx, im, pool, kfs, threads, ff, schedule, label):
    ops = [f"open {im.path} {pool}", f"sched {threads} {','.join(map(str, kfs))} {ff} {','.join(map(str, schedule)) or '-'}"]
    return ops


def check_sched(ctx, im, kfs, threads, ff, schedule, outs, status, model_out, label):
    replay = {"image": im.path, "threads": threads, "keyframes_per_thread": kfs, "fail_from": ff,
              "schedule": schedule, "ops": [f"open {im.path} none",
                                            f"sched {threads} {','.join(map(str, kfs))} {ff} {','.join(map(str, schedule)) or '-'}"],
              "impl": [o[:400] for o in outs], "model": (model_out or "")[:300],
              "how": "feed ops to harness/target/debug/c08; a schedule names the thread granted at each step "
                     "(a step = from one lock acquisition in state.rs/image.rs to the next)"}
    o = outs[-1] if outs else ""
    key_case = (im.name, tuple(kfs), threads, ff, tuple(schedule))
    if status != "ok" or o.startswith("HANG"):
        ctx.violation("deadlock-or-hang-under-schedule",
                      f"{im.name}: threads {threads} keyframes {kfs} fail-from {ff}: {o[:300]}", replay,
                      key="hang:schedule" + ("" if ff == "off" else ":with-failure"))
        ctx.count("sched:hang")
        ctx.case(key_case, True)
        return
    d = dict(x.split("=", 1) for x in o.split()[1:] if "=" in x)
    res = d.get("res", "").split(",")
    nontrivial = False
    for t, r in enumerate(res):
        kf = kfs[t % len(kfs)]
        ctx.count("sched:" + r.split(":")[0] + (":" + r.split(":")[1] if r.startswith("err") else ""))
        if r.startswith("ok:"):
            if r[3:] != im.clean[kf]:
                ctx.violation("callers-disagree-with-clean-render",
                              f"{im.name}: thread {t} got {r[3:]} for keyframe {kf}, clean render gives {im.clean[kf]}",
                              replay, key="wrong-samples")
        elif r.startswith("err:"):
            if ff == "off":
                ctx.violation("caller-fails-although-nothing-failed",
                              f"{im.name}: thread {t} rendering keyframe {kf} returned {r} under schedule {label}; "
                              f"no failure was injected; final handle states {d.get('st')}",
                              replay, key="spurious-error:" + r[4:])
        else:
            ctx.violation("panic-under-schedule", f"{im.name}: thread {t}: {r[:200]}", replay, key="panic:" + r[:40])
    st = d.get("st", "")
    if "Rendering" in st or "Locked" in st:
        ctx.violation("handle-left-rendering", f"{im.name}: after all callers returned the states are {st}", replay,
                      key="stuck-rendering:schedule")
    for fi, c in enumerate(d.get("ex", "-").split(",")):
        if c != "-" and int(c.split("/")[3]) > 1:
            ctx.violation("two-executions-at-once", f"{im.name}: frame {fi}: {c}", replay, key="double-execution")
    log = d.get("log", "")
    tids = [e.split(":")[0] for e in log.split(",") if ":" in e]
    switches = sum(1 for a, b in zip(tids, tids[1:]) if a != b)
    nontrivial = switches >= 2
    ctx.case(key_case, nontrivial)
    ctx.count("sched:switches>=2" if nontrivial else "sched:switches<2")
    # model
    if model_out is None:
        return
    if model_out.startswith("MISMATCH") or not model_out.startswith("ok"):
        ctx.failed_obligations.append(
            f"correspondence sysStep vs real threads: the model does not accept the executed schedule "
            f"({im.name} kfs {kfs} ff {ff} schedule {label}): {model_out[:200]}")
        return
    m = dict(x.split("=", 1) for x in model_out.split()[1:] if "=" in x)
    want = ",".join(r.split(":")[0] if r.startswith("ok") else (r if not r.startswith("err:other") else "err:other") for r in res)
    have = m.get("res", "")
    if ff != "off":
        # with an injected failure the error *kind* a caller sees depends on which layer reported it first
        # (allocation failure, jxl-frame's sticky HadError, FailedReference); only ok/err is compared
        want = ",".join(x.split(":")[0] for x in want.split(","))
        have = ",".join(x.split(":")[0] for x in have.split(","))
    if have != want or m.get("st") != st:
        ctx.failed_obligations.append(
            f"correspondence sysStep vs real threads differs ({im.name} kfs {kfs} ff {ff} schedule {label}): "
            f"impl res={want} st={st} model res={m.get('res')} st={m.get('st')}")
    if m.get("clean") != "1":
        ctx.failed_obligations.append(f"model: a caller obtained an image that is not the clean one ({im.name} {label})")
    if m.get("clob") == "1":
        ctx.violation("reset-overwrites-rendering-handle",
                      f"{im.name}: in the executed schedule a FrameRenderHandle::reset hit a handle that was Rendering",
                      replay, key="double-execution:reset-clobber")


def run_sched_batch(ctx, im, batch, use_model, deadline):
    """batch: list of (kfs, threads, ff, schedule, label)"""
    scs = [sched_case(ctx, im, "none", kfs, th, ff, sch, lab) for (kfs, th, ff, sch, lab) in batch]
    res = run_scenarios(ctx, scs, deadline, max_hangs=6)
    m_in, m_idx = [], []
    if use_model:
        cfgl = model_config(im.keyframes, im.frames, True, "fixed")
        for bi, ((kfs, th, ff, sch, lab), (outs, status)) in enumerate(zip(batch, res)):
            if status != "ok" or len(outs) < 2 or not outs[1].startswith("ok"):
                continue
            d = dict(x.split("=", 1) for x in outs[1].split()[1:] if "=" in x)
            exp = ",".join("-" if r.startswith("ok") else ("oom" if ff != "off" else r.split(":", 1)[1])
                           for r in d.get("res", "").split(","))
            progs = ",".join(f"k{kfs[t % len(kfs)]}" for t in range(th))
            m_in += [cfgl, f"sched {progs} {exp} {d.get('log', '-')}"]
            m_idx.append(bi)
        m_out, rc, err = ctx.run_model("c20", m_in)
        if rc != 0 or len(m_out) != len(m_in):
            ctx.failed_obligations.append(f"model driver c20 died rc={rc} {err[-200:]}")
            m_out = None
    else:
        m_out = None
    per = {}
    if m_out is not None:
        for j, bi in enumerate(m_idx):
            per[bi] = m_out[2 * j + 1]
    for bi, ((kfs, th, ff, sch, lab), (outs, status)) in enumerate(zip(batch, res)):
        if status == "skipped":
            continue
        check_sched(ctx, im, kfs, th, ff, sch, outs, status, per.get(bi), lab)


def schedules_for(ctx, im, nsteps_guess):
    """(kfs, threads, ff, schedule, label) for one image"""
    nk = len(im.keyframes)
    pairs = [(a, b) for a in range(nk) for b in range(nk)]
    out = []
    if ctx.quick:
        grid = sorted(set([0, 1, 2, 3, 5, 8, 10, 13, 17, 21, 26, 32]))
        for (ka, kb) in pairs:
            for a in grid[::2] if nk > 2 else grid:
                for b in (grid[1::3] if nk > 2 else grid[::2]):
                    out.append(([ka, kb], 2, "off", [0] * a + [1] * b, f"0x{a},1x{b}"))
        for _ in range(20):
            ka, kb = ctx.rng.choice(pairs)
            sch = [ctx.rng.randrange(2) for _ in range(ctx.rng.randint(5, 60))]
            out.append(([ka, kb], 2, "off", sch, "random"))
        for _ in range(20):
            ka, kb = ctx.rng.choice(pairs)
            sch = [ctx.rng.randrange(2) for _ in range(ctx.rng.randint(5, 60))]
            out.append(([ka, kb], 2, str(ctx.rng.randint(0, 40)), sch, "random+failure"))
    else:
        for (ka, kb) in pairs:
            for a in range(0, nsteps_guess + 1):
                for b in range(0, nsteps_guess + 1, 1 if nk <= 2 else 2):
                    out.append(([ka, kb], 2, "off", [0] * a + [1] * b, f"0x{a},1x{b}"))
        for _ in range(600):
            th = ctx.rng.choice([2, 3])
            kfs = [ctx.rng.randrange(nk) for _ in range(th)]
            sch = [ctx.rng.randrange(th) for _ in range(ctx.rng.randint(5, 90))]
            ff = "off" if ctx.rng.random() < 0.5 else str(ctx.rng.randint(0, 60))
            out.append((kfs, th, ff, sch, "random" + ("" if ff == "off" else "+failure")))
        for (ka, kb) in pairs:
            for a in range(0, nsteps_guess + 1, 2):
                for ff in (1, 5, 9, 14, 20, 27):
                    out.append(([ka, kb], 2, str(ff), [0] * a + [1] * 40, f"0x{a},1x40+failure@{ff}"))
    return out


def stress(ctx, im):
    nk = len(im.keyframes)
    kfs = ",".join(map(str, range(nk)))
    rounds = 6 if ctx.quick else 120
    threads = 4 if ctx.quick else 8
    if im.name == "cmyk_layers":
        rounds = 3 if ctx.quick else 12
    scs = []
    for pool in ("none", "rayon2", "rayon4"):
        for ff in ["off"] + ([str(ctx.rng.randint(1, max(2, im.n - im.a0)))] if True else []):
            scs.append([f"open {im.path} {pool}", f"stress {threads} {rounds} {kfs} {ff}"])
    res = run_scenarios(ctx, scs, max(20000, 60 * im.clean_ms), max_hangs=3)
    for sc, (outs, status) in zip(scs, res):
        o = outs[-1] if outs else ""
        replay = {"image": im.path, "ops": sc, "impl": [x[:300] for x in outs],
                  "how": "feed ops to harness/target/debug/c08 (uncontrolled threads; repeat to re-sample the schedule)"}
        ff = sc[1].split()[-1]
        ctx.case((im.name, "stress", sc[0].split()[-1], ff, ctx.seed), True)
        if status != "ok" or o.startswith(("HANG", "STUCK")):
            ctx.violation("stress-hang", f"{im.name}: {sc[1]}: {o[:300]}", replay,
                          key="hang:stress" + ("" if ff == "off" else ":with-failure"))
            ctx.count("stress:hang")
            continue
        if o.startswith("PANIC"):
            ctx.violation("panic-under-stress", o[:300], replay, key="panic:stress")
            continue
        d = dict(x.split("=", 1) for x in o.split()[1:] if "=" in x)
        ctx.count(f"stress:{sc[0].split()[-1]}:ok", int(d.get("n_ok", 0)))
        ctx.count(f"stress:{sc[0].split()[-1]}:err", int(d.get("n_err", 0)))
        if d.get("agree") != "1":
            ctx.violation("callers-disagree", f"{im.name}: {o[:300]}", replay, key="callers-disagree")
        if int(d.get("max_running", 0)) > 1:
            ctx.violation("two-executions-at-once", f"{im.name}: {o[:300]}", replay, key="double-execution")
        for kv in d.get("values", "-").split(","):
            if ":" in kv:
                k, h = kv.split(":")
                if h != im.clean[int(k)]:
                    ctx.violation("callers-disagree-with-clean-render", f"{im.name}: keyframe {k}: {h} vs {im.clean[int(k)]}",
                                  replay, key="wrong-samples")
        if ff == "off" and int(d.get("n_err", 0)) > 0:
            ctx.violation("caller-fails-although-nothing-failed", f"{im.name}: {o[:300]}", replay, key="spurious-error:stress")


def biased_stress(ctx, ims):
    """sleeps at chosen scheduling points make the window of `reset` vs background `run` wide"""
    im = next((i for i in ims if i.name == "anim_overwrite_other"), None)
    if im is None:
        return
    scs = []
    for (d1, d2) in [(150, 60), (120, 40)] if ctx.quick else [(150, 60), (120, 40), (200, 90), (100, 30), (80, 20)]:
        scs.append([f"open {im.path} rayon4", f"delays oe:0:1:{d1},ss:0:2:{d2}", "render 0", "settle", "render 1", "delays -"])
    res = run_scenarios(ctx, scs, 8000, max_hangs=2)
    for sc, (outs, status) in zip(scs, res):
        replay = {"image": im.path, "ops": sc, "impl": [x[:300] for x in outs],
                  "how": "feed ops to harness/target/debug/c08: `delays code:frame:nth:ms` makes the n-th arrival at that "
                         "H4 point sleep; frame 0's decode sleeps while the caller's composite of frame 2 resets frame 0, "
                         "then a second background run of frame 0 starts"}
        ctx.case((im.name, "biased", sc[1]), True)
        if status != "ok":
            ctx.violation("hang-under-biased-stress", str(outs[-1:])[:300], replay, key="hang:biased")
            continue
        t = parse_tail(outs[3])
        for fi, c in enumerate(t.get("ex", "-").split(",")):
            if c != "-" and int(c.split("/")[3]) > 1:
                ctx.count("biased:double-execution")
                ctx.violation("two-executions-at-once",
                              f"{im.name}: frame {fi} was decoded by {c.split('/')[3]} threads at once (started {c.split('/')[0]} "
                              f"times) during one render_frame call: FrameRenderHandle::reset overwrote a Rendering handle",
                              replay, key="double-execution:reset-clobber")
        for j in (2, 4):
            tt = parse_tail(outs[j])
            if tt["res"] == "ok" and tt["val"] != im.clean[int(sc[j].split()[1])]:
                ctx.violation("wrong-samples-under-biased-stress", outs[j][:200], replay, key="wrong-samples")


def run(ctx):
    ok = ctx.lean_build(MODULES)
    if ok:
        ctx.audit(MODULES, ctx.update_lock)
        if not ctx.quick:
            ctx.leanchecker(MODULES)
    ctx.cargo_build(["c08"])
    if getattr(ctx, "replay", None):
        return replay_file(ctx, ctx.replay)
    ctx.cov["rule"] = (
        "cases: (a) sequential refinement = (image, fault point k, keyframe order) single-threaded histories compared "
        "with the model step by step; (b) controlled schedules = (image, keyframe per thread, fail-from, schedule) "
        "executed through H4 and replayed on the model, non-trivial if the executed log has >= 2 context switches; "
        "(c) uncontrolled stress = (image, pool, fail-from) N threads x rounds; (d) biased stress with sleeps at "
        "scheduling points. quick: schedules [0]^a[1]^b on a grid + 40 random per image; thorough: all a,b up to the "
        "length of a render, 3 threads, failures at several points, 8 threads x 120 rounds")
    images = fixture_images(ctx)
    small = [im for im in images if im.name != "cmyk_layers"]
    big = [im for im in images if im.name == "cmyk_layers"]
    # (a) sequential refinement
    for im in small:
        sweep_image(ctx, im, use_model=ok, pools=("none",), budget=40 if ctx.quick else 10 ** 9, double=not ctx.quick)
    for im in big:
        sweep_image(ctx, im, use_model=ok, pools=("none",), budget=12 if ctx.quick else 150, double=False)
    # (b) controlled schedules
    for im in small:
        if len(im.keyframes) == 0:
            continue
        batch = schedules_for(ctx, im, 34 if ctx.quick else 40)
        t0 = time.time()
        run_sched_batch(ctx, im, batch, ok, 6000)
        ctx.notes[f"{im.name}_sched_s"] = round(time.time() - t0, 1)
        ctx.notes[f"{im.name}_schedules"] = len(batch)
    for im in big:
        grid = [0, 3, 9, 30, 70, 110] if ctx.quick else list(range(0, 130, 5))
        batch = [([0, 0], 2, "off", [0] * a + [1] * b, f"0x{a},1x{b}") for a in grid for b in (grid[::2] if ctx.quick else grid[::3])]
        if not ctx.quick:
            batch += [([0, 0], 2, str(ff), [0] * a + [1] * 60, f"0x{a},1x60+failure@{ff}") for a in grid[::4] for ff in (3, 30, 60, 85, 100)]
        else:
            batch += [([0, 0], 2, str(ff), [0] * a + [1] * 60, f"0x{a},1x60+failure@{ff}") for a in (9, 70) for ff in (30, 85)]
        run_sched_batch(ctx, im, batch, ok, max(8000, 30 * im.clean_ms))
        ctx.notes[f"{im.name}_schedules"] = len(batch)
    # (c), (d)
    for im in images:
        stress(ctx, im)
    biased_stress(ctx, images)
    ctx.assumptions += [
        "PARTIAL: the theorems are about the model's step granularity (one critical section = one atomic step); real "
        "interleavings are sampled (controlled schedules with a pre-emption bound, random schedules, stress), not enumerated",
        "std::sync Mutex/Condvar semantics (wait releases atomically, notify_all wakes every waiter, spurious wake-ups) and "
        "rayon's fork-join are trusted, not modelled beyond that",
        "pre-emption inside a lock-free region cannot be controlled by H4; it is covered by the model's interleaving "
        "semantics (lock-free work is thread-local) and by the uncontrolled stress only",
        "safety theorems assume no reset has overwritten a Rendering handle (ghost flag); the flag is checked on every "
        "replayed schedule and the biased stress shows the real code can raise it (known finding)",
    ]
