"""C16 — inverse block transforms match their mathematical definition.
Theorems: Props/C16.lean (exact real arithmetic: the recursive 1-D IDCT of generic/dct.rs equals the
cosine-sum definition for every power-of-two length; 2-D driver = rows then columns).
Correspondence / oracle: every one of the 27 transform types is run on the real generic path and on
the path the CPU selects (hook H5), on impulses at coefficient positions, LF impulses and random
blocks, aligned and unaligned buffers, and compared with the definition evaluated in binary64 by the
Lean driver: |impl - def| <= 1e-4 * max|def block|; generic vs arch with the same bound."""
import operator, struct
from vlib import *

MODULES = ["JxlModel.Props.C16"]
TOL = 1e-4            # the property's "small relative tolerance", relative to the block maximum
TOL_MODEL = 1e-9      # algorithm model at binary64 vs definition at binary64 (model-internal)
BATCH_FLOATS = 3_000_000


def f32bits(x):
    return "%08x" % struct.unpack(">I", struct.pack(">f", x))[0]


def unhex32(h):
    return struct.unpack(">%df" % (len(h) // 8), bytes.fromhex(h))


def unhex64(h):
    return struct.unpack(">%dd" % (len(h) // 16), bytes.fromhex(h))


def maxabs(a):
    return max(map(abs, a)) if a else 0.0


def maxdiff(a, b):
    return max(map(abs, map(operator.sub, a, b))) if a else 0.0


def rnd_f32(rng, kind=None):
    """a finite f32 value (as Python float that is exactly representable)"""
    kind = kind or rng.choice(["unit", "unit", "int", "wide", "small"])
    if kind == "unit":
        v = rng.uniform(-1, 1)
    elif kind == "int":
        v = float(rng.randint(-255, 255))
    elif kind == "wide":
        v = rng.uniform(-1, 1) * 2.0 ** rng.randint(-8, 12)
    else:
        v = rng.uniform(-1, 1) * 2.0 ** -10
    return struct.unpack(">f", struct.pack(">f", v))[0]


def sparse(pairs):
    return "s" + ",".join(f"{i}={f32bits(v)}" for i, v in pairs if v != 0.0)


def dense(vals):
    return "".join(f32bits(v) for v in vals)


def report(ctx, kind, detail, replay, key):
    """at most 3 replay files per key (a wrong constant fails thousands of cases the same way);
    every failure is still counted in the evidence"""
    seen = ctx.notes.setdefault("violations_by_key", {})
    seen[key] = seen.get(key, 0) + 1
    if seen[key] <= 3:
        ctx.violation(kind, detail, replay, key=key)


class Case:
    """one input; `lines(variant)` are the op lines; model gets variant g/0/0 (it ignores them)"""
    __slots__ = ("op", "ty", "name", "w", "h", "args", "kind", "variants", "inmax", "key")

    def line(self, var):
        p, off, pad = var
        if self.op == "dct":
            wh, d, data = self.args
            return f"dct {wh} {d} {p} {off} {pad} {data}"
        if self.op == "tr":
            return f"tr {self.ty} {p} {off} {pad} {self.args[0]}"
        return f"vb {self.ty} {p} {off} {pad} {self.args[0]} {self.args[1]}"


V_G = ("g", 0, 0)
V_A = ("a", 0, 0)
V_AU = ("a", 1, 0)      # first sample 4 bytes past an aligned address
V_AP = ("a", 0, 1)      # aligned start, odd stride
V_GU = ("g", 3, 5)
ALL_VARIANTS = [V_G, V_A, V_AU, V_AP, V_GU]


def gen_cases(ctx, types, quick):
    rng = ctx.rng
    cases = []

    def add(op, ty, name, w, h, args, kind, variants, inmax):
        c = Case()
        c.op, c.ty, c.name, c.w, c.h, c.args, c.kind = op, ty, name, w, h, args, kind
        c.variants, c.inmax = variants, inmax
        c.key = (op, ty, name, args)
        cases.append(c)

    for ty, (name, bw, bh) in enumerate(types):
        w, h = 8 * bw, 8 * bh
        n = w * h
        # --- impulses at coefficient positions, transform alone (an impulse inside the LLF corner
        # would be overwritten by LF injection in `vb`)
        all_imp = os.environ.get("VERIF_C16_ALL_IMPULSES") == "1"
        if n <= 1024 or (not quick and (n <= 4096 or all_imp)):
            pos = list(range(n))
        else:
            k = 58 if quick else 1018
            pos = sorted(set([0, 1, w - 1, w, n - w, n - 1] + [rng.randrange(n) for _ in range(k)]))
        for i in pos:
            v = rng.choice([1.0, 1.0, -1.0, rnd_f32(rng, "wide"), rnd_f32(rng, "int")]) or 1.0
            big = n > 1024
            r = rng.random()
            variants = [V_G, V_A] + ([V_AU] if (not big or r < 0.25) else []) + \
                       ([V_AP] if r > 0.9 else [])
            add("tr", ty, name, w, h, (sparse([(i, v)]),), "impulse", variants, abs(v))
        # --- LF impulses through the production entry point (LF injection + transform)
        nl = bw * bh
        lpos = list(range(nl)) if (nl <= 16 or not quick) else \
            sorted(set([0, 1, bw, nl - 1] + [rng.randrange(nl) for _ in range(8)]))
        for i in lpos:
            v = rng.choice([1.0, -1.0, rnd_f32(rng, "unit")]) or 1.0
            add("vb", ty, name, w, h, (sparse([(i, v)]), "s"), "lf-impulse", [V_G, V_A, V_AU], abs(v))
        # --- random blocks: dense coefficients with the usual decay, random LF
        nrand = (2 if n > 4096 else 4) if quick else (8 if n > 4096 else 40)
        for k in range(nrand):
            style = rng.choice(["flat", "decay", "sparse"])
            if style == "sparse":
                idx = sorted(set(rng.randrange(n) for _ in range(rng.randint(2, 12))))
                vals = [(i, rnd_f32(rng)) for i in idx]
                cs = sparse(vals)
                m = max([abs(v) for _, v in vals] + [0.0])
            else:
                kind = rng.choice(["unit", "int", "wide"])
                vals = []
                for i in range(n):
                    x, y = i % w, i // w
                    d = 1.0 if style == "flat" else 1.0 / (1 + x + y)
                    vals.append(struct.unpack(">f", struct.pack(">f", rnd_f32(rng, kind) * d))[0])
                cs = dense(vals)
                m = maxabs(vals)
            lf = [rnd_f32(rng, "unit") for _ in range(nl)]
            variants = ALL_VARIANTS if k == 0 else [V_G, V_A, V_AU]
            add("vb", ty, name, w, h, (dense(lf), cs), "random-" + style, variants,
                max(m, maxabs(lf)))
        # --- cancelling coefficients: equal magnitudes with opposite signs (sum exactly zero over the
        # block / a row / a column group / one interleaved sub-block). A shortcut that tests a SUM or
        # an OR-reduction of lanes for "nothing here" passes impulses and dense random blocks and
        # fails exactly on these (seeded: c16-hornuss-flat-fast-path-zero-sum,
        # c16-column-lane-skip-zero-sum).
        ncancel = 14 if quick else 120
        for k in range(ncancel):
            v = rng.choice([0.5, 1.0, 2.0, rnd_f32(rng, "int") or 3.0, rnd_f32(rng, "unit") or 0.25])
            x0, y0 = rng.randrange(w), rng.randrange(h)
            shape = k % 7
            if shape == 0:      # anywhere
                x1, y1 = rng.randrange(w), rng.randrange(h)
            elif shape == 1:    # same row
                x1, y1 = rng.randrange(w), y0
            elif shape == 2:    # same column
                x1, y1 = x0, rng.randrange(h)
            elif shape == 3:    # same group of four columns, different columns and rows
                x1, y1 = (x0 // 4) * 4 + rng.randrange(min(4, w)), rng.randrange(h)
            elif shape == 4:    # same group of four rows
                x1, y1 = rng.randrange(w), (y0 // 4) * 4 + rng.randrange(min(4, h))
            elif shape == 5:    # same parity class (the interleaved 4x4 sub-blocks of Hornuss / DCT4x4)
                x1, y1 = (x0 % 2) + 2 * rng.randrange(w // 2), (y0 % 2) + 2 * rng.randrange(h // 2)
            else:               # first row / first column of the first 8x8 (low frequencies)
                x0, y0 = rng.randrange(min(8, w)), 0
                x1, y1 = (x0 % 2) + 2 * rng.randrange(min(8, w) // 2), 0
            if (x1, y1) == (x0, y0):
                x1 = (x0 + 2) % w
            pairs = [(y0 * w + x0, v), (y1 * w + x1, -v)]
            if rng.random() < 0.4:   # two cancelling pairs
                x2, y2 = rng.randrange(w), rng.randrange(h)
                x3, y3 = (x2 + 2 * rng.randrange(1, max(2, w // 2))) % w, y2
                u = rng.choice([0.25, 1.5, 4.0])
                if len({(x0, y0), (x1, y1), (x2, y2), (x3, y3)}) == 4:
                    pairs += [(y2 * w + x2, u), (y3 * w + x3, -u)]
            pairs.sort()
            m = max(abs(p[1]) for p in pairs)
            if rng.random() < 0.5:
                add("tr", ty, name, w, h, (sparse(pairs),), "cancel", [V_G, V_A, V_AU], m)
            else:
                dc = rnd_f32(rng, "unit")
                lf = [dc] + [0.0] * (nl - 1) if rng.random() < 0.5 else [rnd_f32(rng, "unit") for _ in range(nl)]
                add("vb", ty, name, w, h, (dense(lf), sparse(pairs)), "cancel-vb", [V_G, V_A, V_AU],
                    max(m, maxabs(lf)))
    # --- the 2-D driver alone on every power-of-two shape, both directions
    shapes = [(1 << a, 1 << b) for a in range(9) for b in range(9)]
    for (w, h) in shapes:
        if quick and max(w, h) > 64 and rng.random() > 0.2:
            continue
        for d in "if":
            if d == "f" and w * h > 128 * 128 and quick:
                continue
            vals = [rnd_f32(rng, "unit") for _ in range(w * h)]
            variants = [V_G, V_A, V_AU] if w * h <= 4096 else [V_G, V_A]
            add("dct", -1, f"dct{w}x{h}{d}", w, h, (f"{w} {h}", d, dense(vals)), "driver-" + d,
                variants, maxabs(vals))
    return cases


def run_batch(ctx, batch, lean_ok, stats, release=False):
    """run one batch on the implementation (all variants) and the model; evaluate"""
    lines, owners = [], []
    for ci, c in enumerate(batch):
        for var in c.variants:
            lines.append(c.line(var))
            owners.append((ci, var))
    impl, rc, err = ctx.run_impl("c16", lines, timeout=3600, release=release)
    if rc != 0 or len(impl) != len(lines):
        ctx.failed_obligations.append(f"harness c16 died rc={rc} after {len(impl)}/{len(lines)} lines {err[-300:]}")
        return
    mlines = [c.line(V_G) for c in batch]
    if lean_ok:
        model, rc2, err2 = ctx.run_model("c16", mlines, timeout=3600)
        if rc2 != 0 or len(model) != len(mlines):
            ctx.failed_obligations.append(f"model driver died rc={rc2} {err2[-300:]}")
            return
    else:
        return
    defs = []
    for c, m in zip(batch, model):
        if not m.startswith("ok ") or len(m) - 3 != 16 * c.w * c.h:
            ctx.failed_obligations.append(f"model driver: no definition for {c.line(V_G)[:80]}: {m[:60]}")
            defs.append(None)
        else:
            defs.append(unhex64(m[3:]))
    outs = {}
    for (ci, var), o in zip(owners, impl):
        outs.setdefault(ci, {})[var] = o
    for ci, c in enumerate(batch):
        d = defs[ci]
        if d is None:
            continue
        scale = max(maxabs(d), 0.0) or c.inmax or 1.0
        ctx.case(c.key, nontrivial=True)
        ctx.count("type:" + c.name if c.op != "dct" else "driver-shapes")
        ctx.count("kind:" + c.kind)
        vals = {}
        for var, o in outs[ci].items():
            ctx.count("variant:%s/off%d/pad%d" % var)
            ctx.count("profile:" + ("release" if release else "dev(opt-level 1, overflow checks)"))
            replay = {"lines": [c.line(var), c.line(V_G)] if len(c.line(var)) < 20000 else
                      [c.line(var)[:2000] + "…(truncated; regenerate with the seed)"],
                      "how": "feed lines to harness/target/debug/c16 and to lean/.lake/build/bin/jxlmodel c16",
                      "tolerance": f"{TOL} * max|definition block| = {TOL * scale:g}"}
            if not o.startswith("ok ") or len(o) - 3 != 8 * c.w * c.h:
                report(ctx, "implementation-abnormal", f"{c.name} {c.kind} {var}: {o[:200]}",
                       replay, f"c16:{c.name}:abnormal:{o.split()[0] if o else 'empty'}")
                continue
            v = unhex32(o[3:])
            vals[var] = v
            if any(x != x or abs(x) == float("inf") for x in v):
                report(ctx, "implementation-nonfinite", f"{c.name} {c.kind} {var}", replay,
                       f"c16:{c.name}:nonfinite")
                continue
            e = maxdiff(v, d) / scale
            sk = (c.name if c.op != "dct" else "driver", "arch" if var[0] == "a" else "generic")
            stats[sk] = max(stats.get(sk, 0.0), e)
            if e > TOL:
                j = max(range(len(v)), key=lambda i: abs(v[i] - d[i]))
                replay.update({"worst_index": j, "impl": v[j], "definition": d[j], "rel_err": e})
                report(ctx, "implementation-differs-from-definition",
                       f"{c.name} {c.kind} path={var}: rel err {e:.3g} > {TOL} at sample {j} "
                       f"(x={j % c.w}, y={j // c.w}): impl {v[j]!r} definition {d[j]!r}",
                       replay, f"c16:{c.name}:{sk[1]}-vs-definition")
        if V_G in vals:
            for var, v in vals.items():
                if var == V_G:
                    continue
                e = maxdiff(v, vals[V_G]) / scale
                stats[("paths", c.name if c.op != "dct" else "driver")] = max(
                    stats.get(("paths", c.name if c.op != "dct" else "driver"), 0.0), e)
                if v != vals[V_G]:
                    ctx.count("paths-not-bit-identical")
                if e > TOL:
                    report(ctx, "generic-and-arch-paths-differ",
                           f"{c.name} {c.kind} {var} vs generic: rel diff {e:.3g}",
                           {"lines": [c.line(var)[:20000], c.line(V_G)[:20000]]},
                           f"c16:{c.name}:paths-differ")
        if len(ctx.cov["samples"]) < 4 and c.kind in ("impulse", "lf-impulse") and ci % 97 == 0:
            ctx.sample({"op": c.line(V_A)[:120], "max_rel_err_vs_definition":
                        max((maxdiff(v, d) / scale for v in vals.values()), default=None)})


def constants(ctx, lean_ok):
    """literal tables / run-time tables of the code vs their defining formulas in binary64"""
    lines = ["info", "types", "afv"] + [f"sec {1 << k}" for k in range(2, 9)] + \
            [f"scalef {c} {lb}" for lb in range(6) for c in range(32) if (c << lb) < 32]
    impl, rc, err = ctx.run_impl("c16", lines)
    if rc != 0 or len(impl) != len(lines):
        raise BuildError(f"harness c16 died on the constant ops rc={rc} {err[-300:]}")
    ctx.notes["arch_path"] = impl[0].split("arch=")[-1]
    types = [(n, int(a), int(b)) for n, a, b in (t.split(":") for t in impl[1].split()[1:])]
    if len(types) != 27:
        ctx.failed_obligations.append(f"expected 27 transform types, the enum has {len(types)}")
    if not lean_ok:
        return types
    model, rc2, err2 = ctx.run_model("c16", lines)
    if rc2 != 0 or len(model) != len(lines):
        ctx.failed_obligations.append(f"model driver died on the constant ops rc={rc2} {err2[-300:]}")
        return types
    if impl[1] != model[1]:
        ctx.failed_obligations.append("transform type table (names / dct_select_size) differs: impl "
                                      + impl[1] + " model " + model[1])
    worst = {}
    for l, i, m in zip(lines[2:], impl[2:], model[2:]):
        a, b = unhex32(i[3:]), unhex64(m[3:])
        if len(a) != len(b):
            ctx.failed_obligations.append(f"constant op {l}: lengths differ")
            continue
        rel = max(abs(x - y) / max(abs(y), 1e-30) if y != 0 else abs(x) for x, y in zip(a, b))
        name = l.split()[0] + (" " + l.split()[1] if l.startswith("sec") else "")
        worst[name] = max(worst.get(name, 0.0), rel)
        ctx.case(("const", l), True)
        ctx.count("kind:constant-table")
        # literal tables: f32 rounding of the exact value; run-time tables (n >= 64): the property's bound
        lim = TOL if (l.startswith("sec") and int(l.split()[1]) >= 64) else 2e-7
        if rel > lim:
            ctx.violation("constant-differs-from-definition",
                          f"{l}: max relative deviation {rel:.3g} from the defining formula (limit {lim})",
                          {"lines": [l], "impl": i, "model": m}, key=f"c16:const:{name}")
    ctx.notes["constants_max_rel_deviation"] = {k: float(f"{v:.3g}") for k, v in worst.items()}
    return types


def model_internal(ctx, cases):
    """algorithm model (the object of the theorems) at binary64 vs the definition at binary64, and
    the driver's zero-skipping evaluator vs the plain polymorphic definition"""
    rng = ctx.rng
    sub = [c for c in cases if c.op in ("tr", "vb", "dct") and
           (c.op == "dct" or c.kind.startswith("random") or rng.random() < 0.03) and c.w * c.h <= 16384]
    sub = sub[: (400 if ctx.quick else 4000)]
    lines = [c.line(V_G) for c in sub]
    a, rc, err = ctx.run_model("c16", lines, args=("alg",), timeout=3600)
    d, rc2, err2 = ctx.run_model("c16", lines, timeout=3600)
    if rc or rc2 or len(a) != len(lines) or len(d) != len(lines):
        ctx.failed_obligations.append(f"model driver died (alg/def self-comparison) {err[-200:]} {err2[-200:]}")
        return
    worst, n = 0.0, 0
    for c, x, y in zip(sub, a, d):
        if x == "na":
            continue
        if not (x.startswith("ok ") and y.startswith("ok ")) or len(x) != len(y):
            ctx.failed_obligations.append(f"model-internal: {c.line(V_G)[:60]}: alg {x[:40]} def {y[:40]}")
            continue
        xv, yv = unhex64(x[3:]), unhex64(y[3:])
        scale = maxabs(yv) or 1.0
        e = maxdiff(xv, yv) / scale
        worst = max(worst, e)
        n += 1
        if e > TOL_MODEL:
            ctx.failed_obligations.append(
                f"model-internal: algorithm model and definition differ at binary64 by {e:.3g} on {c.line(V_G)[:80]}")
    ctx.notes["alg_model_vs_definition_f64"] = {"cases": n, "max_rel_diff": float(f"{worst:.3g}")}
    ctx.count("kind:model-internal-alg-vs-def", n)
    st = []
    for _ in range(12):
        w, h = 1 << rng.randint(0, 4), 1 << rng.randint(0, 4)
        vals = [rnd_f32(rng) if rng.random() < 0.5 else 0.0 for _ in range(w * h)]
        st.append(f"selftest {w} {h} {dense(vals)}")
    o, rc, err = ctx.run_model("c16", st)
    if rc or o != ["ok same"] * len(st):
        ctx.failed_obligations.append(f"model-internal: zero-skipping evaluator differs from idct2dDef: {o[:3]}")


def replay(ctx):
    body = json.load(open(ctx.replay))
    lines = [l for l in body.get("replay", {}).get("lines", []) if "truncated" not in l]
    if not lines:
        print("replay file has no complete op lines; rerun with VERIF_SEED=%s" % body.get("seed"))
        return
    ctx.cargo_build(["c16"])
    impl, _, _ = ctx.run_impl("c16", lines)
    model, _, _ = ctx.run_model("c16", lines)
    for l, i, m in zip(lines, impl, model):
        if i.startswith("ok ") and m.startswith("ok ") and len(m) == 2 * len(i) - 3:
            v, d = unhex32(i[3:]), unhex64(m[3:])
            scale = maxabs(d) or 1.0
            e = maxdiff(v, d) / scale
            print(f"{l[:70]} …: rel err vs definition {e:.3g} ({'VIOLATES' if e > TOL else 'within'} {TOL})")
            if e > TOL:
                ctx.violation("implementation-differs-from-definition", f"replayed: rel err {e:.3g}",
                              {"lines": [l]}, key=body.get("key"))
        else:
            print(f"{l[:70]} …: impl {i[:60]} model {m[:60]}")


def run(ctx):
    if getattr(ctx, "replay", None):
        ctx.lean_build([], exe=True)
        return replay(ctx)
    ok = ctx.lean_build(MODULES)
    if ok:
        ctx.audit(MODULES, ctx.update_lock)
        if not ctx.quick:
            ctx.leanchecker(MODULES)
    ctx.cargo_build(["c16"])
    ctx.cov["rule"] = (
        "per transform type (27): an impulse at every coefficient position (<= 32x32: all; larger: 64 "
        "sampled in quick; thorough: all up to 64x64 and 1024 sampled per larger type, all with "
        "VERIF_C16_ALL_IMPULSES=1, release profile) through the per-type transform; an impulse at LF positions and "
        "random dense/decaying/sparse blocks with random LF through the production entry point "
        "transform_varblocks (LF injection + transform); the 2-D driver alone on power-of-two shapes "
        "1x1..256x256 in both directions; each on the generic path and on the CPU-selected path, 16-byte "
        "aligned, 4 bytes off, and odd stride. A case = one input block; distinct by content; every case "
        "is compared with the binary64 definition, so every case is non-trivial")
    types = constants(ctx, ok)
    stats = {}

    def campaign(cases, release):
        batch, size = [], 0
        for c in cases:
            cost = c.w * c.h * (len(c.variants) + 2)
            if batch and size + cost > BATCH_FLOATS:
                run_batch(ctx, batch, ok, stats, release)
                batch, size = [], 0
            batch.append(c)
            size += cost
        if batch:
            run_batch(ctx, batch, ok, stats, release)

    # quick: the harness' dev profile (opt-level 1, overflow checks, debug assertions);
    # thorough: the same quick-sized campaign on the dev profile, then the large one on --release
    cases = gen_cases(ctx, types, quick=True)
    campaign(cases, release=False)
    if not ctx.quick:
        ctx.cargo_build(["c16"], release=True)
        big = gen_cases(ctx, types, quick=False)
        campaign(big, release=True)
        cases = cases + big
    if ok:
        model_internal(ctx, cases)
    ctx.notes["max_rel_err_vs_definition"] = {
        f"{k[0]}/{k[1]}": float(f"{v:.3g}") for k, v in sorted(stats.items()) if k[0] != "paths"}
    ctx.notes["max_rel_diff_generic_vs_arch"] = {
        k[1]: float(f"{v:.3g}") for k, v in sorted(stats.items()) if k[0] == "paths"}
    ctx.notes["tolerance"] = f"|impl - def| <= {TOL} * max|def block| (property: small relative tolerance)"
    ctx.assumptions += [
        "the theorems are about exact real arithmetic; floating-point rounding is not bounded by proof, "
        "only measured here against the binary64 definition (tolerance 1e-4 of the block maximum)",
        "sec_half / scale_f literal tables and the f32 run-time sec tables (n >= 64) are compared "
        "numerically with their defining formulas, not proved equal",
        "DCT family (18 types): definition = cosine-sum IDCT along rows then columns, LLF = forward "
        "cosine-sum DCT of the LF samples divided by the scale_f product; Dct2/Dct4/Dct4x8/Dct8x4/Hornuss/"
        "AFV0-3: binary64 transcription of the standard's operation sequence with the small IDCTs "
        "evaluated by cosine sums; their coefficient-layout conventions are taken from the "
        "implementation/libjxl (no copy of ISO 18181-1 in the sandbox) and are not independently checked",
        "Hornuss and AFV use the same code on both paths (the arch dispatch calls the generic function)",
        "coefficient placement before the transform (need_transpose, dequantisation) is outside C16's "
        "observation point (the transform entry points)",
        "only the x86_64 path present on the running CPU is exercised (see notes.arch_path); unaligned or "
        "odd-stride buffers make the x86_64 2-D driver fall back to the generic one, which is what is run",
    ]
