"""C01 — decoding untrusted bytes is total. Theorems: Props/C01.lean (checked-arithmetic models of
bookkeeping code + the per-layer totality theorems of C10/C14/C17/C18). Campaign: every public
call, in seeded orders and chunkings, on corpus files, encoder-made streams and their mutations,
hostile containers and random bytes; any panic / abort / hang of the real decoder is a concrete
violation keyed by its site."""
import glob
from vlib import *
import planlib as pl

MODULES = ["JxlModel.Props.C01"]
ALLOC_LIMIT = 128 << 20          # as /repo/fuzz/fuzz_targets/decode.rs

OPS = ["M", "A", "J", "RA", "R0", "R1", "L", "C", "Q", "X", "Z", "P0:0:3:3", "P1:1:70:70", "P0:0:100000:100000",
       "Q0", "Q3", "Q127", "Q128", "Q129", "Q130", "Q131", "Q132", "Q143", "Q144", "Q200"]


def corpus_files():
    fs = sorted(glob.glob(REPO + "/crates/jxl-oxide-tests/tests/fuzz_findings/*.fuzz"))
    fs += [REPO + "/crates/jxl-oxide-tests/tests/cms/cmyk_layers.jxl"]
    fs += sorted(glob.glob(VERIF + "/design-probes/inputs/*.jxl"))
    fs += sorted(glob.glob(VERIF + "/corpus/*/*.jxl")) + sorted(glob.glob(VERIF + "/corpus/*/*.fuzz"))
    return fs


def gen_script(rng, n_bytes):
    """a call sequence: chunked feeding interleaved with queries/renders, or read()"""
    steps = []
    if rng.random() < 0.25:
        steps.append("W")
    else:
        k = rng.choice([1, 1, 2, 3, 5])
        cuts = sorted(rng.randint(0, n_bytes) for _ in range(k - 1))
        prev = 0
        for c in cuts:
            steps.append(f"F{max(1, c - prev)}")
            prev = c
            if rng.random() < 0.6:
                steps += rng.sample(OPS, rng.randint(1, 3))
        steps.append("F0")
    steps += rng.sample(OPS, rng.randint(3, 9))
    if rng.random() < 0.5:
        steps += ["RA"]
    return ",".join(steps)


def mutate(rng, data):
    b = bytearray(data)
    if not b:
        return bytes(b)
    kind = rng.choice(["flip", "flip", "flip3", "byte", "trunc", "dup", "ff", "zero", "splice"])
    n = len(b)
    # bias positions towards the headers
    pos = lambda: min(n - 1, int(abs(rng.gauss(0, max(8, n / 6))))) if rng.random() < 0.6 else rng.randrange(n)
    if kind == "flip":
        p = pos(); b[p] ^= 1 << rng.randrange(8)
    elif kind == "flip3":
        for _ in range(3):
            p = pos(); b[p] ^= 1 << rng.randrange(8)
    elif kind == "byte":
        b[pos()] = rng.randrange(256)
    elif kind == "trunc":
        del b[rng.randrange(n):]
    elif kind == "dup":
        p = pos(); b[p:p] = b[p:p + rng.randint(1, 8)]
    elif kind == "ff":
        p = pos(); b[p:p + rng.randint(1, 4)] = b"\xff" * rng.randint(1, 4)
    elif kind == "zero":
        p = pos(); b[p:p + rng.randint(1, 4)] = b"\x00" * rng.randint(1, 4)
    else:
        p, q = pos(), pos()
        b[p:p + 4], b[q:q + 4] = b[q:q + 4], b[p:p + 4]
    return bytes(b)


def box(ty, payload, form=0):
    if form == 1:
        return (1).to_bytes(4, "big") + ty + (len(payload) + 16).to_bytes(8, "big") + payload
    if form == 2:
        return (0).to_bytes(4, "big") + ty + payload
    return (len(payload) + 8).to_bytes(4, "big") + ty + payload


SIG = bytes.fromhex("0000000c4a584c200d0a870a")
FTYP = box(b"ftyp", b"jxl \x00\x00\x00\x00jxl ")


def wrap_container(rng, cs):
    parts = [SIG, FTYP]
    pre = rng.sample([b"Exif", b"xml ", b"jumb", b"jbrd", b"brob", b"jxll", b"abcd"], rng.randint(0, 3))
    for ty in pre:
        payload = bytes(rng.randrange(256) for _ in range(rng.choice([0, 1, 4, 5, 9, 40])))
        if ty == b"brob":
            payload = rng.choice([b"Exif", b"xml ", b"jbrd", b"brob", b"jxlc"]) + payload
        parts.append(box(ty, payload, rng.choice([0, 0, 1])))
    if rng.random() < 0.5:
        parts.append(box(b"jxlc", cs, rng.choice([0, 1, 2])))
    else:
        k = rng.randint(1, 4)
        cuts = sorted(rng.randint(0, len(cs)) for _ in range(k - 1)) + [len(cs)]
        prev = 0
        for i, c in enumerate(cuts):
            idx = i | (0x80000000 if i == len(cuts) - 1 else 0)
            if rng.random() < 0.05:
                idx = rng.randrange(1 << 32)
            parts.append(box(b"jxlp", idx.to_bytes(4, "big") + cs[prev:c], rng.choice([0, 0, 1])))
            prev = c
    return b"".join(parts)


def run(ctx):
    import translate_c01
    try:
        ps = translate_c01.pins(REPO)
        open(os.path.join(LEAN, "JxlModel", "Gen", "C01Pins.lean"), "w").write(translate_c01.emit("Jxl.Checked.Gen", ps))
    except SystemExit as e:
        ctx.failed_obligations.append(str(e))
    ok = ctx.lean_build(MODULES)
    if ok:
        ctx.audit(MODULES, ctx.update_lock)
        if not ctx.quick:
            ctx.leanchecker(MODULES)
    ctx.cargo_build(["c01"])
    q = ctx.quick
    rng = ctx.rng
    inputs = []                                   # (label, bytes)
    for f in corpus_files():
        inputs.append(("corpus:" + os.path.basename(f), open(f, "rb").read()))
    # encoder-made valid streams
    plans = []
    for _ in range(60 if q else 600):
        r = rng.random()
        if r < 0.5:
            img, fr = pl.gen_modular_image(rng)
        elif r < 0.7:
            img, fr, _ = pl.gen_table_image(rng)
        elif r < 0.9:
            img, fr, _ = pl.gen_palette_image(rng)
        else:
            img, fr = pl.gen_modular_image(rng, {"multi_group": True})
        plans.append(pl.plan_line(img, fr))
    encs = run_lines_robust([MODEL_EXE, "enc"], plans, per_line_timeout=60) if ok else []
    valid = []
    for e in encs:
        r = pl.parse_enc_output(e) if e and e.startswith("ok") else None
        if r:
            valid.append(bytes.fromhex(r[0]))
    for v in valid:
        inputs.append(("valid", v))
        if rng.random() < 0.5:
            inputs.append(("valid-container", wrap_container(rng, v)))
    # frames with patch dictionaries whose coordinates / sizes / slots are hostile (the entropy-coded
    # dictionary itself is well formed: written by the Lean encoder)
    from props import c05
    import seqlib
    big = [0, 1, 7, 255, 256, 65535, 2 ** 31 - 2, 2 ** 31 - 1, 2 ** 31, 2 ** 32 - 2]
    hp = []
    for _ in range(40 if q else 600):
        img, frs, _tags = c05.gen_patch_image(rng, hostile=rng.random() < 0.3)
        for fr_ in frs:
            for p in fr_.get("patches", []):
                k = rng.randrange(9)
                if k == 0: p["x0"] = rng.choice(big)
                elif k == 1: p["y0"] = rng.choice(big)
                elif k == 2: p["w"] = rng.choice(big) + 1
                elif k == 3: p["h"] = rng.choice(big) + 1
                elif k == 4: p["ref"] = rng.choice([0, 1, 2, 3])
                elif k == 5: p["targets"][0]["x"] = rng.choice(big)
                elif k == 6:
                    for t in p["targets"][1:]:
                        t["x"] = rng.choice([-2 ** 31 + 5, -70000, 2 ** 31 - 1, -1]); t["y"] = rng.choice([-2 ** 30, 2 ** 30, -5])
                elif k == 7:
                    p["x0"] = rng.choice(big); p["w"] = rng.choice(big) + 1; p["targets"][0]["y"] = rng.choice(big)
        hp.append(seqlib.plan_line(img, frs))
    for e in (run_lines_robust([MODEL_EXE, "enc"], hp, per_line_timeout=60) if ok else []):
        r = pl.parse_enc_output(e) if e and e.startswith("ok") else None
        if r:
            inputs.append(("hostile-patches", bytes.fromhex(r[0])))
    # spline dictionaries with hostile coefficients / control points / quant_adjust (and noise LUTs)
    BIGS = [0, 1, -1, 255, 4095, -4096, 65535, -65536, 2 ** 20, -2 ** 20, 2 ** 24, 2 ** 30, -2 ** 30, 2 ** 31 - 1, -2 ** 31 + 1]
    hs = []
    for _ in range(40 if q else 600):
        w, h = rng.randint(8, 40), rng.randint(8, 30)
        wild = rng.random() < 0.5             # wild coefficients: mostly rejected by the area limit; tame: reaches the renderer
        far = rng.random() < 0.1              # control points beyond the position limit, a short curve (small area estimate)
        img = {"w": w, "h": h, "bits": 8, "gray": rng.random() < 0.15, "buf16": True, "orient": 1, "anim": None, "ecs": []}
        nch = 1 if img["gray"] else 3
        f = {"gshift": 1, "is_last": True, "tr": [], "pals": [], "tree": ("L", 0, 5, 0, 1), "wp": None,
             "chans": [(w, h, pl.gen_pixels(rng, w, h, 0, 255)) for _ in range(nch)]}
        sp = []
        for i in range(rng.randint(1, 3)):
            if wild:
                coeffs = [rng.choice(BIGS) if rng.random() < 0.3 else rng.randint(-50, 50) for _ in range(128)]
            else:
                coeffs = [0] * 128
                for c in range(3):
                    coeffs[32 * c] = rng.choice([0, 1, -1, 3, 40, -40, 2000])
                coeffs[96] = rng.choice([0, 1, -1, 2, 5, 300, -300])
            lim = BIGS[:9]
            deltas = [(rng.choice(lim) if rng.random() < 0.5 else rng.randint(-9, 9) or 1,
                       rng.choice(lim) if rng.random() < 0.5 else rng.randint(-9, 9)) for _ in range(rng.randint(0, 5))]
            start = (abs(rng.choice(lim)), abs(rng.choice(lim))) if i == 0 else (rng.choice(lim), rng.choice(lim))
            if far:
                start = (2 ** rng.randint(24, 30), rng.choice([0, 5, 2 ** rng.randint(24, 30)]))
                deltas = [(rng.randint(100, 3000), rng.randint(-50, 50))] + [(rng.randint(-9, 9), rng.randint(-9, 9)) for _ in range(rng.randint(0, 2))]
                if i > 0:
                    start = (rng.randint(0, 30), rng.randint(0, 30))
            sp.append({"start": start, "deltas": deltas, "coeffs": coeffs})
        f["splines"] = (rng.choice([0, -7, -8, -9, -100, 7, 100, 2 ** 31 - 1, -2 ** 31 + 1] if wild else [0, -7, -8, -9, 7, 100]), sp)
        if rng.random() < 0.4:
            f["noise"] = [rng.choice([0, 1023, rng.randrange(1024)]) for _ in range(8)]
        hs.append(pl.plan_line(img, [f]))
    for e in (run_lines_robust([MODEL_EXE, "enc"], hs, per_line_timeout=60) if ok else []):
        r = pl.parse_enc_output(e) if e and e.startswith("ok") else None
        if r:
            inputs.append(("hostile-splines", bytes.fromhex(r[0])))
    import feedlib as fl
    for _label, data, _jpeg in fl.synth_vardct(ctx, 6 if q else 60):
        inputs.append(("valid-vardct", data))       # VarDCT frame + jbrd box: bases for mutation too
    base = [b for (_, b) in inputs if len(b) < 20000]
    n_mut = 1500 if q else 40000
    for _ in range(n_mut):
        src = rng.choice(base)
        m = mutate(rng, src)
        if rng.random() < 0.3:
            m = mutate(rng, m)
        if rng.random() < 0.15 and not m.startswith(SIG[:4]):
            m = wrap_container(rng, m)
        inputs.append(("mutant", m))
    for _ in range(100 if q else 2000):
        n = rng.choice([0, 1, 2, 3, 8, 16, 40, 200])
        inputs.append(("random", b"\xff\x0a" + bytes(rng.randrange(256) for _ in range(n))))
    ctx.cov["rule"] = ("inputs: the 61 fuzz regressions, the fixture, crafted probe files, Lean-encoder streams (bare and "
                       "container-wrapped with hostile aux boxes), 1-3 step mutations of all of them (bit flips, byte "
                       "overwrites, truncation, duplication, splices; positions biased to headers), signature + random "
                       "bytes; each with a seeded call sequence (chunked feed/try_init or read, metadata, ICC/CICP/pixel "
                       "format, aux boxes, JPEG status, reconstruct, colour requests, region, render keyframes / loading "
                       "frame) under the fuzz harness's 128 MiB allocation limit, checked build; non-trivial = the image "
                       "initialised (at least one call after init ran); distinct by (bytes, script)")
    lines, meta = [], []
    # minimised past failures with the exact call sequence that exposed them: always replayed first
    for f in sorted(glob.glob(VERIF + "/corpus/c01/*.jsonl")):
        for l in open(f):
            c = json.loads(l)
            data = bytes.fromhex(c["bytes_hex"])
            lines.append(f"run {hex_or_dash(data)} {c['script']} {ALLOC_LIMIT}")
            meta.append(("corpus-case", data, c["script"]))
    for label, data in inputs:
        script = gen_script(rng, len(data))
        if label in ("hostile-patches", "hostile-splines"):
            script = rng.choice(["W,RA,RA", "W,R0,M,RA", "F0,RA,P0:0:3:3,RA"])
        lines.append(f"run {hex_or_dash(data)} {script} {ALLOC_LIMIT}")
        meta.append((label, data, script))
    # low allocation limits with repeated calls: an error (out of memory in decoding, blending, ...)
    # must leave the image usable - a later call answers, it does not hang or panic
    limits = [ALLOC_LIMIT] * len(lines)
    fixture = open(REPO + "/crates/jxl-oxide-tests/tests/cms/cmyk_layers.jxl", "rb").read()
    import feedlib as fl
    multi = [cs for (_, _, cs) in fl.encode([("m", pl.plan_line(*fl.gen_multiframe(rng))) for _ in range(10 if q else 80)])] if ok else []
    for _ in range(40 if q else 600):
        if rng.random() < 0.5 or not multi:
            data, lim = fixture, int(2 ** rng.uniform(16, 24))
        else:
            data, lim = rng.choice(multi), int(2 ** rng.uniform(6, 17))
        script = rng.choice(["W,RA,RA,R0,M,R0", "W,R0,R0,R0", "F0,RA,L,RA,R0", "W,RA,P0:0:3:3,RA,RA", "F4096,F0,RA,RA,Z,R0"])
        lines.append(f"run {hex_or_dash(data)} {script} {lim}")
        meta.append(("low-limit", data, script))
        limits.append(lim)
    n_main = next((i for i, m in enumerate(meta) if m[0] == "low-limit"), len(meta))
    # address space capped at 12 GiB: an input that makes the decoder allocate without bound (outside the tracker)
    # ends as an allocation abort = `crash` within seconds instead of exhausting the machine until the deadline
    capped = ["/bin/sh", "-c", f"ulimit -v 12582912; exec {ctx.harness_bin('c01')}"]
    outs = run_lines_robust(capped, lines[:n_main], per_line_timeout=30, batch=100)
    # the low-limit lines one process each (a hang costs its deadline once); give up after 3 failures
    bad_low = 0
    for ln in lines[n_main:]:
        if bad_low >= 3:
            outs.append("skip")
            continue
        o1 = run_lines_robust(capped, [ln], per_line_timeout=25, floor=25)[0] or "crash"
        outs.append(o1)
        if o1 == "hang" or o1.startswith("crash") or "panic" in o1:
            bad_low += 1
    # structurally hostile JPEG reconstruction data (every field of the jbrd header damaged in turn while
    # the header still parses) on synthetic transcodes: reconstruct_jpeg answers Ok or Err
    hl = fl.hostile_jbrd_lines(rng, 1500 if q else 40000)
    for l, o in zip(hl, run_lines_robust([ctx.harness_bin("c17e")], hl, per_line_timeout=30, batch=200)):
        o = o or "crash"
        w = o.split()
        ctx.case(("hjbrd", l), nontrivial=w[0] in ("ok", "err", "status"))
        ctx.count("input:hostile-jbrd")
        ctx.count("hostile-jbrd:" + (w[0] if w[0] in ("ok", "err", "status") else "FAILED"))
        for d in (w[-1].split("+") if w[0] in ("ok", "err", "status") else []):
            ctx.count("hostile-jbrd-damage:" + d)
        if w[0] not in ("ok", "err", "status"):
            m = re.match(r"panic ([^_ ]+\.rs:\d+)", o)
            key = "panic:" + m.group(1) if m else w[0]
            ctx.violation("public-call-panicked-or-hung", {"input": "hostile-jbrd", "result": o[:400]},
                          {"lines": [l], "how": "echo '<line>' | harness/target/debug/c17e (damage: harness/src/synth.rs hostile())"},
                          key=key)
    for (label, data, script), o, lim_used in zip(meta, outs, limits):
        o = o or "crash"
        words = o.split()
        inited = any(w == "ok" for w in words[:1 + script.count("F")])
        ctx.case((data, script), nontrivial=inited and len(words) > 2)
        ctx.count("input:" + label.split(":")[0])
        for w in words:
            ctx.count("result:" + (w if w in ("ok", "err", "need", "skip") else w.split("_")[0]))
        bad = [w for w in words if w.startswith("panic") or w.startswith("crash") or w == "hang"]
        if o.startswith("crash") or o == "hang":
            bad = [o.split()[0]]
        if bad:
            site = bad[0]
            m = re.match(r"panic_([^_]+\.rs:\d+)", site)
            key = "panic:" + m.group(1) if m else site.split("_")[0]
            ctx.violation("public-call-panicked-or-hung", {"input": label, "result": o[:400]},
                          {"bytes_hex": data.hex(), "script": script, "alloc_limit": lim_used,
                           "how": "echo 'run <hex> <script> <limit>' | harness/target/debug/c01"}, key=key)
        elif len(ctx.cov["samples"]) < 4 and inited and len(data) < 200:
            ctx.sample({"input": label, "bytes_hex": data.hex(), "script": script, "results": o})
    ctx.assumptions += [
        "usize = 64 bit; checked (overflow-checks, debug-assertions) build of the whole workspace",
        "allocation limit 128 MiB as in fuzz/fuzz_targets/decode.rs; per-line deadline 30 s counts as a hang; the harness "
        "process runs with a 12 GiB address-space cap (ulimit -v): running into it is an abort = a violation",
        "after a panic the image object is not used again (a panic may leave locks poisoned); the panic itself is the violation",
        "VarDCT pixel paths, filters and colour conversion are reached only by corpus files and mutants, never by valid encoder-made streams",
    ]


def hex_or_dash(b):
    return b.hex() if b else "-"
