"""C09 — feeding the stream in any chunks gives the same image as one buffer.
Theorems: Props/C09.lean (model: Model/Feed.lean on top of Model/Container.lean).
Correspondence: the real feeding API (harness/src/bin/c09.rs: build_uninit / feed_bytes / try_init /
JxlImage::feed_bytes / finalize / read) is driven with encoder streams (bare and container-wrapped,
single / multi-frame incl. reference-only + blending, single / multi-group, aux boxes) and the fixture
cmyk_layers.jxl under: one byte at a time, every single split point (streams <= 4 KiB), random 3..8-way
splits. Property oracle on the implementation first (observables and rendered samples identical to the
whole-buffer decode), then model vs implementation on the modelled observables (consumed counts,
states, loaded frames / keyframes, frame offsets, completion flag, bytes to re-offer)."""
import glob, json
from vlib import *
import planlib as pl
import feedlib as fl

MODULES = ["JxlModel.Props.C09", "JxlModel.Props.C09Headers"]


def run_impl_scripts(ctx, scripts, per_line_timeout=60):
    return run_lines_robust([fl.H(ctx)], scripts, per_line_timeout=per_line_timeout)


def evaluate(ctx, kind, what, clean, scripts, metas, outs, replay_base):
    """property oracle on the implementation's own output. returns number of bad cases"""
    bad = 0
    want = fl.strip_report(clean)
    for meta, script, out in zip(metas, scripts, outs):
        parts = (out or "crash").split(" | ")
        ctx.case((what, meta), nontrivial=True)
        ctx.count("chunking:" + meta[0])
        replay = dict(replay_base, script=script if len(script) < 20000 else script[:20000] + "...",
                      chunking=meta, whole_buffer_report=want, got=parts[-1][:600],
                      how="echo '<script>' | harness/target/debug/c09")
        errs = [p for p in parts[:-1] if fl.bad_feed(p)]
        if errs or fl.bad_feed(parts[-1]):
            e = (errs or [parts[-1]])[0]
            key = fl.panic_key(e) if e.startswith("panic") else "feed-error:" + kind
            ctx.violation("feed-returned-error-or-panicked-on-valid-stream", e[:300], replay, key=key)
            bad += 1
            continue
        got = fl.strip_report(parts[-1])
        if got != want:
            a, b = fl.fields(want), fl.fields(got)
            diff = sorted(k for k in set(a) | set(b) if a.get(k) != b.get(k))
            ctx.violation("chunked-feed-differs-from-whole-buffer-decode", {"fields": diff}, replay,
                          key="differs:" + ",".join(diff))
            bad += 1
    return bad


def model_diff(ctx, what, layout, scripts, outs, replay_base):
    """model vs implementation on the modelled observables"""
    lines = ["script lay:" + layout + " " + s[len("script "):] for s in scripts]
    mouts = run_lines_robust([MODEL_EXE, "c09"], lines, per_line_timeout=120)
    for script, out, mout in zip(scripts, outs, mouts):
        iparts = (out or "crash").split(" | ")
        mparts = (mout or "crash").split(" | ")[1:]          # drop the answer to lay:
        ops = script.split()[1:]
        ctx.count("model-compared-ops", len(ops))
        if len(iparts) != len(mparts):
            ctx.failed_obligations.append(f"correspondence C09 model/impl: answer count differs on {what}: {script[:200]}")
            return False
        for o, ip, mp in zip(ops, iparts, mparts):
            if o == "loading":
                continue
            fin = o == "finish" or o.startswith("read")
            a, b = fl.modelled(ip, fin), fl.modelled(mp, fin)
            if a != b:
                ctx.failed_obligations.append(
                    f"correspondence C09 model/impl differs on {what} op {o[:40]}: impl [{a}] model [{b}]; "
                    f"script: {script[:300]}")
                ctx.notes.setdefault("model_diff_replays", []).append(dict(replay_base, script=script[:5000], impl=ip[:300], model=mp[:300]))
                return False
    return True


def chunkings(rng, n, quick):
    """[(name, cuts)]"""
    out = [("whole", [])]
    if n <= 4096:
        out.append(("bytewise", list(range(1, n))))
        pts = list(range(1, n))
        if quick and len(pts) > 400:
            pts = sorted(rng.sample(pts, 400))
        out += [("split", [c]) for c in pts]
    for _ in range(12 if quick else 40):
        k = rng.randint(2, 7)
        cuts = sorted(set(rng.randint(1, max(1, n - 1)) for _ in range(k)))
        out.append(("multiway", cuts))
    return out


def check_stream(ctx, kind, data, desc, plan, quick, do_model=True):
    hexs = data.hex()
    base = {"kind": kind, "stream_hex": hexs if len(hexs) < 40000 else hexs[:40000] + "...", "container": desc,
            "plan": plan[:3000] if plan else None}
    clean = run_impl_scripts(ctx, [f"script read:{hexs}"])[0] or "crash"
    if not fl.is_clean_ok(clean):
        ctx.count("whole-buffer-decode-not-ok:" + (clean.split()[0] if clean else "none")[:40])
        return
    what = hashlib.sha1(data).hexdigest()[:12]
    chs = chunkings(ctx.rng, len(data), quick)
    scripts = ["script " + " ".join(fl.push_ops(data, cuts)) + " finish" for _, cuts in chs]
    metas = [(name, cuts if len(cuts) <= 8 else f"{len(cuts)} cuts") for name, cuts in chs]
    outs = run_impl_scripts(ctx, scripts)
    ctx.count("streams:" + kind)
    ctx.count("container:" + (desc or {}).get("mode", "bare"))
    f = fl.fields(clean)
    ctx.count("frames:" + f.get("frames", "?"))
    ctx.count("keyframes:" + f.get("kf", "?"))
    if f.get("exif", "notfound") != "notfound" or f.get("xml", "notfound") != "notfound":
        ctx.count("streams-with-exif-or-xml")
    if desc is not None:
        # the boxes the generator wrote, not what another path of the decoder says
        want = fl.expected_aux(desc)
        got = (f.get("exif", "?"), f.get("xml", "?"))
        if want != got:
            ctx.violation("auxiliary-data-differs-from-the-boxes-in-the-file",
                          {"expected_exif_xml": want, "got_exif_xml": got, "boxes": desc.get("aux")},
                          dict(base, script=f"script read:{hexs}" if len(hexs) < 20000 else "script read:<stream_hex>"),
                          key="aux:" + ("exif" if want[0] != got[0] else "xml"))
            return
    bad = evaluate(ctx, kind, what, clean, scripts, metas, outs, base)
    if bad == 0 and do_model and len(data) <= 30000:
        lay = f.get("lay", "-")
        pick = [i for i, (name, _) in enumerate(chs) if name != "split"]
        splits = [i for i, (name, _) in enumerate(chs) if name == "split"]
        pick += ctx.rng.sample(splits, min(len(splits), 25 if quick else 120))
        ms = [scripts[i] for i in pick] + [f"script read:{hexs}"]
        mo = [outs[i] for i in pick] + [clean]
        if model_diff(ctx, what, lay, ms, mo, base) and len(ctx.cov["samples"]) < 4 and len(hexs) < 900:
            ctx.sample({"kind": kind, "stream_hex": hexs, "layout": lay, "whole_buffer_report": fl.strip_report(clean)})


def check_fixture(ctx, quick):
    path = fl.FIXTURE
    data = open(path).read() if False else open(path, "rb").read()
    n = len(data)
    clean = run_impl_scripts(ctx, [f"script readf:{path}"], per_line_timeout=120)[0] or "crash"
    if not fl.is_clean_ok(clean):
        ctx.failed_obligations.append("fixture cmyk_layers.jxl is not decoded by the whole-buffer path: " + clean[:200])
        return
    f = fl.fields(clean)
    offs = [int(x) for x in f["offs"].split(",")]
    rng = ctx.rng
    cases = [("whole", [])]
    foff = [fl.cs_to_file_offset(data, o) for o in offs]          # frame starts as file offsets
    interesting = [foff[0] - 2, foff[0] - 1, foff[0], 1, 12, 40, 4096, offs[0]] + \
        [o + d for o in foff[1:] for d in (-1, 0, 1, 7)] + [2, 13, 4095, 4097, 8192, n - 1]
    if not quick:
        interesting += list(range(foff[0] - 40, foff[0] + 8))      # every cut around the end of the ICC stream
    for c in interesting[: (10 if quick else len(interesting))]:
        cases.append(("split", [c]))
    for _ in range(6 if quick else 40):
        cases.append(("split", [rng.randint(1, n - 1)]))
    for _ in range(4 if quick else 30):
        k = rng.randint(2, 7)
        cases.append(("multiway", sorted(set(rng.randint(1, n - 1) for _ in range(k)))))
    # one byte at a time over a window (the whole file would re-parse the 376 KB ICC stream 387 140 times)
    for start in ([foff[0] - 60] if quick else [0, foff[0] - 300, foff[1] - 100, foff[-1] - 40]):
        start = max(0, start)
        end = min(n, start + (120 if quick else 700))
        cases.append(("bytewise-window", ([start] if start else []) + list(range(start + 1, end)) + ([end] if end < n else [])))
    scripts, metas = [], []
    for name, cuts in cases:
        pts = [0] + cuts + [n]
        ops = [f"pushf:{path}:{a}:{b}" for a, b in zip(pts, pts[1:])]
        scripts.append("script " + " ".join(ops) + " finish")
        metas.append((name, cuts if len(cuts) <= 8 else f"{len(cuts)} cuts from {cuts[0]}"))
    outs = run_impl_scripts(ctx, scripts, per_line_timeout=180)
    ctx.count("streams:fixture")
    bad = evaluate(ctx, "fixture", "fixture", clean, scripts, metas, outs, {"file": path})
    if bad == 0:
        # model on a few of them (hex of the slices)
        pick = [0, 1, 2, len(cases) - 1] if quick else list(range(0, len(cases), 3))
        ms, mo = [], []
        for i in pick:
            pts = [0] + cases[i][1] + [n]
            ms.append("script " + " ".join(f"push:{fl.hx(data[a:b])}" for a, b in zip(pts, pts[1:])) + " finish")
            mo.append(outs[i])
        model_diff(ctx, "fixture", f["lay"], ms, mo, {"file": path})


def run_corpus(ctx):
    for p in sorted(glob.glob(os.path.join(VERIF, "corpus", "c09", "*.json"))):
        c = json.load(open(p))
        c["scripts"] = [fl.subst(x) for x in c["scripts"]]
        outs = run_impl_scripts(ctx, c["scripts"], per_line_timeout=180)
        reports = [fl.strip_report((o or "crash").split(" | ")[-1]) for o in outs]
        ctx.case(("corpus", os.path.basename(p)))
        ctx.count("corpus")
        if any(fl.bad_feed(x) for o in outs for x in (o or "crash").split(" | ")) or len(set(reports)) != 1:
            ctx.violation("corpus-case-fails", {"what": c.get("what"), "reports": [r[:300] for r in reports]},
                          {"corpus_file": p, "scripts": [s[:2000] for s in c["scripts"]]}, key=c.get("key"))


def run(ctx):
    ok = ctx.lean_build(MODULES)
    if ok:
        ctx.audit(MODULES, ctx.update_lock)
        if not ctx.quick:
            ctx.leanchecker(MODULES)
    ctx.cargo_build(["c09"])
    if not ok:
        return
    q = ctx.quick
    ctx.cov["rule"] = ("streams written by the Lean reference encoder (single-frame Modular images of all generator "
                       "shapes; 2..5-frame images with regular / reference-only / skip-progressive frames, crops, all "
                       "blend modes, save slots, animation; multi-group frames), bare or wrapped in a container (jxlc or "
                       "1..4 jxlp pieces cut at arbitrary codestream offsets, Exif / xml / jumb / unknown boxes before, "
                       "between and after, 32-bit / 64-bit / to-end-of-file sizes, aux payloads up to 9000 bytes) plus the "
                       "fixture cmyk_layers.jxl; each fed whole, one byte at a time, at every single split point "
                       "(streams <= 4 KiB; quick tier samples 400 points of longer ones) and in random 2..8-way splits; "
                       "a case = (stream, chunking); non-trivial = the whole-buffer decode accepts the stream and renders "
                       "every keyframe")
    run_corpus(ctx)
    plans = fl.gen_plans(ctx.rng, 50 if q else 550, 60 if q else 650, 8 if q else 90, max_pixels=2000 if q else 40000)
    streams = fl.encode(plans)
    ctx.count("encoder-rejected-plans", len(plans) - len(streams))
    for kind, line, cs in streams:
        r = ctx.rng.random()
        if r < 0.35:
            data, desc = cs, None
        else:
            data, desc = fl.wrap(ctx.rng, cs, big_aux=ctx.rng.random() < 0.25)
        if len(data) > (70000 if q else 400000):
            ctx.count("skipped-too-long-for-tier")
            continue
        check_stream(ctx, kind, data, desc, line, q)
        if len([v for v in ctx.violations]) >= 12:
            break
    # VarDCT frames with a jbrd box (synthetic lossless JPEG transcodes): chunking must not change the
    # image nor the reconstruction status either
    for label, data, _jpeg in fl.synth_vardct(ctx, 6 if q else 60):
        check_stream(ctx, "vardct-jbrd", data, None, label, q, do_model=False)
    check_fixture(ctx, q)
    ctx.assumptions += [
        "header / TOC parsers are abstract prefix-stable functions in the theorems; that ImageHeader::parse, read_icc and "
        "Frame::parse are prefix stable is exercised by this run, not proved",
        "the model's parsers for the correspondence run are driven by the layout the real decoder reports for the whole "
        "stream (bytes before the first frame, header+TOC length, is_last, keyframe flag and section sizes per frame)",
        "VarDCT frames occur only as synthetic JPEG transcodes (DCT8 blocks, jbrd box; compared without the feeding model); "
        "previews are not generated; an embedded ICC profile occurs only in the fixture",
        "Brotli-compressed (brob) boxes carry stored (uncompressed) Brotli streams only: there is no Brotli encoder offline",
        "rendered samples are compared by a 64-bit FNV hash of every channel buffer of every keyframe",
    ]
