"""C08 — a failed render never wedges or corrupts the image.
Theorems: Props/C08.lean (sequential single-caller histories of the render-handle protocol with an
adversarial failure oracle). Correspondence: for every tracked allocation point k of a clean
decode+render, a fresh image with "fail allocation k and all later" (hook H1); every render call
runs in a worker subprocess under a deadline; handle states (hook H3) and the scheduling-point
trace (hook H4) are compared with the model's guided replay; after the switch is lifted and after
request_image_region the samples are compared bit-for-bit with the clean render."""
from vlib import *
import os
from props.c08lib import *

MODULES = ["JxlModel.Props.C08"]


def loading_frame_faults(ctx):
    """`render_loading_frame` is a render call too: fail it (H1) on prefixes of the fixture while it is
    being fed, lift the fault, feed the rest; a later render that succeeds must give the clean samples
    (the scenario is shared with C11: tools/props/c11.py `faulted_attempts`)"""
    import feedlib as fl
    from props import c11
    ctx.cargo_build(["c09"])
    path = fl.FIXTURE
    n = os.path.getsize(path)
    clean = (run_lines_robust([fl.H(ctx)], [f"script pushf:{path}:0:{n} finish"], per_line_timeout=120)[0] or "crash").split(" | ")[-1]
    if not fl.is_clean_ok(clean):
        ctx.failed_obligations.append("fixture not decoded by the feeding harness: " + clean[:200])
        return
    f = fl.fields(clean)
    data = open(path, "rb").read()
    first = fl.cs_to_file_offset(data, int(f["offs"].split(",")[0]))
    bad = 0 if c11.faulted_attempts(ctx, "fixture", "fixture", clean, data, {"file": path}, ctx.quick,
                                    slicer=lambda a, b: f"pushf:{path}:{a}:{b}", n_scripts=20 if ctx.quick else 200,
                                    cut_lo=first) else 1
    # encoder streams: single- and multi-frame, single-section frames (the AllGroupOffsets cache)
    import hashlib
    plans = fl.gen_plans(ctx.rng, 14 if ctx.quick else 150, 10 if ctx.quick else 100, 0)
    for kind, line, cs in fl.encode(plans):
        hexs = cs.hex()
        clean = (run_lines_robust([fl.H(ctx)], [f"script push:{hexs} finish"])[0] or "crash").split(" | ")[-1]
        if not fl.is_clean_ok(clean):
            continue
        if bad >= 3:
            ctx.notes["loading_frame_faults_stopped_early"] = "three streams already showed a violation (hangs cost their deadline each)"
            break
        if not c11.faulted_attempts(ctx, kind, hashlib.sha1(cs).hexdigest()[:12], clean, cs,
                                    {"kind": kind, "stream_hex": hexs, "plan": line[:3000]}, ctx.quick, n_scripts=8 if ctx.quick else 30):
            bad += 1


def run(ctx):
    ok = ctx.lean_build(MODULES)
    if ok:
        ctx.audit(MODULES, ctx.update_lock)
        if not ctx.quick:
            ctx.leanchecker(MODULES)
    ctx.cargo_build(["c08"])
    if getattr(ctx, "replay", None):
        return replay_file(ctx, ctx.replay)
    ctx.cov["rule"] = (
        "one case = (image, pool, fault point k[, second fault point], keyframe order): fresh image, H1 "
        "fail-from-k, render every keyframe (deadline), render again, lift, render, request_image_region, "
        "render; k ranges over every tracked allocation of a clean decode+render (quick: all k if N<=600 "
        "else stride+boundaries; thorough: all k, more orders, double faults). A case is non-trivial if "
        "at least one render call failed after the image was opened and a later call was made; distinct "
        "by (image, pool, k, k2, order)")
    images = fixture_images(ctx)
    for im in images:
        sweep_image(ctx, im, use_model=ok)
    loading_frame_faults(ctx)
    ctx.assumptions += [
        "the fault model is the tracked-allocation switch H1 (fail the k-th and every later AllocTracker::alloc); "
        "corrupt groups / missing references are covered by the model's adversarial oracle only",
        "with JxlThreadPool::none the H4 trace is deterministic and is compared event by event with the model; "
        "with a rayon pool only the property oracle (returns, no handle left Rendering once nobody runs, "
        "samples equal the clean render) is evaluated",
        "panics inside render_op would also leave the marker set; panics are C01's subject and are reported "
        "here as violations if they occur",
        "images: the shipped fixture cmyk_layers.jxl (4 layered frames, 1 keyframe), the 8x8 probe image and "
        "multi-keyframe reference chains written by tools/props/c08_craft.py",
    ]
