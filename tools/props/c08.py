"""C08 — a failed render never wedges or corrupts the image.
Theorems: Props/C08.lean (sequential single-caller histories of the render-handle protocol with an
adversarial failure oracle). Correspondence: for every tracked allocation point k of a clean
decode+render, a fresh image with "fail allocation k and all later" (hook H1); every render call
runs in a worker subprocess under a deadline; handle states (hook H3) and the scheduling-point
trace (hook H4) are compared with the model's guided replay; after the switch is lifted and after
request_image_region the samples are compared bit-for-bit with the clean render."""
import re
from vlib import *
import os
from props.c08lib import *

MODULES = ["JxlModel.Props.C08"]


def loading_frame_faults(ctx):
    """`render_loading_frame` is a render call too: fail it (H1) on prefixes of the fixture while it is
    being fed, lift the fault, feed the rest; a later render that succeeds must give the clean samples
    (the scenario is shared with C11: tools/props/c11.py `faulted_attempts`)"""
    import feedlib as fl
    from props import c11
    ctx.cargo_build(["c09"])
    path = fl.FIXTURE
    n = os.path.getsize(path)
    clean = (run_lines_robust([fl.H(ctx)], [f"script pushf:{path}:0:{n} finish"], per_line_timeout=120)[0] or "crash").split(" | ")[-1]
    if not fl.is_clean_ok(clean):
        ctx.failed_obligations.append("fixture not decoded by the feeding harness: " + clean[:200])
        return
    f = fl.fields(clean)
    data = open(path, "rb").read()
    first = fl.cs_to_file_offset(data, int(f["offs"].split(",")[0]))
    bad = 0 if c11.faulted_attempts(ctx, "fixture", "fixture", clean, data, {"file": path}, ctx.quick,
                                    slicer=lambda a, b: f"pushf:{path}:{a}:{b}", n_scripts=20 if ctx.quick else 200,
                                    cut_lo=first) else 1
    # encoder streams: single- and multi-frame, single-section frames (the AllGroupOffsets cache)
    import hashlib
    plans = fl.gen_plans(ctx.rng, 14 if ctx.quick else 150, 10 if ctx.quick else 100, 0)
    for kind, line, cs in fl.encode(plans):
        hexs = cs.hex()
        clean = (run_lines_robust([fl.H(ctx)], [f"script push:{hexs} finish"])[0] or "crash").split(" | ")[-1]
        if not fl.is_clean_ok(clean):
            continue
        if bad >= 3:
            ctx.notes["loading_frame_faults_stopped_early"] = "three streams already showed a violation (hangs cost their deadline each)"
            break
        if not c11.faulted_attempts(ctx, kind, hashlib.sha1(cs).hexdigest()[:12], clean, cs,
                                    {"kind": kind, "stream_hex": hexs, "plan": line[:3000]}, ctx.quick, n_scripts=8 if ctx.quick else 30):
            bad += 1


def real_limit_scenarios(ctx, images):
    """a render refused by the tracker's REAL byte limit (not the H1 switch, which answers before any
    accounting), then the limit given back: after request_image_region the render must be the clean one.
    Budget: what a clean load + render peaks at plus 1 % slack; the refusal leaves half of it."""
    from props.c08lib import run_scenarios
    probes = [[f"open {im.path} none", "render 0", "budget", f"open {im.path} none", "budget"] for im in images]
    res = run_scenarios(ctx, probes, 60000)
    scen, meta = [], []
    for im, (outs, status) in zip(images, res):
        if status != "ok" or len(outs) < 5 or not outs[1].startswith("ok ") or not im.size:
            continue
        m1, m0 = re.search(r"peak=(\d+)", outs[2]), re.search(r"outstanding=(\d+)", outs[4])
        if not m1 or not m0:
            continue
        peak, o1, href = int(m1.group(1)), int(m0.group(1)), outs[1].split()[1]
        W, H = im.size
        for frac in (2, 3, 10):
            for nfail in (1, 2, 3):
                t = peak - o1 + max(4096, peak // 100)
                s_ = t - t // frac
                sc = [f"open {im.path} none", f"leave {t}", f"shrink {s_}"]
                for _ in range(nfail):
                    sc += ["render 0", f"region 0 0 {W} {H}"]
                sc += [f"raise {s_}", f"region 0 0 {W} {H}", "render 0"]
                scen.append(sc); meta.append((im, href, nfail, frac))
    res = run_scenarios(ctx, scen, 60000)
    for sc, (im, href, nfail, frac), (outs, status) in zip(scen, meta, res):
        ctx.case(("real-limit", im.name, nfail, frac), nontrivial=any(o.startswith("err") for o in outs))
        ctx.count("real-limit:" + status)
        rep = {"scenario": sc, "answers": [o[:120] for o in outs], "how": "feed the lines to harness/target/debug/c08"}
        if status != "ok" or not outs:
            ctx.violation("render-under-a-real-limit-hung-or-crashed", status, rep, key="c08:real-limit-" + status)
            continue
        last = outs[-1]
        if any(o.startswith("err") for o in outs[:-1]):
            ctx.count("real-limit:refused-renders")
        if not last.startswith("ok ") or last.split()[1] != href:
            ctx.violation("render-after-the-limit-was-given-back-is-not-the-clean-render",
                          {"answer": last[:160], "clean": href, "refused_renders": nfail}, rep, key="c08:real-limit-after")


def run(ctx):
    ok = ctx.lean_build(MODULES)
    if ok:
        ctx.audit(MODULES, ctx.update_lock)
        if not ctx.quick:
            ctx.leanchecker(MODULES)
    ctx.cargo_build(["c08"])
    if getattr(ctx, "replay", None):
        return replay_file(ctx, ctx.replay)
    ctx.cov["rule"] = (
        "one case = (image, pool, fault point k[, second fault point], keyframe order): fresh image, H1 "
        "fail-from-k, render every keyframe (deadline), render again, lift, render, request_image_region, "
        "render; k ranges over every tracked allocation of a clean decode+render (quick: all k if N<=600 "
        "else stride+boundaries; thorough: all k, more orders, double faults). A case is non-trivial if "
        "at least one render call failed after the image was opened and a later call was made; distinct "
        "by (image, pool, k, k2, order)")
    images = fixture_images(ctx)
    for im in images:
        sweep_image(ctx, im, use_model=ok)
    real_limit_scenarios(ctx, images)
    loading_frame_faults(ctx)
    ctx.assumptions += [
        "the fault model is the tracked-allocation switch H1 (fail the k-th and every later AllocTracker::alloc); "
        "corrupt groups / missing references are covered by the model's adversarial oracle only",
        "with JxlThreadPool::none the H4 trace is deterministic and is compared event by event with the model; "
        "with a rayon pool only the property oracle (returns, no handle left Rendering once nobody runs, "
        "samples equal the clean render) is evaluated",
        "panics inside render_op would also leave the marker set; panics are C01's subject and are reported "
        "here as violations if they occur",
        "images: the shipped fixture cmyk_layers.jxl (4 layered frames, 1 keyframe), the 8x8 probe image and "
        "multi-keyframe reference chains written by tools/props/c08_craft.py",
    ]
