"""C08 — a failed render never wedges or corrupts the image.
Theorems: Props/C08.lean (sequential single-caller histories of the render-handle protocol with an
adversarial failure oracle). Correspondence: for every tracked allocation point k of a clean
decode+render, a fresh image with "fail allocation k and all later" (hook H1); every render call
runs in a worker subprocess under a deadline; handle states (hook H3) and the scheduling-point
trace (hook H4) are compared with the model's guided replay; after the switch is lifted and after
request_image_region the samples are compared bit-for-bit with the clean render."""
from vlib import *
from props.c08lib import *

MODULES = ["JxlModel.Props.C08"]


def run(ctx):
    ok = ctx.lean_build(MODULES)
    if ok:
        ctx.audit(MODULES, ctx.update_lock)
        if not ctx.quick:
            ctx.leanchecker(MODULES)
    ctx.cargo_build(["c08"])
    if getattr(ctx, "replay", None):
        return replay_file(ctx, ctx.replay)
    ctx.cov["rule"] = (
        "one case = (image, pool, fault point k[, second fault point], keyframe order): fresh image, H1 "
        "fail-from-k, render every keyframe (deadline), render again, lift, render, request_image_region, "
        "render; k ranges over every tracked allocation of a clean decode+render (quick: all k if N<=600 "
        "else stride+boundaries; thorough: all k, more orders, double faults). A case is non-trivial if "
        "at least one render call failed after the image was opened and a later call was made; distinct "
        "by (image, pool, k, k2, order)")
    images = fixture_images(ctx)
    for im in images:
        sweep_image(ctx, im, use_model=ok)
    ctx.assumptions += [
        "the fault model is the tracked-allocation switch H1 (fail the k-th and every later AllocTracker::alloc); "
        "corrupt groups / missing references are covered by the model's adversarial oracle only",
        "with JxlThreadPool::none the H4 trace is deterministic and is compared event by event with the model; "
        "with a rayon pool only the property oracle (returns, no handle left Rendering once nobody runs, "
        "samples equal the clean render) is evaluated",
        "panics inside render_op would also leave the marker set; panics are C01's subject and are reported "
        "here as violations if they occur",
        "images: the shipped fixture cmyk_layers.jxl (4 layered frames, 1 keyframe), the 8x8 probe image and "
        "multi-keyframe reference chains written by tools/props/c08_craft.py",
    ]
