#!/usr/bin/env python3
"""run every claimed quick check once (VERIF_SEED from env) and print one line per check"""
import json, os, subprocess, sys, time
V = os.path.dirname(os.path.dirname(os.path.abspath(__file__)))
m = json.load(open(os.path.join(V, "MANIFEST.json")))
only = sys.argv[1:]
bad = 0
for c in m["checks"]:
    if only and c["property_id"] not in only:
        continue
    t0 = time.time()
    p = subprocess.run(c["quick_cmd"], shell=True, cwd=V, capture_output=True, text=True)
    vio = [l for l in p.stdout.splitlines() if l.startswith("VIOLATION")]
    last = p.stdout.strip().splitlines()[-1] if p.stdout.strip() else p.stderr[-200:]
    print(f"{c['property_id']} rc={p.returncode} violations={len(vio)} {time.time()-t0:.0f}s | {last}", flush=True)
    for l in vio[:3]:
        print("   ", l)
    bad += p.returncode != 0
sys.exit(1 if bad else 0)
