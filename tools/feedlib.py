"""Shared by the C09 and C11 checks: stream generators (multi-frame plans for the Lean encoder,
container wrapping after Model/Container.lean's `serFile`), the script protocol of
harness/src/bin/c09.rs and lean/JxlModel/Driver/C09.lean, report parsing."""
import os, re, struct
from vlib import *
import planlib as pl

FIXTURE = os.path.join(REPO, "crates", "jxl-oxide-tests", "tests", "cms", "cmyk_layers.jxl")
SIG = bytes.fromhex("0000000c4a584c200d0a870a")


# ---- container files -------------------------------------------------------------------------
def box(ty, payload, enc="short"):
    ty = ty if isinstance(ty, bytes) else ty.encode()
    if enc == "short":
        return struct.pack(">I", len(payload) + 8) + ty + payload
    if enc == "long":
        return struct.pack(">I", 1) + ty + struct.pack(">Q", len(payload) + 16) + payload
    return struct.pack(">I", 0) + ty + payload            # box runs to the end of the file


FTYP = box("ftyp", b"jxl \x00\x00\x00\x00jxl ")


def stored_brotli(rng, d):
    """a Brotli stream of uncompressed meta-blocks only that decompresses to `d` (as tools/props/c10.py)"""
    if not d:
        return b"\x06"
    cuts = sorted(rng.randint(1, len(d) - 1) for _ in range(rng.choice([0, 0, 1, 2]))) if len(d) > 1 else []
    parts, p = [], 0
    for c in cuts + [len(d)]:
        while c - p > 65536:
            parts.append(d[p:p + 65536]); p += 65536
        if c > p:
            parts.append(d[p:c]); p = c
    out = b""
    for i, part in enumerate(parts):
        n = len(part) - 1
        out += (((n << 4) | (1 << 20)) if i == 0 else ((n << 3) | (1 << 19))).to_bytes(3, "little") + part
    return out + b"\x03"


def wrap(rng, cs, big_aux=False):
    """container file for codestream `cs`: signature, ftyp, aux boxes before / between / after,
    `jxlc` or `jxlp` pieces cut at arbitrary offsets, all three size encodings"""
    mode = rng.choice(["jxlc", "jxlp", "jxlp"])
    encs = ["short", "short", "long"]
    out = SIG + FTYP
    desc = {"mode": mode, "aux": []}

    def auxbox(where):
        ty = rng.choice(["Exif", "xml ", "jumb", "abcd"])
        sizes = [0, 1, 5, 30, 200]
        if big_aux:
            sizes += [4090, 5000, 9000]
        n = rng.choice(sizes + [rng.randint(0, 600)])
        payload = bytes(rng.randrange(256) for _ in range(n))
        if ty == "Exif":
            payload = b"\x00\x00\x00\x00" + payload
        desc["aux"].append((where, ty, len(payload)))
        desc.setdefault("first", {}).setdefault(ty, payload.hex())
        if rng.random() < 0.3:
            # Brotli-compressed box (`brob`: inner type, then a Brotli stream of stored meta-blocks)
            desc["brob"] = desc.get("brob", 0) + 1
            return "brob", ty.encode() + stored_brotli(rng, payload)
        return ty, payload
    for _ in range(rng.choice([0, 1, 2])):
        ty, payload = auxbox("before")
        out += box(ty, payload, rng.choice(encs))
    na = rng.choice([0, 0, 1, 2])
    if mode == "jxlc":
        out += box("jxlc", cs, rng.choice(encs + (["eof"] if na == 0 else [])))
    else:
        k = rng.randint(1, 4)
        cuts = sorted(rng.randint(0, len(cs)) for _ in range(k - 1))
        pieces = [cs[a:b] for a, b in zip([0] + cuts, cuts + [len(cs)])]
        for i, p in enumerate(pieces):
            last = i == len(pieces) - 1
            idx = i | (0x80000000 if last else 0)
            e = rng.choice(encs + (["eof"] if (last and na == 0) else []))
            out += box("jxlp", struct.pack(">I", idx) + p, e)
            if not last and rng.random() < 0.3:
                ty, payload = auxbox("between")
                out += box(ty, payload, rng.choice(encs))
        desc["pieces"] = [len(p) for p in pieces]
    for i in range(na):
        ty, payload = auxbox("after")
        out += box(ty, payload, rng.choice(encs + (["eof"] if i == na - 1 else [])))
    return out, desc



def aux_word(payload):
    """the harness's report of an aux payload: `<len>:<fnv1a-64 over the bytes as little-endian u32s>`"""
    h = 0xcbf29ce484222325
    for b in payload:
        for x in (b, 0, 0, 0):
            h = ((h ^ x) * 0x100000001b3) & 0xFFFFFFFFFFFFFFFF
    return f"{len(payload)}:{h:016x}"


def expected_aux(desc):
    """what JxlImage::aux_boxes() must report after finalize() for a file made by `wrap`
    (independent of the decoder: from the generator's own record of the boxes it wrote)"""
    first = {k: bytes.fromhex(v) for k, v in (desc or {}).get("first", {}).items()}
    if "Exif" in first:
        body = first["Exif"][4:]
        exif = aux_word(body) if len(body) > 0 else "invalid"      # tiff offset 0 needs a non-empty body
    else:
        exif = "notfound"
    xml = aux_word(first["xml "]) if "xml " in first else "notfound"
    return exif, xml


def cs_to_file_offset(data, cs_off):
    """file offset of codestream byte `cs_off` (container: walks the jxlc / jxlp boxes; bare: identity)"""
    if not data.startswith(SIG):
        return cs_off
    pos, seen = len(SIG), 0
    while pos + 8 <= len(data):
        size = struct.unpack(">I", data[pos:pos + 4])[0]
        ty = data[pos + 4:pos + 8]
        hdr = 8
        if size == 1:
            size = struct.unpack(">Q", data[pos + 8:pos + 16])[0]
            hdr = 16
        end = len(data) if size == 0 else pos + size
        if ty in (b"jxlc", b"jxlp"):
            start = pos + hdr + (4 if ty == b"jxlp" else 0)
            if cs_off < seen + (end - start):
                return start + (cs_off - seen)
            seen += end - start
        pos = end
    return None


def subst(script):
    """corpus scripts name the fixture as {FIXTURE}"""
    return script.replace("{FIXTURE}", FIXTURE)


# ---- plans -----------------------------------------------------------------------------------
def gen_multiframe(rng, big=False, overshoot=0, max_bits=16):
    """2..5 frames: regular / reference-only / skip-progressive, crops that overlap the canvas,
    all blend modes, save slots, durations (animation) — the frame structure C09/C11 care about.
    Blend sources never name a slot that holds a reference-only frame and crops always intersect
    the canvas (inputs outside that are rejected or mishandled by the blend code, which is C05's)."""
    w = rng.choice([1, 2, 3, 5, 8, 9, 16, 17, rng.randint(1, 24)]) if not big else rng.choice([129, 140, 200])
    h = rng.choice([1, 2, 3, 4, 7, 8, 13, rng.randint(1, 24)]) if not big else rng.choice([3, 9, 130])
    bits = rng.choice([b for b in [8, 8, 8, 10, 12, 16] if b <= max_bits])
    gray = rng.random() < 0.3
    alpha = rng.random() < 0.5
    ecs = [{"ty": 0, "dim_shift": 0, "bits": bits, "alpha_assoc": rng.random() < 0.3}] if alpha else []
    anim = (rng.choice([100, 1000, 24]), 1, rng.choice([0, 2]), 0) if rng.random() < 0.5 else None
    img = {"w": w, "h": h, "bits": bits, "gray": gray, "buf16": bits <= 12 and rng.random() < 0.7,
           "ecs": ecs, "orient": rng.choice([1, 1, 1, 2, 5, 8]), "anim": anim}
    nch = (1 if gray else 3) + len(ecs)
    lo, hi = -overshoot, (1 << bits) - 1 + overshoot     # samples outside the nominal range are legal
    nfr = rng.randint(2, 5)
    frames, saved, refonly = [], set(), set()
    for i in range(nfr):
        last = i == nfr - 1
        ty = 0 if last else rng.choice([0, 0, 0, 2, 3])
        f = {"ty": ty, "gshift": 0 if big else rng.randrange(4)}
        fw, fh = w, h
        if rng.random() < 0.5:
            fw, fh = rng.randint(1, w + 2), rng.randint(1, h + 2)
            f.update({"have_crop": True, "w": fw, "h": fh})
            if ty != 2:
                x0, y0 = rng.randint(-2, w - 1), rng.randint(-2, h - 1)
                if x0 + fw <= 0:
                    x0 = 1 - fw
                if y0 + fh <= 0:
                    y0 = 1 - fh
                f.update({"x0": x0, "y0": y0})
        if ty in (0, 3):
            modes = [0, 0, 1, 4] + ([2, 3] if alpha else [])
            ok_src = [k for k in range(4) if k not in refonly] or [0]
            good = sorted(saved - refonly)
            src = rng.choice(good) if good and rng.random() < 0.8 else rng.choice(ok_src)
            f["blend"] = {"mode": rng.choice(modes), "alpha": 0, "clamp": rng.random() < 0.3, "source": src}
            if alpha:
                f["ecblend"] = [{"mode": rng.choice(modes), "alpha": 0, "clamp": rng.random() < 0.3,
                                 "source": rng.choice(good) if good else rng.choice(ok_src)}]
            if anim:
                f["dur"] = rng.choice([0, 0, 1, 5])
        f["is_last"] = last
        if not last:
            f["save_ref"] = rng.randrange(4)
            f["sbct"] = rng.random() < 0.2
            if f.get("dur", 0) == 0 or f["save_ref"] != 0:
                saved.add(f["save_ref"])
                (refonly.add if ty == 2 else refonly.discard)(f["save_ref"])
        f["chans"] = [(fw, fh, pl.gen_pixels(rng, fw, fh, lo, hi)) for _ in range(nch)]
        f["tr"] = [("rct", 0, rng.randrange(42))] if (not gray and rng.random() < 0.3) else []
        f["pals"] = []
        f["tree"] = pl.gen_tree(rng, rng.choice([0, 1, 2]), rng.randint(1, 4), (lo, hi), nprev=0)
        f["wp"] = None
        if rng.random() < 0.2:
            f["tocperm"] = rng.randrange(1000)
        frames.append(f)
    return img, frames


def cap_depth(img):
    """the sample->float conversion of 25..31-bit channels (colour or extra) is C15's / C01's business
    (parse_integer_sample overflows); the samples stay as generated, only the declared depth changes"""
    if img["bits"] > 24:
        img["bits"] = 16
    for e in img["ecs"]:
        if e.get("bits", 8) > 24:
            e["bits"] = 16


def gen_plans(rng, n_single, n_multi, n_group, max_pixels=None):
    """[(kind, plan line)]; `max_pixels` bounds width*height of the multi-group images (they are
    noise-like and compress badly: a 300x257 image is a 300 KB stream)"""
    def small_enough(img):
        return max_pixels is None or img["w"] * img["h"] <= max_pixels
    out = []
    for _ in range(n_single):
        img, fr = pl.gen_modular_image(rng)
        cap_depth(img)
        out.append(("single", pl.plan_line(img, fr)))
    for _ in range(n_multi):
        out.append(("multi-frame", pl.plan_line(*gen_multiframe(rng))))
    for _ in range(n_group):
        for _try in range(50):
            if rng.random() < 0.5:
                img, fr = pl.gen_modular_image(rng, {"multi_group": True})
                kind = "multi-group"
            else:
                img, fr = gen_multiframe(rng, big=True)
                kind = "multi-frame-multi-group"
            if small_enough(img):
                break
        cap_depth(img)
        out.append((kind, pl.plan_line(img, fr)))
    return out


def encode(plans):
    """[(kind, line)] -> [(kind, line, codestream bytes)] for the plans the encoder accepts"""
    outs = run_lines_robust([MODEL_EXE, "enc"], [l for _, l in plans], per_line_timeout=60)
    res = []
    for (kind, line), o in zip(plans, outs):
        if o and o.startswith("ok "):
            res.append((kind, line, bytes.fromhex(o.split()[1])))
    return res


def pjpeg_words(rng, bw, bh, op="pjpeg"):
    """`pjpeg <seed> <bw> <bh> <script> <ri> <tables> <style> <resets> <pad>` (harness/src/bin/c17e.rs), feed word left to the caller"""
    script = rng.choice(["b", "bs", "A", "B", "R", "R"])
    tables = rng.choice(["c", "cs"]) if script in "ABR" else rng.choice(["k", "c", "cs"])
    return (f"{op} {rng.randrange(1, 10 ** 6)} {bw} {bh} {script} {rng.choice([0, 0, 1, 3, bw])} {tables} "
            f"{rng.choice('nnqz')} {rng.choice([0, 0, 2])} {rng.choice('dn')}")


def hostile_jbrd_lines(rng, n):
    """`hjbrd` cases: a synthetic transcode whose reconstruction data got seeded structural damage"""
    out = []
    for _ in range(n):
        bw, bh = rng.choice([(1, 1), (2, 2), (3, 2), (5, 4), (8, 8), (33, 2)])
        out.append(pjpeg_words(rng, bw, bh, op=f"hjbrd {rng.randrange(1, 10 ** 9)}") + " " + rng.choice(["w", "w", "w", "64"]))
    return out


def synth_vardct(ctx, n, max_blocks=36):
    """[(label, container bytes, original JPEG bytes)]: VarDCT images (DCT8 blocks, YCbCr 4:4:4) with a jbrd
    box, from the synthetic lossless JPEG transcoder of harness/src/synth.rs (driver: harness bin c17e)"""
    ctx.cargo_build(["c17e"])
    rng = ctx.rng
    lines = []
    for _ in range(n):
        bw, bh = rng.choice([(1, 1), (2, 2), (3, 2), (4, 4), (5, 3), (6, 6), (9, 4), (33, 1), (17, 3), (40, 33), (64, 20)])
        while bw * bh > max_blocks:
            bw, bh = max(1, bw // 2), max(1, bh // 2)
        if rng.random() < 0.6:
            lines.append(f"jpeg {rng.randrange(1, 10 ** 6)} {bw} {bh} {rng.choice('isr')} {rng.choice('dzn')} "
                         f"{rng.choice([0, 0, 2])} {rng.choice(['-', 'e', 'x', 'c'])} emit")
        else:
            # progressive scans / restart intervals / seeded Huffman tables in the reconstruction data
            lines.append(pjpeg_words(rng, bw, bh) + " emit")
    out = []
    for l, o in zip(lines, run_lines_robust([ctx.harness_bin("c17e")], lines, per_line_timeout=60)):
        w = (o or "").split()
        if len(w) == 3 and w[0] == "emit":
            out.append((l, bytes.fromhex(w[1]), bytes.fromhex(w[2])))
    return out


# ---- the script protocol -----------------------------------------------------------------------
def H(ctx):
    return ctx.harness_bin("c09")


def hx(b):
    return b.hex() if b else "-"


def push_ops(data, cuts):
    """ops pushing data cut at the given positions"""
    pts = [0] + list(cuts) + [len(data)]
    return [f"push:{hx(data[a:b])}" for a, b in zip(pts, pts[1:])]


def fields(part):
    """'consumed=3 st=ready frames=1' -> dict"""
    d = {}
    for w in part.split():
        if "=" in w:
            k, v = w.split("=", 1)
            d[k] = v
    return d


def is_clean_ok(report):
    """whole-buffer decode accepted the stream and rendered every keyframe"""
    if not report or not report.startswith("fin=ok"):
        return False
    f = fields(report)
    if f.get("done") != "1" or f.get("r", "-") == "-":
        return False
    return all(len(x) == 16 and all(c in "0123456789abcdef" for c in x) for x in f["r"].split(","))


def strip_report(report):
    """the observable part of a finish/read report (the layout is for the model)"""
    return " ".join(w for w in report.split() if not w.startswith("lay="))


def bad_feed(part):
    """a feed answer that is an error or a panic"""
    return part.startswith("panic") or part.startswith("crash") or part == "hang" or part == "dead" \
        or "st=err" in part or "st=dead" in part


def panic_key(part):
    """'panic /x/jxl-grid/src/mutable_subgrid.rs:293_assertion..' -> 'panic:jxl-grid/src/mutable_subgrid.rs:293'"""
    m = re.search(r"(jxl-[\w\-/\.]+\.rs:\d+)", part)
    return "panic:" + (m.group(1) if m else (part.split() + ["?", "?"])[1][:80])


MODEL_KEYS = ("consumed", "st", "frames", "kf", "offs", "done")


def modelled(part, finish=False):
    """projection of a harness answer onto what the model prints"""
    f = fields(part)
    if part.startswith("fin=") or finish:
        if "st" not in f:
            f["st"] = "ready" if part.startswith("fin=") else ("uninit" if part.startswith("uninit") else "dead")
        keys = ("st", "frames", "kf", "offs", "done", "left")
    else:
        keys = MODEL_KEYS
    st = f.get("st", "")
    if st.startswith("err"):
        f["st"] = "dead"
        f["consumed"] = "?"
    return " ".join(f"{k}={f[k]}" for k in keys if k in f)
