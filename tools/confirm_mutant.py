#!/usr/bin/env python3
"""Confirm a seeded change produced by a sub-agent, in ITS scratch worktree (never in /repo):
usage: tools/confirm_mutant.py /tmp/mut-cXX/A <ID>
 1. at HEAD the demonstration passes; 2. with the patch the workspace builds and every test of
 the pinned baseline (114 names) still passes; 3. with the patch the demonstration fails.
On success the change is stored as /verif/seeded/<ID>/ (patch.diff, demo/, meta.json, README.md)."""
import json, os, re, shutil, subprocess, sys
d, ident = sys.argv[1].rstrip("/"), sys.argv[2]
root = os.path.dirname(d)
repo = os.path.join(root, "repo")
meta = json.load(open(os.path.join(d, "meta.json")))
base = json.load(open("/root/.vp/BASELINE.json"))["stable_pass"]

def sh(cmd, timeout=3600):
    p = subprocess.run(cmd, shell=True, capture_output=True, text=True, timeout=timeout)
    return p.returncode, p.stdout + p.stderr

def demo_cmds():
    fails = [c for c in meta["commands"] if re.search(r"#.*\bFAIL(S|ED)?\b", c, re.I)]
    passes = [c for c in meta["commands"] if re.search(r"#.*\bPASS(ES|ED)?\b", c, re.I)]
    strip = lambda c: c.split("#")[0].strip()
    return [strip(c) for c in fails], [strip(c) for c in passes]

fails, passes = demo_cmds()
if not fails or not passes:
    # fall back: the same demo command for both
    cands = [c.split("#")[0].strip() for c in meta["commands"] if "demo" in c and ("cargo test" in c or "cargo run" in c)]
    fails = fails or cands[:1]; passes = passes or cands[:1]
log = {}
assert sh(f"git -C {repo} status --porcelain --untracked-files=no")[1].strip() == "", "worktree not clean"
rc, out = sh(f"timeout 1200 bash -c {json.dumps(passes[-1])}")
log["demo_at_head_rc"] = rc
ok = rc == 0
rc, out = sh(f"git -C {repo} apply {d}/patch.diff")
assert rc == 0, out
try:
    rc, out = sh(f"cd {repo} && cargo nextest run --workspace --no-fail-fast --test-threads 8 --offline 2>&1", timeout=7200)
    passed = set()
    for l in out.splitlines():
        m = re.match(r"\s*PASS \[[^\]]*\]\s+(?:\(\s*\d+/\d+\)\s+)?(\S+)\s+(\S+)", l)
        if m:
            passed.add(m.group(1).split("::")[0] + "::" + m.group(2))
            passed.add(m.group(1) + "::" + m.group(2))
    missing = [b for b in base if b not in passed and b.replace("::test::", "::", 0) not in passed]
    log["baseline_missing_with_patch"] = missing[:10]
    log["baseline_passed_with_patch"] = len(base) - len(missing)
    ok = ok and not missing
    rc, out2 = sh(f"timeout 1200 bash -c {json.dumps(fails[0])}")
    log["demo_with_patch_rc"] = rc
    log["demo_with_patch_tail"] = out2[-400:]
    ok = ok and rc != 0
finally:
    sh(f"git -C {repo} checkout -- . && git -C {repo} clean -fdq crates")
log["confirmed"] = ok
print(json.dumps(log, indent=1))
if ok:
    dst = f"/verif/seeded/{ident}"
    os.makedirs(dst, exist_ok=True)
    shutil.copy(os.path.join(d, "patch.diff"), dst)
    for f in ("README.md",):
        if os.path.exists(os.path.join(d, f)):
            shutil.copy(os.path.join(d, f), dst)
    for sub in os.listdir(d):
        p = os.path.join(d, sub)
        if os.path.isdir(p) and sub.startswith("demo"):
            shutil.copytree(p, os.path.join(dst, sub), dirs_exist_ok=True,
                            ignore=shutil.ignore_patterns("target", "target-*"))
    m2 = {"property": meta["property"].upper(), "summary": meta.get("summary"),
          "needs_to_manifest": meta.get("needs_to_manifest"), "files_changed": meta.get("files_changed"),
          "commands": meta.get("commands"), "confirmed_by_me": log,
          "what_i_ran": "tools/confirm_mutant.py: demo at HEAD (pass), patch applied in the agent's scratch worktree, "
                        "cargo nextest --workspace (all 114 baseline tests pass), demo with patch (fails), worktree reverted"}
    json.dump(m2, open(os.path.join(dst, "meta.json"), "w"), indent=1)
sys.exit(0 if ok else 1)
