"""C05: seeded generator of multi-frame sequences for the compositor (plans for the Lean reference encoder,
grammar in lean/JxlModel/Driver/Enc.lean), the input line of the Lean driver `c05`, and parsers of keyframe dumps.
Builds on planlib (plan serialisation)."""
from planlib import blend_str, chan_str, plan_line, parse_enc_output, patches_str
BLEND_NAMES = ["replace", "add", "blend", "muladd", "mul"]


def _covers(img, f):
    if not f.get("have_crop"):
        return True
    return f["x0"] <= 0 and f["y0"] <= 0 and f["x0"] + f["w"] >= img["w"] and f["y0"] + f["h"] >= img["h"]


def seq_resets_canvas(img, f):
    return f.get("blend", {}).get("mode", 0) == 0 and _covers(img, f)


def seq_can_reference(img, f):
    is_last = f.get("is_last", True) if f.get("ty", 0) in (0, 3) else False
    dur = f.get("dur", 0) if (img.get("anim") and f.get("ty", 0) in (0, 3)) else 0
    return (not is_last) and (dur == 0 or f.get("save_ref", 0) != 0)


def seq_is_keyframe(img, f):
    if f.get("ty", 0) not in (0, 3):
        return False
    dur = f.get("dur", 0) if img.get("anim") else 0
    return bool(f.get("is_last", True)) or dur != 0


def seq_cut(img, frames):
    """frames up to and including the first normal frame with is_last (the decoder stops there)"""
    out = []
    for f in frames:
        out.append(f)
        if f.get("ty", 0) in (0, 3) and f.get("is_last", True):
            break
    return out


def gen_crop(rng, W, H, cls=None):
    """(class, x0, y0, w, h) for a cropped frame on a W x H canvas"""
    cls = cls or rng.choice(["inside", "inside", "partly-neg", "partly-pos", "straddle", "outside", "covering", "exact"])
    if cls == "inside":
        w, h = rng.randint(1, W), rng.randint(1, H)
        return cls, rng.randint(0, W - w), rng.randint(0, H - h), w, h
    if cls == "partly-neg":
        w, h = rng.randint(1, W + 2), rng.randint(1, H + 2)
        x0 = -rng.randint(1, w) + (1 if w > 1 and rng.random() < 0.7 else 0)
        y0 = rng.choice([-rng.randint(0, h - 1), rng.randint(0, max(0, H - 1))])
        return cls, min(x0, 0) if x0 < 0 else -1, y0, w, h
    if cls == "partly-pos":
        w, h = rng.randint(1, W + 2), rng.randint(1, H + 2)
        x0 = rng.randint(max(0, W - w + 1), W - 1) if W - 1 >= max(0, W - w + 1) else 0
        y0 = rng.randint(max(0, H - h + 1), H - 1) if rng.random() < 0.5 and H - 1 >= max(0, H - h + 1) else rng.randint(-1, max(0, H - 1))
        return cls, x0, y0, w, h
    if cls == "straddle":
        # wider than the canvas in one direction, inside in the other
        w, h = W + rng.randint(1, 4), rng.randint(1, H)
        return cls, -rng.randint(0, w - W), rng.randint(0, H - h), w, h
    if cls == "outside":
        w, h = rng.randint(1, 6), rng.randint(1, 6)
        x0, y0 = rng.choice([(-w - rng.randint(0, 3), rng.randint(-2, H)), (W + rng.randint(0, 3), rng.randint(-2, H)),
                             (rng.randint(-2, W), -h - rng.randint(0, 3)), (rng.randint(-2, W), H + rng.randint(0, 3)),
                             (-w, -h), (W, H)])
        return cls, x0, y0, w, h
    if cls == "covering":
        ex, ey = rng.randint(0, 3), rng.randint(0, 3)
        x0, y0 = -rng.randint(0, ex), -rng.randint(0, ey)
        return cls, x0, y0, W + ex, H + ey
    return "exact", 0, 0, W, H


def gen_samples(rng, n, bits, narrow, role):
    """sample values incl. 0, max and out-of-range ones; `role` 'alpha' favours 0 / max / mid"""
    mx = (1 << bits) - 1
    lim = 32767 if narrow else (1 << 24) - 1
    style = rng.choice(["noise", "edges", "flat", "range", "over"] if role != "alpha"
                       else ["edges", "edges", "noise", "flat", "over", "zero", "one"])
    if style == "flat":
        v = rng.choice([0, mx, rng.randint(0, mx)])
        return [v] * n
    if style == "zero":
        return [0] * n
    if style == "one":
        return [mx] * n
    if style == "edges":
        return [rng.choice([0, mx, 0, mx, mx // 2, 1, max(0, mx - 1)]) for _ in range(n)]
    if style == "over":
        lo, hi = max(-lim, -mx // 2 - 1), min(lim, mx + mx // 2 + 1)
        return [rng.choice([rng.randint(lo, hi), rng.randint(0, mx), -1, mx + 1 if mx + 1 <= lim else mx]) for _ in range(n)]
    if style == "range":
        return [min(mx, (i * 7 + 3) % (mx + 1)) for i in range(n)]
    return [rng.randint(0, mx) for _ in range(n)]


def gen_blend_sequence(rng, opts=None):
    """multi-frame Modular image for C05: (img, frames, tags). 2..6 frames, canvas <= 32x32, every
    blend mode, clamp, alpha channel choice among several alpha channels (straight / premultiplied),
    per-extra-channel blend info, save slots 0..3, sources reading any slot, durations, reference-only
    and skip-progressive frames, crops inside / partly / wholly outside / covering, out-of-range samples."""
    o = opts or {}
    tags = []
    W = rng.choice([1, 2, 3, 4, 5, 7, 8, 9, 12, 16, rng.randint(1, 32), 32])
    H = rng.choice([1, 2, 3, 4, 5, 6, 8, 11, rng.randint(1, 32), 32])
    if o.get("small"):
        W, H = rng.randint(1, 6), rng.randint(1, 5)
    bits = rng.choice([8, 8, 8, 10, 12, 16, 5, 1, 14])
    gray = rng.random() < 0.3
    nec = rng.choice([0, 1, 1, 2, 2, 3, 4])
    ecs = []
    for _ in range(nec):
        ty = rng.choice([0, 0, 0, 1, 3, 15])
        ecs.append({"ty": ty, "dim_shift": 0, "bits": rng.choice([bits, bits, 8, 16, 12]),
                    "alpha_assoc": rng.random() < 0.5})
    alpha_idx = [i for i, e in enumerate(ecs) if e["ty"] == 0]
    if nec and not alpha_idx and rng.random() < 0.8:
        ecs[rng.randrange(nec)]["ty"] = 0
        alpha_idx = [i for i, e in enumerate(ecs) if e["ty"] == 0]
    allbits = [bits] + [e["bits"] for e in ecs]
    narrow = max(allbits) <= 12 and rng.random() < 0.7
    anim = (rng.choice([1, 10, 100, 1000]), rng.choice([1, 1, 1001]), rng.choice([0, 0, 3]), 0) if rng.random() < 0.65 else None
    orient = 1 if rng.random() < 0.8 else rng.randint(2, 8)
    img = {"w": W, "h": H, "bits": bits, "gray": gray, "buf16": narrow, "ecs": ecs, "orient": orient, "anim": anim}
    tags.append(f"orientation:{orient}")
    ncol = 1 if gray else 3
    n = o.get("nframes") or rng.randint(2, 6)
    # slot bookkeeping of the generator: None empty, True usable as blend source, False too small
    slot_ok = [None] * 4
    slot_writer = [None] * 4
    frames = []

    def modes():
        if alpha_idx or nec == 0:
            return [0, 1, 2, 3, 4]
        return [0, 1, 4]

    for i in range(n):
        last = i == n - 1
        ty = 0 if last else rng.choice([0, 0, 0, 0, 0, 3, 3, 2])
        f = {"ty": ty, "gshift": rng.randrange(4), "tr": [], "pals": [], "tree": ("L", 0, 0, 0, 1), "wp": None}
        if ty == 2:
            cls = rng.choice(["none", "larger", "smaller", "exact"])
            if cls == "none":
                fw, fh = W, H
            elif cls == "larger":
                f["have_crop"] = True
                fw, fh = W + rng.randint(0, 4), H + rng.randint(0, 4)
            elif cls == "exact":
                f["have_crop"] = True
                fw, fh = W, H
            else:
                f["have_crop"] = True
                fw, fh = rng.randint(1, W), rng.randint(1, H)
            f.update({"x0": 0, "y0": 0, "w": fw, "h": fh})
            f["save_ref"] = rng.randrange(4)
            f["sbct"] = rng.random() < 0.5
            f["is_last"] = False
            tags.append("type:reference-only")
            tags.append("refonly:" + cls)
            slot_ok[f["save_ref"]] = fw >= W and fh >= H
            slot_writer[f["save_ref"]] = i
        else:
            tags.append("type:" + ("regular" if ty == 0 else "skip-progressive"))
            if rng.random() < 0.3:
                cls, fw, fh = "none", W, H
                f.update({"x0": 0, "y0": 0, "w": W, "h": H})
            else:
                cls, x0, y0, fw, fh = gen_crop(rng, W, H)
                f.update({"have_crop": True, "x0": x0, "y0": y0, "w": fw, "h": fh})
            tags.append("crop:" + cls)
            usable = [s for s in range(4) if slot_ok[s] is not False]
            # favour reading slots that hold something
            filled = [s for s in usable if slot_ok[s]]

            def pick_src():
                if filled and rng.random() < 0.8:
                    return rng.choice(filled)
                return rng.choice(usable) if usable else 0

            mode = rng.choice(modes())
            if not usable:
                # every slot holds a small reference-only frame: this frame must not read any
                mode = 0
                f.update({"have_crop": False, "x0": 0, "y0": 0, "w": W, "h": H})
                fw, fh = W, H
                tags[-1] = "crop:none"
            b = {"mode": mode, "alpha": rng.choice(alpha_idx) if alpha_idx else 0, "clamp": rng.random() < 0.5,
                 "source": pick_src()}
            f["blend"] = b
            ecb = []
            same = rng.random() < 0.35
            for e in range(nec):
                if same:
                    ecb.append(dict(b))
                else:
                    ecb.append({"mode": rng.choice(modes()), "alpha": rng.choice(alpha_idx) if alpha_idx else 0,
                                "clamp": rng.random() < 0.5, "source": pick_src()})
            f["ecblend"] = ecb
            f["dur"] = rng.choice([0, 0, 0, 1, 1, 2, 7, 300]) if anim else 0
            f["is_last"] = last
            f["save_ref"] = 0 if last else rng.randrange(4)
            f["sbct"] = rng.random() < 0.3
            resets = seq_resets_canvas(img, f)
            tags.append("mode:" + BLEND_NAMES[mode] + ("+reset" if resets else ""))
            if not resets:
                tags.append(f"src-slot:{b['source']}" + ("" if slot_ok[b["source"]] else "-empty"))
                if slot_writer[b["source"]] is not None:
                    tags.append("source-age:" + str(min(4, i - slot_writer[b["source"]])) + ("+" if i - slot_writer[b["source"]] >= 4 else ""))
                for e, eb in enumerate(ecb):
                    tags.append("ecmode:" + BLEND_NAMES[eb["mode"]])
                    if eb["mode"] in (2, 3):
                        tags.append("ec-alpha:" + ("self" if eb["alpha"] == e else "other"))
                    if eb["source"] != b["source"]:
                        tags.append("ec-source-differs")
                if mode in (2, 3):
                    if nec == 0:
                        tags.append("alpha:none(no extra channels)")
                    else:
                        tags.append("alpha:" + ("premultiplied" if ecs[b["alpha"]]["alpha_assoc"] else "straight")
                                    + f"#{b['alpha']}of{len(alpha_idx)}")
                    tags.append("clamp:" + str(int(b["clamp"])))
                if mode == 4:
                    tags.append("mulclamp:" + str(int(b["clamp"])))
            if seq_can_reference(img, f):
                tags.append(f"save-slot:{f['save_ref']}")
                slot_ok[f["save_ref"]] = True
                slot_writer[f["save_ref"]] = i
            if seq_is_keyframe(img, f):
                tags.append("keyframe")
        chans = []
        for c in range(ncol + nec):
            cb = bits if c < ncol else ecs[c - ncol]["bits"]
            role = "alpha" if (c >= ncol and ecs[c - ncol]["ty"] == 0) else "colour"
            chans.append((fw, fh, gen_samples(rng, fw * fh, cb, narrow, role)))
        f["chans"] = chans
        frames.append(f)
    # is_last placement: now and then an earlier normal frame already ends the image; the frames after it
    # are still in the file and must be ignored
    if n >= 3 and rng.random() < 0.08:
        cand = [i for i in range(1, n - 1) if frames[i]["ty"] in (0, 3)]
        if cand:
            j = rng.choice(cand)
            frames[j]["is_last"] = True
            frames[j]["save_ref"] = 0
            tags.append("is-last-before-end-of-file")
    return img, frames, tags


def orient_plane(plane, o):
    """what FrameBuffer::from_grids does to a channel for orientation `o` (1..8)"""
    w, h, d = plane
    if o == 1:
        return plane
    ow = w if o <= 4 else h
    out = [0] * (w * h)
    for y in range(h):
        for x in range(w):
            ox, oy = {2: (w - x - 1, y), 3: (w - x - 1, h - y - 1), 4: (x, h - y - 1), 5: (y, x),
                      6: (h - y - 1, x), 7: (h - y - 1, w - x - 1), 8: (y, w - x - 1)}[o]
            out[ox + oy * ow] = d[y * w + x]
    return (ow, h if o <= 4 else w, out)


def comp_line(img, frames, decoded):
    """input line of the Lean driver `c05` (`comp ...`): image info, intended header values and each
    frame's own decoded channels (`decoded[i]` = list of (w, h, data) from the `enc` answer)"""
    ncol = 1 if img.get("gray") else 3
    s = ["comp", img["w"], img["h"], ncol, len(img["ecs"])]
    s += [(-1 if e.get("ty", 0) != 0 else int(e.get("alpha_assoc", False))) for e in img["ecs"]]
    s += [img.get("bits", 8)] + [e.get("bits", img.get("bits", 8)) for e in img["ecs"]]
    s += [1 if img.get("anim") else 0, len(frames)]
    nec = len(img["ecs"])
    for f, ch in zip(frames, decoded):
        s += ["frame", f.get("ty", 0), int(f.get("have_crop", False)), f.get("x0", 0), f.get("y0", 0),
              f.get("w", 0), f.get("h", 0), blend_str(f.get("blend", {}))]
        ecb = f.get("ecblend", [{}] * nec)
        s += [blend_str(ecb[i]) for i in range(nec)]
        s += [f.get("dur", 0), int(f.get("is_last", True)), f.get("save_ref", 0), int(f.get("sbct", False))]
        if f.get("patches"):
            s += [patches_str(f["patches"])]
        s += [len(ch)]
        for (cw, chh, data) in ch:
            s.append(chan_str(cw, chh, data))
    return " ".join(map(str, s))


def parse_keyframes(line, with_idx):
    """keyframe dumps as f32 bit patterns. Harness `c05 render` (with_idx=True):
    `ok NKF N { k IDX NCH {w h bits*}*NCH | kerr CLS }*N`; Lean driver `c05` (with_idx=False):
    `ok N { k NCH {w h bits*}*NCH | kerr }*N`.
    -> (status, nkf, [ (idx|None, [(w,h,[bits])]) | ('kerr', cls) ])"""
    w = line.split()
    if not w or w[0] != "ok":
        return (" ".join(w[:3]) if w else "empty"), 0, None
    if with_idx:
        nkf, n, i = int(w[1]), int(w[2]), 3
    else:
        nkf = n = int(w[1]); i = 2
    out = []
    for _ in range(n):
        if w[i] == "kerr":
            if with_idx:
                out.append(("kerr", w[i + 1])); i += 2
            else:
                out.append(("kerr", "")); i += 1
            continue
        assert w[i] == "k"
        if with_idx:
            idx, nch = int(w[i + 1]), int(w[i + 2]); i += 3
        else:
            idx, nch = None, int(w[i + 1]); i += 2
        planes = []
        for _ in range(nch):
            cw, ch = int(w[i]), int(w[i + 1])
            planes.append((cw, ch, list(map(int, w[i + 2:i + 2 + cw * ch]))))
            i += 2 + cw * ch
        out.append((idx, planes))
    return "ok", nkf, out
