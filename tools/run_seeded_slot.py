#!/usr/bin/env python3
"""Self-test of the checks against seeded breakage, in a private slot (development tool).
usage: tools/run_seeded_slot.py <slot> <seeded-dir> [<seeded-dir> ...]
A slot is /tmp/sr-<slot>: a copy of /verif (made by tools/agent_setup.sh, refreshed with rsync on
every call) plus a worktree of /repo HEAD, so several seeded changes can be run at the same time
and /repo itself is never patched. The check runs exactly as registered (tools/check.py <P> --tier
quick) with the slot's harness path-depending on the slot's worktree and VERIF_REPO pointing there.
The result goes to <seeded-dir>/result.json like tools/run_seeded.py."""
import json, os, subprocess, sys, time
VERIF = os.path.dirname(os.path.dirname(os.path.abspath(__file__)))

def sh(cmd, **kw):
    return subprocess.run(cmd, shell=True, capture_output=True, text=True, **kw)

def main():
    slot, dirs = sys.argv[1], sys.argv[2:]
    S = f"/tmp/sr-{slot}"
    if not os.path.isdir(S + "/repo"):
        os.makedirs(S, exist_ok=True)
        print(sh(f"git -C /repo worktree add --detach {S}/repo HEAD 2>&1").stdout[-200:])
    else:
        sh(f"git -C {S}/repo checkout -- . ; git -C {S}/repo checkout --detach $(git -C /repo rev-parse HEAD)")
    # refresh the framework copy (keeps the slot's own harness/target)
    sh(f"rsync -a --exclude harness/target --exclude work --exclude evidence/replay --exclude .git {VERIF}/ {S}/verif/")
    sh(f"sed -i 's#/repo/crates#{S}/repo/crates#g' {S}/verif/harness/Cargo.toml")
    env = dict(os.environ, VERIF_REPO=f"{S}/repo", VERIF_SEED=os.environ.get("VERIF_SEED", "1"))
    for d in dirs:
        d = os.path.abspath(d.rstrip("/"))
        meta = json.load(open(os.path.join(d, "meta.json")))
        props = [meta["property"]] + meta.get("also", [])
        r = sh(f"git -C {S}/repo apply {d}/patch.diff")
        if r.returncode != 0:
            print(d, "PATCH DOES NOT APPLY", r.stderr[:200]); continue
        res = {}
        try:
            for p in props:
                t0 = time.time()
                c = sh(f"cd {S}/verif && python3 tools/check.py {p} --tier quick", timeout=3600, env=env)
                vio = [l for l in c.stdout.splitlines() if l.startswith("VIOLATION")]
                res[p] = {"exit": c.returncode, "violations": len(vio),
                          "concrete": sum(1 for l in vio if "no-failing-input-found" not in l),
                          "first": vio[:2], "wall_s": round(time.time() - t0, 1), "slot": slot}
                print(os.path.basename(d), p, "CAUGHT" if vio and c.returncode == 1 else "MISSED",
                      res[p]["first"][:1], flush=True)
                if not vio:
                    open(f"/tmp/sr-{slot}-{os.path.basename(d)}-{p}.log", "w").write(c.stdout[-6000:] + c.stderr[-3000:])
        finally:
            sh(f"git -C {S}/repo checkout -- . && git -C {S}/repo clean -fdq crates")
            sh(f"rsync -a {VERIF}/lean/JxlModel/Gen/ {S}/verif/lean/JxlModel/Gen/")
        json.dump(res, open(os.path.join(d, "result.json"), "w"), indent=1)

if __name__ == "__main__":
    main()
